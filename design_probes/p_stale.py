import os, pickle, types, io
import casadi as ca
from pymoca.backends.casadi import api as A

FOLDER = "/tmp/probe/mdl"
# Build a real cache once, outside tracing
for f in os.listdir(FOLDER):
    if f.endswith(".pymoca_cache"): os.remove(os.path.join(FOLDER, f))
_m = A.transfer_model(FOLDER, "T", {"cache": True})
with open(os.path.join(FOLDER, "T.pymoca_cache"), "rb") as fh:
    _DB = pickle.load(fh)
_real_open = open

class _L:
    def error(self, *a, **k): pass
    warning = info = debug = exception = error

def stale(m_src: int, m_lib: int, m_cache: int, src_changed: bool, lib_changed: bool,
          same_version: bool, opt_old: bool, opt_new: bool) -> bool:
    """
    pre: (not src_changed or m_src > m_cache) and (not lib_changed or m_lib > m_cache)
    post: _
    """
    mt = {FOLDER + "/T.mo": m_src, "/lib/L.mo": m_lib, FOLDER + "/T.pymoca_cache": m_cache}
    def walk(folder, followlinks=True):
        if folder == FOLDER: return [(FOLDER, [], ["T.mo", "T.pymoca_cache"])]
        return [("/lib", [], ["L.mo"])]
    osm = types.SimpleNamespace(walk=walk, name=os.name,
        path=types.SimpleNamespace(getmtime=lambda p: mt[p], join=os.path.join))
    db = dict(_DB)
    db["version"] = A.__version__ if same_version else "other"
    db["options"] = dict(_DB["options"]); db["options"]["detect_aliases"] = opt_old
    db["options"]["library_folders"] = ["/lib"]
    calls = []
    A.os = osm
    A.open = lambda *a, **k: io.BytesIO(b"")
    A.pickle = types.SimpleNamespace(load=lambda f: db)
    A._compile_model = lambda folder, name, opts: calls.append("compile") or "FRESH"
    A.save_model = lambda *a, **k: calls.append("save")
    A.logger = _L()
    try:
        r = A.transfer_model(FOLDER, "T", {"cache": True, "detect_aliases": opt_new, "library_folders": ["/lib"]})
    finally:
        A.os, A.open, A.pickle = os, _real_open, pickle
    must_recompile = src_changed or lib_changed or (not same_version) or (opt_old != opt_new)
    if must_recompile:
        return r == "FRESH" and calls == ["compile", "save"]
    return True   # cache use allowed (a recompile is also fine)
