from pymoca import parser, ast, tree
OPS = ["+", "-", "*", "/", "^", "<", "and", "or"]
def prs(k: int, j: int) -> bool:
    """
    pre: 0 <= k < 4 and 0 <= j < 4
    post: _
    """
    txt = "model M Real a,b,c,y; equation y = a %s b %s c; end M;" % (OPS[k], OPS[j])
    t = parser.parse(txt, bypass_cache=True)
    return t is not None
