import pickle
from pymoca import parser, ast, tree
from pymoca.backends.casadi import generator

TXT = """
model M
  parameter Real p = 2;
  Real x(start = 1), y, z, w;
equation
  der(x) = -p * x + y;
  y = z;
  z = 3;
  w = -y;
end M;
"""
_T = pickle.dumps(parser.parse(TXT, bypass_cache=True))

def balance(o1: bool, o2: bool, o3: bool, o4: bool) -> int:
    """
    post: _ == 0
    """
    t = pickle.loads(_T)
    opts = {"detect_aliases": o1, "eliminate_constant_assignments": o2, "replace_constant_values": o3, "expand_mx": o4}
    m = generator.generate(t, "M", opts)
    before = len(m.states) + len(m.alg_states) - sum(e.numel() for e in m.equations)
    m.simplify(opts)
    f = m.dae_residual_function
    after = len(m.states) + len(m.alg_states) - f.numel_out(0)
    return after - before
