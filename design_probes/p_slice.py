import pickle
import casadi as ca
from pymoca import parser, ast, tree
from pymoca.backends.casadi import generator

TXT = """
model M
  Real x[3];
  Real y;
equation
  y = sum(x[7001:7002]);
  x[1] = 1; x[2] = 2; x[3] = 3;
end M;
"""
from crosshair.core import deep_realize
_orig_getitem = ca.MX.__getitem__
def _gi(self, k):
    return _orig_getitem(self, deep_realize(k))
ca.MX.__getitem__ = _gi
from crosshair import core as _core
from crosshair.util import is_pure_python
from crosshair.core import CrossHairValue
from crosshair.tracers import NoTracing
_prev_fmt = _core._PATCH_REGISTRATIONS.get(str.format)
def _fmt(self, *a, **kw):
    with NoTracing():
        sym = any(isinstance(x, CrossHairValue) for x in a) or any(isinstance(x, CrossHairValue) for x in kw.values())
    if sym:
        return "<fmt>"
    if _prev_fmt is not None:
        return _prev_fmt(self, *a, **kw)
    return self.format(*a, **kw)
_core._PATCH_REGISTRATIONS[str.format] = _fmt
_T = pickle.dumps(parser.parse(TXT, bypass_cache=True))

class _Subst(tree.TreeListener):
    def __init__(self, m):
        super().__init__(); self.m = m
    def exitPrimary(self, t):
        if type(t.value) is int and t.value in self.m:
            t.value = self.m[t.value]


def idx(a: int, b: int) -> int:
    """
    pre: -3 <= a <= 6 and -3 <= b <= 6
    post: _ == 1
    """
    t = pickle.loads(_T)
    tree.TreeWalker().walk(_Subst({7001: a, 7002: b}), t)
    bad = (a < 1 or b > 3)
    try:
        m = generator.generate(t, "M", {})
    except Exception:
        return 1 if bad else 0
    if bad:
        return 0
    f = m.dae_residual_function
    r = f(0, [], [], [10, 20, 30, 0], [], [], [])
    exp = sum(10 * k for k in range(a, b + 1))
    return 1 if float(r[0]) == -float(exp) else 0
