import z3, time, itertools
import casadi as ca
from pymoca import parser
from pymoca.backends.casadi import generator
exec(open("/tmp/probe/p_sx.py").read().split("for name in sys.argv")[0])   # reuse sx_to_z3

TXT = """
model S
  parameter Real p = 2;
  Real x(start = 1), y, z, w, u, k;
equation
  der(x) = -p * x + y + k;
  y = z;
  w = -y;
  z = 2 * x + u;
  u = 4;
  k = w * x;
end S;
"""
def build(opts):
    m = generator.generate(parser.parse(TXT, bypass_cache=True), "S", opts)
    m.simplify(opts)
    return m
def terms(m):
    f = m.dae_residual_function
    fe = f.expand()
    zin, zout = sx_to_z3(fe)
    names = {}
    groups = [[m.time], m._symbols(m.states), m._symbols(m.der_states), m._symbols(m.alg_states), m._symbols(m.inputs), m._symbols(m.constants), m._symbols(m.parameters)]
    sub = []
    for g, zs in zip(groups, zin):
        flat = [s.name() for s in g]
        for nm, zv in zip(flat, zs):
            sub.append((zv, z3.Real(nm)))
    outs = [z3.substitute(o, *sub) for o in zout[0]] if zout else []
    vals = {}
    for v in m.parameters + m.constants:
        try: vals[v.symbol.name()] = float(v.value)
        except Exception: pass
    return outs, vals
m0 = build({})
r0, vals0 = terms(m0)
print("orig unknowns", [v.symbol.name() for v in m0.states + m0.der_states + m0.alg_states], "eqs", len(r0))
for opts in [{"detect_aliases": True}, {"eliminate_constant_assignments": True, "replace_constant_values": True},
             {"detect_aliases": True, "eliminate_constant_assignments": True, "replace_constant_values": True, "replace_parameter_values": True}]:
    m1 = build(opts)
    r1, vals1 = terms(m1)
    fixed = [z3.Real(k) == z3.RealVal(repr(v)) for k, v in {**vals0, **vals1}.items()]
    # recorded eliminations
    rec = []
    for canon, aliases in m1.alias_relation:
        for a in aliases:
            rec.append(z3.Real(a[1:]) == -z3.Real(canon) if a[0] == "-" else z3.Real(a) == z3.Real(canon))
    orig = z3.And([e == 0 for e in r0]); simp = z3.And([e == 0 for e in r1])
    remaining = {v.symbol.name() for v in m1.states + m1.der_states + m1.alg_states + m1.inputs}
    elim = [z3.Real(v.symbol.name()) for v in m0.states + m0.der_states + m0.alg_states if v.symbol.name() not in remaining]
    t = time.time()
    s = z3.Solver(); s.set("timeout", 20000); s.add(fixed); s.add(orig, z3.Not(z3.And(simp, *rec))); r_sound = s.check()
    s = z3.Solver(); s.set("timeout", 20000); s.add(fixed); s.add(simp, z3.Not(z3.Exists(elim, orig)) if elim else z3.Not(orig)); r_compl = s.check()
    print(opts, "| remaining", sorted(remaining), "| eqs", len(r1), "| soundness", r_sound, "| completeness", r_compl, f"| {time.time()-t:.2f}s")
