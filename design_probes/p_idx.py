import pickle
import casadi as ca
from pymoca import parser, ast, tree
from pymoca.backends.casadi import generator

TXT = """
model M
  Real x[3];
  Real y;
equation
  y = x[7001];
  x[1] = 1; x[2] = 2; x[3] = 3;
end M;
"""
from crosshair.core import deep_realize
_orig_getitem = ca.MX.__getitem__
def _gi(self, k):
    return _orig_getitem(self, deep_realize(k))
ca.MX.__getitem__ = _gi
from crosshair import core as _core
from crosshair.util import is_pure_python
from crosshair.core import CrossHairValue
from crosshair.tracers import NoTracing
_prev_fmt = _core._PATCH_REGISTRATIONS.get(str.format)
def _fmt(self, *a, **kw):
    with NoTracing():
        sym = any(isinstance(x, CrossHairValue) for x in a) or any(isinstance(x, CrossHairValue) for x in kw.values())
    if sym:
        return "<fmt>"
    if _prev_fmt is not None:
        return _prev_fmt(self, *a, **kw)
    return self.format(*a, **kw)
_core._PATCH_REGISTRATIONS[str.format] = _fmt
_T = pickle.dumps(parser.parse(TXT, bypass_cache=True))

class _Subst(tree.TreeListener):
    def __init__(self, m):
        super().__init__(); self.m = m
    def exitPrimary(self, t):
        if type(t.value) is int and t.value in self.m:
            t.value = self.m[t.value]

def idx(i: int) -> int:
    """
    post: _ == 1
    """
    t = pickle.loads(_T)
    tree.TreeWalker().walk(_Subst({7001: i}), t)
    try:
        m = generator.generate(t, "M", {})
    except ValueError:
        return 1 if (i < 1 or i > 3) else 0
    if i < 1 or i > 3:
        return 0
    f = m.dae_residual_function
    # evaluate residual at x = (10,20,30), y = 0 -> -(x[i])
    r = f(0, [], [], [10, 20, 30, 0], [], [], [])
    return 1 if float(r[0]) == -10.0 * i else 0
