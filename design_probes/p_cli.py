import sys, pathlib, logging
sys.path.insert(0, "/repo")
import tools.compiler as C

import time as _time
class _T:
    @staticmethod
    def perf_counter():
        return 0.0
C.time = _T
class _L:
    level = 30
    def setLevel(self, l): self.level = l
    def error(self, *a, **k): pass
    def warning(self, *a, **k): pass
    def info(self, *a, **k): pass
    def debug(self, *a, **k): pass
    def exception(self, *a, **k): pass
C.log = _L()
class FS:
    cur = None

_o_exists, _o_isdir, _o_isfile = pathlib.Path.exists, pathlib.Path.is_dir, pathlib.Path.is_file
def _exists(self, **kw):
    fs = FS.cur
    return fs["exists"].get(str(self), False) if fs else _o_exists(self)
def _isdir(self):
    fs = FS.cur
    return fs["isdir"].get(str(self), False) if fs else _o_isdir(self)
def _isfile(self):
    fs = FS.cur
    return fs["isfile"].get(str(self), False) if fs else _o_isfile(self)
pathlib.Path.exists, pathlib.Path.is_dir, pathlib.Path.is_file = _exists, _isdir, _isfile

def cli(e1: bool, e2: bool, p1: bool, p2: bool, f1: bool, f2: bool, out_ok: bool, two_models: bool) -> int:
    """
    post: _ == 0
    """
    FS.cur = {"exists": {"a.mo": e1, "b.mo": e2, "out": out_ok},
              "isfile": {"a.mo": e1, "b.mo": e2},
              "isdir": {"out": out_ok}}
    parse_ok = {"a.mo": p1, "b.mo": p2}
    flat_ok = {"A": f1, "B": f2}
    def parse_file(path):
        return C.pymoca.ast.Tree(name="t") if parse_ok[str(path)] else None
    def flatten_class(lib, cls):
        if not flat_ok[cls]:
            raise Exception("flatten failed")
        return None
    C.parse_file, C.flatten_class = parse_file, flatten_class
    argv = ["-o", "out", "-m", "A"] + (["-m", "B"] if two_models else []) + ["a.mo", "b.mo"]
    try:
        got = C.main(argv)
    finally:
        FS.cur = None
    usage = (0 if out_ok else 1) + (0 if e1 else 1) + (0 if e2 else 1)
    if usage:
        exp = usage
    else:
        perr = (0 if p1 else 1) + (0 if p2 else 1)
        if perr:
            exp = perr
        else:
            exp = (0 if f1 else 1) + ((0 if f2 else 1) if two_models else 0)
    return got - exp
