import pickle, copy
from pymoca import parser, ast, tree

TXT = """
model A
  parameter Real p = 1;
  Real x(start = 2);
equation
  der(x) = p;
end A;
model B
  A a(p = 3, x(start = 4));
  A b(x(start = 7));
end B;
model C
  B b(a.p = 5);
end C;
"""
_T = pickle.dumps(parser.parse(TXT, bypass_cache=True))

class _Subst(tree.TreeListener):
    def __init__(self, m):
        super().__init__(); self.m = m
    def exitPrimary(self, t):
        if type(t.value) is int and t.value in self.m:
            t.value = self.m[t.value]

def flat_C(v1: int, v3: int, v5: int, v2: int, v4: int, v7: int) -> bool:
    """
    pre: True
    post: _
    """
    t = pickle.loads(_T)
    tree.TreeWalker().walk(_Subst({1: v1, 3: v3, 5: v5, 2: v2, 4: v4, 7: v7}), t)
    flat = tree.flatten(t, ast.ComponentRef(name="C"))
    c = flat.classes["C"]
    ok = c.symbols["b.a.p"].value.value == v5
    ok = ok and c.symbols["b.a.x"].start.value == v4
    ok = ok and c.symbols["b.b.x"].start.value == v7
    ok = ok and c.symbols["b.b.p"].value.value == v1
    return ok
