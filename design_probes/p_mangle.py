from pymoca import ast
from pymoca.backends.sympy.generator import SympyGenerator
import re
_ID = re.compile(r"[a-z_]+(\.[a-z_]+)*\Z")
def mangle_injective(n1: str, n2: str) -> bool:
    """
    pre: 1 <= len(n1) <= 4 and 1 <= len(n2) <= 4 and n1 != n2
    pre: all(c in "ab._" for c in n1) and all(c in "ab._" for c in n2)
    pre: n1[0] in "ab" and n2[0] in "ab" and n1[-1] != "." and n2[-1] != "." and ".." not in n1 and ".." not in n2
    post: _
    """
    g = SympyGenerator()
    s1, s2 = ast.Symbol(name=n1), ast.Symbol(name=n2)
    g.exitSymbol(s1); g.exitSymbol(s2)
    return g.src[s1] != g.src[s2]
