# Hand-translated prototype of AliasRelation.add over a universe of N names, to test
# (1) that a content-based invariant is inductive, (2) z3 cost.  Not framework code.
import z3, time, sys
N = int(sys.argv[1]) if len(sys.argv) > 1 else 3
U = 2 * N                      # signed ids: 2*i + neg
BV = lambda v: z3.BitVecVal(v, U)
def bit(s, k): return z3.Extract(k, k, s) == 1          # k concrete
def neg_set(s):                                            # swap adjacent bits
    return z3.Concat(*[z3.Extract(k ^ 1, k ^ 1, s) for k in reversed(range(U))])
def single(k): return BV(1 << k)
def mux(idx, items):                                       # items indexed by concrete int, idx z3 Int
    r = items[-1]
    for i in reversed(range(len(items) - 1)):
        r = z3.If(idx == i, items[i], r)
    return r
def member(x, s):                                          # x z3 Int id
    return mux(x, [bit(s, k) for k in range(U)])
def single_sym(x): return mux(x, [single(k) for k in range(U)])
def popcnt_ge2(s): return (s & (s - 1)) != 0

class St:
    def __init__(self, tag, H):
        self.H = H
        self.al_p = [z3.Bool(f"{tag}_alp{k}") for k in range(U)]
        self.al_r = [z3.Int(f"{tag}_alr{k}") for k in range(U)]
        self.heap = [z3.BitVec(f"{tag}_h{r}", U) for r in range(H)]
        self.mp_p = [z3.Bool(f"{tag}_mpp{k}") for k in range(U)]
        self.mp_c = [z3.Int(f"{tag}_mpc{k}") for k in range(U)]
        self.mp_s = [z3.Int(f"{tag}_mps{k}") for k in range(U)]
        self.canon = z3.BitVec(f"{tag}_canon", U)
    def dom(self):
        c = []
        for k in range(U):
            c += [self.al_r[k] >= 0, self.al_r[k] < self.H, self.mp_c[k] >= 0, self.mp_c[k] < U,
                  z3.Or(self.mp_s[k] == 1, self.mp_s[k] == -1)]
        return z3.And(c)
    def deref(self, r): return mux(r, self.heap)
    def S(self, k):            # k concrete
        return z3.If(self.al_p[k], self.deref(self.al_r[k]), single(k))
    def S_sym(self, x): return mux(x, [self.S(k) for k in range(U)])

def Inv(st, as_list=False):
    c = []
    for k in range(U):
        Sk = st.S(k)
        c.append(st.al_p[k] == st.mp_p[k])
        c.append(st.al_p[k] == st.al_p[k ^ 1])
        pk = st.al_p[k]
        c.append(z3.Implies(pk, bit(Sk, k)))
        c.append(z3.Implies(pk, popcnt_ge2(Sk)))
        c.append(z3.Implies(pk, st.S(k ^ 1) == neg_set(Sk)))
        c.append(z3.Implies(pk, (Sk & neg_set(Sk)) == 0))
        for j in range(U):
            c.append(z3.Implies(z3.And(pk, bit(Sk, j)), z3.And(st.al_p[j], st.S(j) == Sk)))
            c.append(z3.Implies(z3.And(pk, bit(Sk, j)), z3.And(st.mp_c[j] == st.mp_c[k], st.mp_s[j] == st.mp_s[k])))
        # canonical entry
        cc, ss = st.mp_c[k], st.mp_s[k]
        c.append(z3.Implies(pk, z3.And(cc % 2 == 0, member(cc, st.canon),
                                        z3.If(ss == 1, member(cc, Sk), member(cc + 1, Sk)),
                                        st.mp_c[k ^ 1] == cc, st.mp_s[k ^ 1] == -ss)))
    for cidx in range(U):
        ex = z3.Or([z3.And(st.mp_p[k], st.mp_c[k] == cidx) for k in range(U)])
        c.append(bit(st.canon, cidx) == ex)
    return c if as_list else z3.And(c)

def run_add(st, a, b):
    """symbolically execute add(a,b) from state st; returns (new state as dict of lists, err flag)"""
    H = st.H
    heap = list(st.heap) + [None, None, None, None]     # up to 4 fresh allocations
    nxt = H
    def aliases_of(x, al_p, al_r, heap, nxt):
        # returns ref (z3 Int), heap', nxt'  : existing ref or fresh {x}
        heap = list(heap); heap[nxt] = single_sym(x)
        present = mux(x, al_p)
        ref = z3.If(present, mux(x, al_r), z3.IntVal(nxt))
        return ref, heap, nxt + 1
    def deref(ref, heap):
        live = [h if h is not None else BV(0) for h in heap]
        return mux(ref, live)
    def store(ref, val, heap, guard=True):
        return [None if h is None and False else (z3.If(z3.And(guard, ref == i), val, h if h is not None else BV(0))) for i, h in enumerate(heap)]
    al_p, al_r = list(st.al_p), list(st.al_r)
    mp_p, mp_c, mp_s = list(st.mp_p), list(st.mp_c), list(st.mp_s)
    canon = st.canon
    tog = lambda x: z3.If(x % 2 == 0, x + 1, x - 1)
    r_a, heap, nxt = aliases_of(a, al_p, al_r, heap, nxt)
    early = member(b, deref(r_a, heap))
    r_ia, heap, nxt = aliases_of(tog(a), al_p, al_r, heap, nxt)
    r_b, heap, nxt = aliases_of(b, al_p, al_r, heap, nxt)
    heap = store(r_a, deref(r_a, heap) | deref(r_b, heap), heap)          # aliases |= aliases(b)
    r_ib, heap, nxt = aliases_of(tog(b), al_p, al_r, heap, nxt)
    heap = store(r_ia, deref(r_ia, heap) | deref(r_ib, heap), heap)
    A = deref(r_a, heap)          # set iterated (not mutated in loop)
    for v in range(U):
        g = bit(A, v)
        al_p[v ^ 1] = z3.If(g, True, al_p[v ^ 1]); al_r[v ^ 1] = z3.If(g, r_ia, al_r[v ^ 1])
        al_p[v] = z3.If(g, True, al_p[v]);         al_r[v] = z3.If(g, r_a, al_r[v])
    def canonical_signed(x):
        pres = mux(x, mp_p)
        return (z3.If(pres, mux(x, mp_c), z3.If(x % 2 == 1, x - 1, x)),
                z3.If(pres, mux(x, mp_s), z3.If(x % 2 == 1, z3.IntVal(-1), z3.IntVal(1))))
    ca, sa = canonical_signed(a)
    cb, _ = canonical_signed(b)
    canon = canon | single_sym(ca)
    canon = canon & ~single_sym(cb)
    for v in range(U):
        g = bit(A, v)
        mp_p[v] = z3.If(g, True, mp_p[v]); mp_c[v] = z3.If(g, ca, mp_c[v]); mp_s[v] = z3.If(g, sa, mp_s[v])
        mp_p[v ^ 1] = z3.If(g, True, mp_p[v ^ 1]); mp_c[v ^ 1] = z3.If(g, ca, mp_c[v ^ 1]); mp_s[v ^ 1] = z3.If(g, -sa, mp_s[v ^ 1])
    new = St.__new__(St); new.H = len(heap)
    live = [h if h is not None else BV(0) for h in heap]
    # early return => unchanged state
    def sel(n, o): return z3.If(early, o, n)
    new.al_p = [sel(al_p[k], st.al_p[k]) for k in range(U)]
    new.al_r = [sel(al_r[k], st.al_r[k]) for k in range(U)]
    new.heap = [sel(live[r], (st.heap[r] if r < H else BV(0))) for r in range(len(live))]
    new.mp_p = [sel(mp_p[k], st.mp_p[k]) for k in range(U)]
    new.mp_c = [sel(mp_c[k], st.mp_c[k]) for k in range(U)]
    new.mp_s = [sel(mp_s[k], st.mp_s[k]) for k in range(U)]
    new.canon = sel(canon, st.canon)
    return new

pre = St("s", U)
a, b = z3.Int("a"), z3.Int("b")
post = run_add(pre, a, b)
prem = z3.And(a >= 0, a < U, b >= 0, b < U, pre.dom(), Inv(pre),
              z3.Not(member(z3.If(b % 2 == 0, b + 1, b - 1), pre.S_sym(a))))     # -b not in class(a)
# spec on relation
def R(st, x, y): return bit(st.S(x), y)
Sa, Sb = pre.S_sym(a), pre.S_sym(b)
Sna, Snb = neg_set(Sa), neg_set(Sb)
spec = []
for x in range(U):
    for y in range(U):
        want = z3.Or(R(pre, x, y), z3.And(bit(Sa, x), bit(Sb, y)), z3.And(bit(Sb, x), bit(Sa, y)),
                     z3.And(bit(Sna, x), bit(Snb, y)), z3.And(bit(Snb, x), bit(Sna, y)))
        spec.append(R(post, x, y) == want)

import multiprocessing as mp, os
goals = [("inv", g) for g in Inv(post, as_list=True)] + [("rel", g) for g in spec]
K = int(os.environ.get("CHUNK", "8"))
chunks = [goals[i:i+K] for i in range(0, len(goals), K)]
def work(i):
    s = z3.Solver(); s.set("timeout", 300000)
    s.add(prem, z3.Not(z3.And([g for _, g in chunks[i]])))
    t = time.time(); r = s.check()
    return i, str(r), time.time() - t
if __name__ == "__main__":
    t0 = time.time()
    with mp.Pool(16) as pool:
        res = pool.map(work, range(len(chunks)))
    from collections import Counter
    print("N", N, "goals", len(goals), "chunks", len(chunks), Counter(r for _, r, _ in res), "max chunk s", round(max(t for *_, t in res), 1), "wall", round(time.time() - t0, 1))
