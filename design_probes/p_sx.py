import casadi as ca, z3, sys, time
from pymoca import parser
from pymoca.backends.casadi import generator

OPN = {getattr(ca, k): k for k in dir(ca) if k.startswith("OP_")}

def sx_to_z3(f):
    """f: expanded SX Function. returns (inputs z3 vars list-of-lists, outputs list of z3 terms)"""
    ins = f.sx_in()
    outs = f.call(ins)
    env = {}
    zin = []
    for a in ins:
        col = []
        for k in range(a.numel()):
            e = a.nz[k]
            v = z3.Real(e.name())
            env[e.__hash__()] = v
            col.append(v)
        zin.append(col)
    cache = {}
    def tr(e):
        h = e.__hash__()
        if h in cache: return cache[h]
        if e.is_symbolic():
            r = env[h]
        elif e.is_constant():
            r = z3.RealVal(repr(float(e)))
        else:
            op = e.op(); d = [tr(e.dep(i)) for i in range(e.n_dep())]
            n = OPN[op]
            if n == "OP_ADD": r = d[0] + d[1]
            elif n == "OP_SUB": r = d[0] - d[1]
            elif n == "OP_MUL": r = d[0] * d[1]
            elif n == "OP_DIV": r = d[0] / d[1]
            elif n == "OP_NEG": r = -d[0]
            elif n == "OP_SQ": r = d[0] * d[0]
            elif n == "OP_TWICE": r = 2 * d[0]
            elif n == "OP_LT": r = z3.If(d[0] < d[1], z3.RealVal(1), z3.RealVal(0))
            elif n == "OP_LE": r = z3.If(d[0] <= d[1], z3.RealVal(1), z3.RealVal(0))
            elif n == "OP_EQ": r = z3.If(d[0] == d[1], z3.RealVal(1), z3.RealVal(0))
            elif n == "OP_NE": r = z3.If(d[0] != d[1], z3.RealVal(1), z3.RealVal(0))
            elif n == "OP_NOT": r = z3.If(d[0] == 0, z3.RealVal(1), z3.RealVal(0))
            elif n == "OP_AND": r = z3.If(z3.And(d[0] != 0, d[1] != 0), z3.RealVal(1), z3.RealVal(0))
            elif n == "OP_OR": r = z3.If(z3.Or(d[0] != 0, d[1] != 0), z3.RealVal(1), z3.RealVal(0))
            elif n == "OP_IF_ELSE_ZERO": r = z3.If(d[0] != 0, d[1], z3.RealVal(0))
            elif n == "OP_FMIN": r = z3.If(d[0] <= d[1], d[0], d[1])
            elif n == "OP_FMAX": r = z3.If(d[0] >= d[1], d[0], d[1])
            elif n == "OP_FABS": r = z3.If(d[0] >= 0, d[0], -d[0])
            else:
                fn = z3.Function(n, *([z3.RealSort()] * (len(d) + 1)))
                r = fn(*d)
        cache[h] = r
        return r
    zouts = []
    for o in outs:
        zouts.append([tr(o.nz[k]) for k in range(o.nnz())])
    return zin, zouts

for name in sys.argv[1:]:
    t = parser.parse(open(f"/repo/test/models/{name}.mo").read(), bypass_cache=True)
    try:
        m = generator.generate(t, name)
    except Exception as e:
        print(name, "GENERATE EXC", type(e).__name__, e); continue
    f = m.dae_residual_function
    print(name, f)
    t0 = time.time()
    fe = f.expand()
    zin, zout = sx_to_z3(fe)
    for o in zout[0]: print("   ", z3.simplify(o))
    print("   t=", time.time() - t0)
