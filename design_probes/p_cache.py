import re, pickle, types
from pathlib import Path
import pymoca
from pymoca import parser as P

MODELS_COLS = [(0, "txt_hash", "TEXT", 0, None, 1), (1, "pymoca_version", "TEXT", 0, None, 2),
               (2, "data", "BLOB", 0, None, 0), (3, "last_hit", "TIMESTAMP INTEGER", 0, None, 0)]
META_COLS = [(0, "key", "TEXT", 0, None, 1), (1, "value", "TEXT", 0, None, 0)]

class DB:
    def __init__(self):
        self.corrupt = False
        self.tables = {}     # name -> {"cols": [...], "rows": [dict]}
        self.removed = 0

class Cur:
    def __init__(self, db): self.db = db; self.res = []
    def execute(self, sql, params=()):
        db = self.db
        s = " ".join(sql.split()).rstrip(";")
        if db.corrupt:
            raise P.sqlite3.DatabaseError("file is not a database")
        if s.startswith("BEGIN"): return
        if s == "PRAGMA integrity_check": self.res = [("ok",)]; return
        m = re.fullmatch(r"SELECT name FROM sqlite_master WHERE type='table' AND name='(\w+)'", s)
        if m: self.res = [(m.group(1),)] if m.group(1) in db.tables else []; return
        m = re.fullmatch(r"PRAGMA table_info\('(\w+)'\)", s)
        if m: self.res = list(db.tables[m.group(1)]["cols"]); return
        m = re.fullmatch(r"DROP TABLE IF EXISTS (\w+)", s)
        if m: db.tables.pop(m.group(1), None); return
        m = re.match(r"CREATE TABLE (\w+) \(", s)
        if m:
            db.tables[m.group(1)] = {"cols": list(MODELS_COLS if m.group(1) == "models" else META_COLS), "rows": []}; return
        m = re.fullmatch(r"INSERT OR IGNORE INTO metadata \(key, value\) VALUES \(\?, \?\)", s)
        if m:
            rows = db.tables["metadata"]["rows"]
            if not any(r["key"] == params[0] for r in rows): rows.append({"key": params[0], "value": params[1]})
            return
        m = re.fullmatch(r"DELETE FROM models WHERE last_hit < \?", s)
        if m:
            t = db.tables["models"]; t["rows"] = [r for r in t["rows"] if not (r["last_hit"] < params[0])]; return
        m = re.fullmatch(r"UPDATE metadata SET value = max\(value \+ 1, \?\) WHERE key = \?", s)
        if m:
            for r in db.tables["metadata"]["rows"]:
                if r["key"] == params[1]: r["value"] = max(r["value"] + 1, params[0])
            return
        m = re.fullmatch(r"SELECT last_hit, data FROM models WHERE txt_hash=\? AND pymoca_version=\?", s)
        if m:
            self.res = [(r["last_hit"], r["data"]) for r in db.tables["models"]["rows"]
                        if r["txt_hash"] == params[0] and r["pymoca_version"] == params[1]]; return
        m = re.fullmatch(r"UPDATE models SET last_hit = max\(last_hit \+ 1, \?\) WHERE txt_hash = \? AND pymoca_version = \?", s)
        if m:
            for r in db.tables["models"]["rows"]:
                if r["txt_hash"] == params[1] and r["pymoca_version"] == params[2]:
                    r["last_hit"] = max(r["last_hit"] + 1, params[0])
            return
        m = re.fullmatch(r"INSERT OR REPLACE INTO models \(txt_hash, pymoca_version, data, last_hit\) VALUES \(\?, \?, \?, \?\)", s)
        if m:
            t = db.tables["models"]
            t["rows"] = [r for r in t["rows"] if not (r["txt_hash"] == params[0] and r["pymoca_version"] == params[1])]
            t["rows"].append(dict(txt_hash=params[0], pymoca_version=params[1], data=params[2], last_hit=params[3])); return
        raise AssertionError("ENCODING GAP: " + s)
    def fetchone(self): return self.res[0] if self.res else None
    def fetchall(self): return list(self.res)

class Conn:
    def __init__(self, db): self.db = db
    def cursor(self): return Cur(self.db)
    def commit(self): pass
    def close(self): pass

TEXTS = ["t0", "t1", "bad"]
VERS = ["1.0", "2.0"]

class UnpickleBoom(Exception): pass

def step(ti: int, cur_v: int, have_row: bool, row_t: int, row_v: int, row_kind: int, row_hit: int,
         now: int, days: int, upd: bool, initialized: bool, layout_ok: bool, corrupt: bool) -> bool:
    """
    pre: 0 <= ti < 3 and 0 <= cur_v < 2 and 0 <= row_t < 2 and 0 <= row_v < 2 and 0 <= row_kind < 3
    pre: 0 <= row_hit <= now and 0 <= days <= 60
    post: _
    """
    db = DB()
    db.corrupt = corrupt and not initialized
    if layout_ok or initialized:
        db.tables["models"] = {"cols": list(MODELS_COLS), "rows": []}
        db.tables["metadata"] = {"cols": list(META_COLS), "rows": [{"key": "created_at", "value": 0}, {"key": "last_prune", "value": 0}]}
    else:
        db.tables["models"] = {"cols": [(0, "wrong", "TEXT", 0, None, 1)], "rows": []}
    def ref_parse(t, v): return None if t == "bad" else ("TREE", t, v)
    if have_row and "rows" in db.tables["models"] and (layout_ok or initialized):
        good = ("OK", ref_parse(TEXTS[row_t], VERS[row_v]))
        data = [good, ("GARBAGE",), ("BOOM",)][row_kind]
        db.tables["models"]["rows"].append(dict(txt_hash="H" + TEXTS[row_t], pymoca_version=VERS[row_v], data=data, last_hit=row_hit))
    # environment stubs
    def connect(path, isolation_level=None):
        return Conn(db)
    sq = types.SimpleNamespace(connect=connect, DatabaseError=P.sqlite3.DatabaseError)
    def loads(d):
        if d[0] == "OK": return d[1]
        if d[0] == "GARBAGE": raise pickle.UnpicklingError("x")
        raise pickle.UnpicklingError("y")
    pk = types.SimpleNamespace(loads=loads, dumps=lambda t: ("OK", t), UnpicklingError=pickle.UnpicklingError)
    def os_remove(p):
        db.corrupt = False; db.tables.clear(); db.removed += 1
    osm = types.SimpleNamespace(remove=os_remove, getenv=P.os.getenv)
    P.sqlite3, P.pickle, P.os = sq, pk, osm
    P._parse = lambda txt: ref_parse(txt, VERS[cur_v])
    P._calculate_txt_hash = lambda txt: "H" + txt
    P._microseconds_since_epoch = lambda td=None: now + (0 if td is None else td.total_seconds() * 1000000)
    P.pymoca = types.SimpleNamespace(__version__=VERS[cur_v])
    class _L:
        def error(self, *a, **k): pass
        warning = info = debug = exception = error
    P.logger = _L()
    class TD:
        def __init__(self, days=0): self.days = days
        def total_seconds(self): return self.days * 86400
    P.timedelta = TD
    class FakePath:
        def __init__(self, s="d"): self.s = s
        def mkdir(self, **k): pass
        def __truediv__(self, o): return FakePath(self.s + "/" + o)
        def __hash__(self): return hash(self.s)
        def __eq__(self, o): return isinstance(o, FakePath) and o.s == self.s
    folder = FakePath()
    if hasattr(P.parse, "initialized_dbs"): del P.parse.initialized_dbs
    if initialized: P.parse.initialized_dbs = {folder / P.DEFAULT_MODEL_CACHE_DB}
    got = P.parse(TEXTS[ti], model_cache_folder=folder, cache_expiration_days=days, always_update_last_hit=upd)
    ok = got == ref_parse(TEXTS[ti], VERS[cur_v])
    for r in db.tables["models"]["rows"]:
        if r["data"][0] == "OK":
            ok = ok and r["data"][1] is not None
    return ok
