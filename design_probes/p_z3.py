import z3, time
a,b,c,p = z3.Reals("a b c p")
powf = z3.Function("pow", z3.RealSort(), z3.RealSort(), z3.RealSort())
sin = z3.Function("sin", z3.RealSort(), z3.RealSort())
def chk(name, l, r, timeout=10000):
    s = z3.Solver(); s.set("timeout", timeout); s.add(l != r)
    t=time.time(); res = s.check(); 
    print(name, res, round(time.time()-t,3), s.model() if res==z3.sat else "")
chk("assoc-div ok", (a/b)/c, a/(b*c))
chk("assoc-div bad", (a/b)/c, a/(b/c))
chk("neg-mul", (-a)*b, -(a*b))
chk("sub assoc bad", (a-b)-c, a-(b-c))
chk("prec bad", (a+b)*c, a+b*c)
chk("pow uf", -powf(a,b), powf(-a,b))
chk("sin cong", sin(a*b+c) - p*a/b, sin(c+b*a) - (a*p)/b)
chk("ite", z3.If(a>0, a*b, 0)+z3.If(a>0, 0, c), z3.If(a<=0, c, b*a))
# quantified affine: simplified system solutions == projection of original
x,y,z,w = z3.Reals("x y z w")
orig = z3.And(y == z, z == 3, w == -y, x == 2*y + w)
simp = z3.And(x == 3)  # after eliminating y,z,w (aliases & constants)
s = z3.Solver(); s.set("timeout", 10000)
s.add(z3.Not(simp == z3.Exists([y,z,w], orig)))
t=time.time(); print("proj-equiv", s.check(), round(time.time()-t,3))
# nonlinear triangular with witness
s = z3.Solver(); s.add(z3.Not(z3.Implies(x*x*x + x == 2, z3.Exists([y], z3.And(y == x*x, y*x + x == 2)))))
t=time.time(); print("nl-proj", s.check(), round(time.time()-t,3))
