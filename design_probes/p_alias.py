from typing import List, Tuple
from pymoca.backends.casadi.alias_relation import AliasRelation

NAMES = ["a", "b", "c"]

def _sname(i: int) -> str:
    n = NAMES[i % 3]
    return ("-" + n) if (i // 3) % 2 else n

def check_add2(x: int, y: int, u: int, v: int) -> bool:
    """
    pre: 0 <= x < 6 and 0 <= y < 6 and 0 <= u < 6 and 0 <= v < 6
    post: _
    """
    r = AliasRelation()
    a, b, c, d = _sname(x), _sname(y), _sname(u), _sname(v)
    # avoid relating var to own negation
    if a.lstrip("-") == b.lstrip("-"):
        return True
    r.add(a, b)
    ca_, sa = r.canonical_signed(a)
    cb_, sb = r.canonical_signed(b)
    return ca_ == cb_ and sa == sb

def check_sym(a: str, b: str) -> bool:
    """
    pre: 1 <= len(a) <= 2 and 1 <= len(b) <= 2
    pre: a.lstrip("-") != b.lstrip("-") and a.lstrip("-") != "" and b.lstrip("-") != ""
    post: _
    """
    r = AliasRelation()
    r.add(a, b)
    ca_, sa = r.canonical_signed(a)
    cb_, sb = r.canonical_signed(b)
    return ca_ == cb_ and sa == sb
