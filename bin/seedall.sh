#!/bin/bash
# Re-confirm every stored seeded change at the current /repo HEAD and run its property's check against it.
# usage: bin/seedall.sh [PAR]   (PAR properties in parallel, default 3)
cd "$(dirname "$0")/.."
PAR=${1:-3}
mkdir -p /tmp/seedlogs
ls seeded | xargs -P "$PAR" -I{} sh -c 'python3 bin/seedprop.py {} /verif/seeded > /tmp/seedlogs/re_{}.log 2>&1'
grep -h " vs \|NOT CONFIRMED" /tmp/seedlogs/re_*.log | cut -c1-160
