#!/bin/bash
# Build (idempotently) the overlay venv /verif/.venv: /venv's packages (pymoca editable -> /repo/src,
# casadi, sympy, lxml, ...) + crosshair-tool, z3-solver, cvc5, pysmt from the offline wheelhouse.
set -e
V=${VERIF_VENV:-/verif/.venv}
exec 9>"/tmp/.verif_env.lock"
flock 9
if [ -x "$V/bin/python" ] && "$V/bin/python" -c "import crosshair, z3, casadi, pymoca, jsonschema" >/dev/null 2>&1; then
  exit 0
fi
rm -rf "$V"
/venv/bin/python -m venv "$V"
SP=$("$V/bin/python" -c "import sysconfig; print(sysconfig.get_paths()['purelib'])")
echo "import site; site.addsitedir('/venv/lib/python3.12/site-packages')" > "$SP/_venv_overlay.pth"
PIP_NO_INDEX=1 "$V/bin/pip" install -q --no-index --find-links /opt/veriftools/wheels crosshair-tool z3-solver cvc5 pysmt jsonschema >/dev/null
"$V/bin/python" -c "import crosshair, z3, casadi, pymoca, jsonschema; print('verif env ok', z3.get_version_string())"
