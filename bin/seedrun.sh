#!/bin/bash
# usage: bin/seedrun.sh <PROP> <patch.diff> [tier]   - run a check against a scratch worktree of /repo with a patch applied.
# Never touches /repo's working tree or /verif/evidence; prints the check's summary lines and its exit code.
set -u
PROP="$1"; PATCH="$(readlink -f "$2")"; TIER="${3:-quick}"
HERE="$(cd "$(dirname "$0")/.." && pwd)"
WT=$(mktemp -d /tmp/seedwt.XXXXXX); OUT=$(mktemp -d /tmp/seedout.XXXXXX)
rmdir "$WT"
git -C /repo worktree add -q --detach "$WT" HEAD || exit 9
if ! git -C "$WT" apply "$PATCH"; then echo "PATCH-DOES-NOT-APPLY"; git -C /repo worktree remove --force "$WT"; rm -rf "$OUT"; exit 8; fi
VERIF_REPO="$WT" VERIF_OUT="$OUT" "$HERE/bin/check" "$PROP" --tier "$TIER" > "$OUT/log" 2>&1
rc=$?
grep -E "^VIOLATION|^KNOWN-FINDING|^\[$PROP\]|^HARNESS-ERROR|^  case=" "$OUT/log" | cut -c1-300 | head -${SEED_LINES:-8}
echo "exit=$rc"
git -C /repo worktree remove --force "$WT"; rm -rf "$OUT"
exit $rc
