#!/usr/bin/env python3
"""usage: bin/seedprop.py <PROP> [<src_root>] [--checks C11,C12] [--tier quick] [--skip-confirm]

For every seeded change k under <src_root>/<PROP>/<k>/ (default /tmp/wt_out): confirm it independently
(bin/seedconfirm.py -> /verif/seeded/<PROP>/<k>/), then run the property's check (and any further
checks named with --checks) against a scratch worktree with the patch applied (bin/seedrun.sh) and
record the outcome in meta.json under detected_by."""
import json
import os
import subprocess
import sys

VERIF = os.path.dirname(os.path.dirname(os.path.abspath(__file__)))


def main():
    args = [a for a in sys.argv[1:] if not a.startswith("--")]
    prop = args[0]
    root = args[1] if len(args) > 1 else "/tmp/wt_out"
    checks = [prop]
    tier = "quick"
    skip = "--skip-confirm" in sys.argv
    for i, a in enumerate(sys.argv):
        if a == "--checks":
            checks = sys.argv[i + 1].split(",")
        if a == "--tier":
            tier = sys.argv[i + 1]
    ks = sorted(d for d in os.listdir(os.path.join(root, prop)) if os.path.exists(os.path.join(root, prop, d, "patch.diff")))
    for k in ks:
        src = os.path.join(root, prop, k)
        dst = os.path.join(VERIF, "seeded", prop, k)
        if not skip or not os.path.exists(os.path.join(dst, "meta.json")):
            p = subprocess.run([sys.executable, os.path.join(VERIF, "bin", "seedconfirm.py"), prop, k, src], capture_output=True, text=True)
            if p.returncode != 0:
                print(f"{prop}/{k}: NOT CONFIRMED\n{p.stdout[-1200:]}", flush=True)
                continue
        mp = os.path.join(dst, "meta.json")
        meta = json.load(open(mp))
        for chk in checks:
            p = subprocess.run([os.path.join(VERIF, "bin", "seedrun.sh"), chk, os.path.join(dst, "patch.diff"), tier], capture_output=True, text=True)
            lines = [l for l in p.stdout.splitlines() if not l.startswith("WARNING")]
            rc = p.returncode
            verdict = {0: "missed (exit 0)", 1: "caught (VIOLATION)", 3: "harness error / encoding gap (exit 3)"}.get(rc, f"exit {rc}")
            first = next((l for l in lines if l.startswith("  case=")), "")
            meta.setdefault("detected_by", {})[f"{chk}:{tier}"] = {"verdict": verdict, "first_case": first.strip()[:300]}
            print(f"{prop}/{k} vs {chk}:{tier}: {verdict} {first.strip()[:160]}", flush=True)
        json.dump(meta, open(mp, "w"), indent=1)


if __name__ == "__main__":
    main()
