#!/usr/bin/env python3
"""Regenerates /verif/MANIFEST.json from the table below (kept in one place so it stays valid)."""
import json, os
HERE = os.path.dirname(os.path.dirname(os.path.abspath(__file__)))

CHECKS = {
 "C03": dict(engine="B", category="translation_validation", technique="SMT equivalence (z3) between the meaning of the AST produced by the real parser and the meaning of the expression tree that a Modelica-specification printer turned into the text; texts enumerated, variable values symbolic; literals compared exactly",
   text="Every expression tree of depth <=2 over all operator classes (thorough: depth 3 on representatives) is printed with minimal, full and redundant parentheses by a printer written from the Modelica grammar; the real parser parses the text; z3 proves the parsed tree and the source tree evaluate equally for all variable values. Number/Boolean/string literals and range expressions are compared with their exact values.",
   note="Text -> parse tree is executed concretely (ANTLR cannot be run symbolically), so the claim is bounded by the enumerated texts; pow/sin uninterpreted; 0/1 Booleans with and=product, or=sum.", ref="4/C03"),
 "C05": dict(engine="A", category="model_checking", technique="CrossHair symbolic execution (z3) of repeated real tree.flatten / casadi generate calls on ONE tree with the request sequence and all library literals symbolic; every step compared (Node.to_json, symbolic leaves decided by the solver) with the same request on a fresh tree; 'Confirmed over all paths' per shard",
   text="5 generated libraries (component of a class flattened earlier, extends with modification, type alias inside a package, connectors, redeclare, functions): for ALL request sequences of length 2 (thorough 3, each step flatten or CasADi generate) over the library's classes and all values of its 4 literals, every step equals the same request on an independently unpickled tree, or both raise. Supplementary concrete stages: ordered class pairs of the repository's test models; the real compiler CLI with every ordered pair of -m models (exit status = sum of the single-model statuses).",
   note="Program structure is a bounded family; the supplementary stages are enumeration, stated as such in the evidence.", ref="4/C05"),
 "C09": dict(engine="B", category="translation_validation", technique="SMT (z3, linear real arithmetic): two unsat queries per program prove And(flat equations) <=> And(connection-set reference equations); connect sequences enumerated exhaustively",
   text="For every ordered sequence of connect clauses within the bound, over inside and outside connectors with potential and flow variables, z3 proves that the equations produced by the real flatten/expand_connectors have exactly the solutions of Modelica connection-set semantics (union-find oracle), for all real values of all variables.",
   note="Oracle vk/ref/connect_ref.py; components have no own equations; bounded number of connectors/clauses (stated in evidence).", ref="4/C09"),
 "C10": dict(engine="A", category="model_checking", technique="CrossHair symbolic execution (z3) of the real flatten -> annotate_states -> Generator.exitClass with the subject variable's prefix flags symbolic; 'Confirmed over all paths' per shard; every prefix spelling additionally pushed through the real parser as text",
   text="For every type {Real,Integer,Boolean,String} x placement {top-level, nested} x der() usage {none, direct, inside an expression, initial equation, from the enclosing model} x declaration order (one shard each) and ALL combinations of flow / variability / causality prefixes (symbolic): the variable appears in exactly one category, the one given by constant > parameter > top-level input > differentiated > algebraic (String constants/parameters in the string lists), each state has exactly one der variable, outputs are exactly the output-prefixed states/algebraics, order is kept inside one class instance.",
   note="One subject variable with fixed neighbours; Modelica-illegal combinations excluded by precondition; the prefix list is written into the parsed template and validated against the real parser's output for every spelling.", ref="4/C10"),
 "C11": dict(engine="B", category="translation_validation", technique="SMT equivalence (z3, NRA+UF) of the real residual Function's SX DAG against a reference semantics of the flat AST; text family enumerated, all numeric values symbolic",
   text="For every enumerated model (all ordered pairs of C11 operators in both nestings, array subscripts/slices/for-loops/if-equations/functions, plus the repository's models) z3 proves, for all real values of time/states/derivatives/algebraics/inputs/constants/parameters, that each element of the real dae/initial residual Function equals lhs-rhs of the flat equation under the Modelica reference semantics. unsat = holds at every numeric point, which no finite set of evaluation points can establish.",
   note="Trusted: CasADi expand()/evaluation, z3, the reference semantics vk/smt/ast2z3.py (validated on the repository's test models). Real arithmetic (not IEEE), elementary functions uninterpreted, divisors assumed non-zero. Program structure is a bounded enumerated family.", ref="4/C11"),
 "C12": dict(engine="B", category="translation_validation", technique="SMT equivalence (z3) of the four output Functions (SX DAGs) across all 8 option configurations, for all inputs; variable lists compared concretely",
   text="For each enumerated model with loops/functions/delays every one of the 8 (unroll_loops, inline_functions, expand_mx) configurations is compiled by the real generate+simplify; z3 proves residual, initial-residual, metadata and delay-argument Functions equal to configuration 0 for all inputs; names/order/types/attributes compared concretely.",
   note="CasADi expand() trusted; real arithmetic; bounded model family.", ref="4/C12"),
 "C13": dict(engine="B", category="translation_validation", technique="SMT equivalence (z3) of variable_metadata_function and of every symbolic Variable attribute against the reference meaning of the flat symbol's attribute expression, for all parameter values",
   text="17 attribute expressions (literal, affine, non-affine) rotated over value/start/min/max/nominal of states/algebraics/inputs/parameters, plus array and Integer/Boolean models: z3 proves each metadata entry and each symbolic Variable attribute equal to the declared expression for all parameter values (the non-affine ones expose a wrongly applied affine rebuild); defaults and Python types compared concretely.",
   note="NaN/inf defaults are opaque shared constants; bounded model family.", ref="4/C13"),
 "C14": dict(engine="B", category="translation_validation", technique="SMT with quantifiers (z3): soundness orig=0 => simp=0 & recorded eliminations, completeness simp=0 => exists eliminated. orig=0, on the real residual Functions before/after Model.simplify",
   text="For every (model, option set) - all 64 subsets of the six interacting simplification options plus further sets, on triangular/affine systems with alias chains of every sign pattern - the real simplify() runs on the real MX graphs and z3 proves solution-set equality (projection) and that every recorded alias sign / constant value holds in every original solution, over all reals.",
   note="Parameters/constants fixed at declared values; warnings/exceptions count as reported failure; bounded model family.", ref="4/C14"),
 "C15": dict(engine="A", category="model_checking", technique="CrossHair symbolic execution (z3) of the real Model.simplify/_simplify_once with the Boolean simplification options symbolic; per shard 'Confirmed over all paths' that the balance is unchanged and both residual Functions can be constructed",
   text="For the square, uniquely solvable model family (base, affine, if-else, derivative aliases, parameter aliases, alias chains of every sign pattern) and ALL settings of 6 (thorough: 9) simplification options: simplify() does not raise, (#states + #algebraic) - #residual rows is unchanged, and dae/initial residual Functions can be built (no remaining reference to an eliminated variable).",
   note="Per-path cost through CasADi bounds the option space; values realised at the CasADi boundary.", ref="4/C15"),
 "C16": dict(engine="B", category="translation_validation", technique="SMT equivalence (z3) of the merged attributes, made symbolic through the real code by declaring them as parameters, against the specification (intersection with sign swap, max nominal, or fixed, start rule)",
   text="Alias classes of 2-4 (thorough 5) variables, every sign pattern, canonical state/input/algebraic, every subset of explicit starts: the real detect_aliases merging produces CasADi expressions in the attribute parameters and z3 proves them equal to the specification for all parameter values (Variable objects and metadata function).",
   note="INF modelled as a constant above every attribute parameter; fixed flags literal.", ref="4/C16"),
 "C17": dict(engine="C", category="model_checking", technique="SMT (z3) over a symbolic interpretation of the Python AST of alias_relation.py: one add/remove/copy/observer call from an ARBITRARY pre-state satisfying a representation invariant, symbolic arguments; unsat of each negated obligation (no exception, invariant preserved, signed-union-find specification, frame); sat answers replayed through an exhaustive exploration of the real class",
   text="Universe of 3 base names x 2 signs (thorough attempts 4): z3 proves Inv(empty); for add(a,b) under the property's premise, remove(a), copy() and the observers aliases/canonical_signed/canonical_variables/__iter__ with symbolic arguments: no exception, invariant preserved, the signed partition changes exactly as the signed union-find specification says, observers agree with the abstraction, copy() returns fresh dicts and set objects and no operation touches set objects it does not own (=> copies evolve independently). One inductive step covers histories of any length over the universe.",
   note="Loops over sets unrolled in two orders; names outside {x, -x} are an error obligation; translator validated by pushing every reachable real transition (N=3, fixpoint) through the encoding; sat results are only reported after a failing real history is found.", ref="4/C17"),
 "C18": dict(engine="B", category="translation_validation", technique="SMT equivalence (z3) of expanded vs unexpanded residual/metadata/delay Functions under the renaming x[i,j] -> element; naming rule checked structurally",
   text="For arrays (1-D, 2-D, size 1), arrays of components holding arrays, derivative arrays and delayed arrays, both code paths of expand_vectors: names/order/outputs/delay states checked against the naming rule, and z3 proves expanded residuals, delay arguments and metadata rows equal to the unexpanded ones under the renaming for all values.",
   note="Bounded model family; CasADi expand() trusted.", ref="4/C18"),
 "C19": dict(engine="B", category="translation_validation", technique="SMT equivalence (z3) of the four Functions and all attribute expressions of the CachedModel (real save_model/load_model round trip on disk) against the fresh Model, for all inputs / parameter values",
   text="7 models x 4 option sets: transfer_model(cache=True) twice on a scratch folder; names, order, types, outputs, delay states, alias relation compared concretely; z3 proves Functions and parameter-dependent attributes equal for all values. codegen: names/metadata only (thorough).",
   note="pickle/CasADi serialisation executed for real; numeric agreement of compiled shared libraries is outside the claim.", ref="4/C19"),
 "C20": dict(engine="A", category="model_checking", technique="CrossHair symbolic execution (z3) of one real transfer_model/load_model step from an arbitrary folder/cache state (symbolic mtimes, changed-file flags, stored vs current version and options, cache vs codegen) against stubs of os.walk/getmtime/open/pickle.load; 'Confirmed over all paths' per shard; counterexamples replayed with real files, os.utime-controlled mtimes and the unstubbed transfer_model",
   text="One inductive step covers every history of edits/additions/option changes/version changes: from ANY state in which every file that differs from the cached snapshot is strictly newer than the cache file, transfer_model returns the cached model only if sources, version and options are all current, and otherwise recompiles and rewrites the cache; never an exception. Files: model file, an optional second (old or newly added) file, a library file and a file in a library sub-folder; options: a Boolean, a string-or-None and library_folders.",
   note="mtimes range over a window wide enough for every order pattern (the code only compares them); mtime_check=True; deletion of files is not in the property's event list; the open library_folders finding is kept separate so the other invalidation rules stay covered in those shards.", ref="4/C20"),
 "C21": dict(engine="A", category="model_checking", technique="CrossHair symbolic execution (z3) of the real transfer_model/load_model fall-back with the reader's observation of the cache file (absent / empty / strict prefix / complete) and the unpickling exception symbolic; plus a real cache file truncated at ~50 offsets through the unstubbed transfer_model",
   text="For every observation a reader can make of a cache file whose write was interrupted or is in progress, every exception the unpickler is documented to raise on damaged input, cache and codegen, current and other version, and every mtime order: transfer_model returns the recompiled model and rewrites the cache (a complete, current file may be used); it never propagates the exception.",
   note="Crash points / interleavings are abstracted to the reader's observation of the single cache file; per-byte offsets are exercised only in the real replay; true two-process interleavings are outside the claim.", ref="4/C21"),
 "C22": dict(engine="B", category="translation_validation", technique="enumerated duration dependencies through the real transfer_model for accept/reject; SMT equivalence (z3) of delay_arguments_function outputs with the source delay() arguments",
   text="Durations drawing on each variable category alone and in pairs, inside/outside for-loops, variable or expression delayed, under several option sets: rejection must be exactly when a disallowed category occurs; for accepted models z3 proves every (expression, duration) output equal to the source arguments for all values.",
   note="'depends on' = syntactic occurrence; bounded family.", ref="4/C22"),
 "C23": dict(engine="A", category="model_checking", technique="CrossHair symbolic execution (z3) of the real generate -> get_component -> get_indexed_symbol -> get_integer with the subscript literals as symbolic integers (unbounded for scalar subscripts); verdict 'Confirmed over all paths' per shard, counterexamples replayed concretely",
   text="Scalar subscripts x[i], A[i,j], q[i].w[j], s[i] on a scalar, x[i] on the left-hand side: for ALL integers the real generator either raises (exactly when outside 1..n) or the residual selects exactly the Modelica element. Slices a:b (and a:s:b in thorough) and for-equation ranges: every bound in a window around the valid range, same assertion with the selected element set compared on a vector of distinct primes.",
   note="Values are realised at the SWIG boundary/numpy.arange (for-loop bounds are forked per value); formatting of symbolic values in error messages is cut; an empty range may be rejected or give the empty selection.", ref="4/C23"),
 "C24": dict(engine="B", category="translation_validation", technique="generated Python read back with Python's ast (its precedence) -> z3, proved equal to lhs-rhs of the flat equation for all values; classification lists and name injectivity checked structurally",
   text="For every expression tree over + - * / ^, unary minus, der, sin/cos/tan, time (depth 2, thorough 3) the module generated by the real SymPy backend must compile and each self.eqs entry is proved by z3 equal to the flat equation's residual; x/v/p/c/u/y lists match the flat classification; distinct names must map to distinct symbols.",
   note="Python's ast gives the precedence SymPy sees; replay executes the generated module with the real SymPy.", ref="4/C24"),
 "C26": dict(engine="A", category="model_checking", technique="CrossHair symbolic execution (z3) of the real tools.compiler.main (real argparse) against a symbolic file system / parser / backend outcome vector; 'Confirmed over all paths' per shard; counterexamples replayed through the harness and then with real files and the unstubbed tool",
   text="For <= 4 path arguments (file in a sub-directory, second file, directory holding a file with the same stem, non-Modelica file), 1-2 models, target none/sympy/casadi, -O absent/well-formed/malformed and EVERY combination of existence, parse outcome, model outcome, output-directory validity and write failure: main() returns the number of usage errors, else of files with parse errors (+1 if no Modelica file), else of failing models - so each model's outcome is independent of the other requested model; 5 usage-error shapes give SystemExit(2); no exception escapes.",
   note="File system, parser and backends are stubs returning or raising per symbolic flags; logging and perf_counter are cut; real flatten on several models of one tree is C05's subject.", ref="4/C26"),
}
NA = {
 "C02": "deciding facts are SQLite's file-locking state machine and OS scheduling, none of which is pymoca code; CrossHair executes a single thread and nothing installed explores Python/SQLite interleavings symbolically (DESIGN.md section 5)",
 "C04": "every clause is about the text -> parse-tree mapping executed by the ANTLR ATN interpreter, which cannot run under symbolic execution here (no parse completes in 300 s); after a concrete parse no quantity remains for a solver to quantify over (DESIGN.md section 5)",
}
PENDING = "check not built yet in this session (planned, see DESIGN.md section 4); listed here until its command exists"
ALL = ["C%02d" % i for i in range(1, 28)]

def main():
    checks = []
    for pid in ALL:
        if pid not in CHECKS: continue
        c = CHECKS[pid]
        checks.append({
            "property_id": pid,
            "quick_cmd": f"bin/check {pid} --tier quick",
            "thorough_cmd": f"bin/check {pid} --tier thorough",
            "evidence_file": f"/verif/evidence/{pid}.json",
            "replay_cmd_template": f"bin/check {pid} --replay {{path}}",
            "engine": {"A": "crosshair", "B": "smt-terms", "C": "pysym"}[c["engine"]],
            "level_claimed": {"category": c["category"], "text": c["text"], "design_ref": c["ref"]},
            "level_note": c["note"],
            "technique": c["technique"],
        })
    na = [{"property_id": p, "reason": NA.get(p, PENDING)} for p in ALL if p not in CHECKS]
    m = {
        "version": 1,
        "setup_cmd": "bin/ensure_env.sh",
        "hooks": {"guard": "PYMOCA_VERIF", "enable": "none needed: all instrumentation is monkey-patched from the harnesses; pymoca is imported from /repo/src (editable install), so checks always see the working tree",
                  "baseline_off_cmd": "bin/baseline.sh", "source_commits": [], "add_only": True},
        "engines": [
            {"name": "crosshair", "path": "vk/chx.py", "serves_properties": [p for p in ALL if p in CHECKS and CHECKS[p]["engine"] == "A"], "kind_free_text": "CrossHair 0.0.110 symbolic execution (z3) of the real pymoca functions, sharded over 16 processes"},
            {"name": "smt-terms", "path": "vk/smt", "serves_properties": [p for p in ALL if p in CHECKS and CHECKS[p]["engine"] == "B"], "kind_free_text": "CasADi SX DAG / flat AST / generated Python -> z3 terms; equivalence queries, numeric replay"},
            {"name": "pysym", "path": "vk/pysym", "serves_properties": [p for p in ALL if p in CHECKS and CHECKS[p]["engine"] == "C"], "kind_free_text": "Python AST of alias_relation.py -> z3 with ite-merged state (one inductive step)"},
        ],
        "checks": checks,
        "not_applicable": na,
        "notes": "Solver-based checking of the real code; see DESIGN.md. Exit 0 pass / 1 VIOLATION (replayed) / 3 harness error or encoding gap.",
    }
    with open(os.path.join(HERE, "MANIFEST.json"), "w") as f:
        json.dump(m, f, indent=1)
    try:
        import jsonschema
        jsonschema.validate(m, json.load(open("/root/.vp/MANIFEST.schema.json")))
        print("MANIFEST.json valid;", len(checks), "checks,", len(na), "not applicable/pending")
    except ImportError:
        print("written (jsonschema not available)")

if __name__ == "__main__":
    main()
