#!/usr/bin/env python3
"""Regenerates /verif/MANIFEST.json from the table below (kept in one place so it stays valid)."""
import json, os
HERE = os.path.dirname(os.path.dirname(os.path.abspath(__file__)))

CHECKS = {
 "C11": dict(engine="B", category="translation_validation", technique="SMT equivalence (z3, NRA+UF) of the real residual Function's SX DAG against a reference semantics of the flat AST; text family enumerated, all numeric values symbolic",
   text="For every enumerated model (all ordered pairs of C11 operators in both nestings, array subscripts/slices/for-loops/if-equations/functions, plus the repository's models) z3 proves, for all real values of time/states/derivatives/algebraics/inputs/constants/parameters, that each element of the real dae/initial residual Function equals lhs-rhs of the flat equation under the Modelica reference semantics. unsat = holds at every numeric point, which no finite set of evaluation points can establish.",
   note="Trusted: CasADi expand()/evaluation, z3, the reference semantics vk/smt/ast2z3.py (validated on the repository's test models). Real arithmetic (not IEEE), elementary functions uninterpreted, divisors assumed non-zero. Program structure is a bounded enumerated family.", ref="4/C11"),
}
NA = {
 "C02": "deciding facts are SQLite's file-locking state machine and OS scheduling, none of which is pymoca code; CrossHair executes a single thread and nothing installed explores Python/SQLite interleavings symbolically (DESIGN.md section 5)",
 "C04": "every clause is about the text -> parse-tree mapping executed by the ANTLR ATN interpreter, which cannot run under symbolic execution here (no parse completes in 300 s); after a concrete parse no quantity remains for a solver to quantify over (DESIGN.md section 5)",
}
PENDING = "check not built yet in this session (planned, see DESIGN.md section 4); listed here until its command exists"
ALL = ["C%02d" % i for i in range(1, 28)]

def main():
    checks = []
    for pid in ALL:
        if pid not in CHECKS: continue
        c = CHECKS[pid]
        checks.append({
            "property_id": pid,
            "quick_cmd": f"bin/check {pid} --tier quick",
            "thorough_cmd": f"bin/check {pid} --tier thorough",
            "evidence_file": f"/verif/evidence/{pid}.json",
            "replay_cmd_template": f"bin/check {pid} --replay {{path}}",
            "engine": {"A": "crosshair", "B": "smt-terms", "C": "pysym"}[c["engine"]],
            "level_claimed": {"category": c["category"], "text": c["text"], "design_ref": c["ref"]},
            "level_note": c["note"],
            "technique": c["technique"],
        })
    na = [{"property_id": p, "reason": NA.get(p, PENDING)} for p in ALL if p not in CHECKS]
    m = {
        "version": 1,
        "setup_cmd": "bin/ensure_env.sh",
        "hooks": {"guard": "PYMOCA_VERIF", "enable": "none needed: all instrumentation is monkey-patched from the harnesses; pymoca is imported from /repo/src (editable install), so checks always see the working tree",
                  "baseline_off_cmd": "bin/baseline.sh", "source_commits": [], "add_only": True},
        "engines": [
            {"name": "crosshair", "path": "vk/chx.py", "serves_properties": [p for p in ALL if p in CHECKS and CHECKS[p]["engine"] == "A"], "kind_free_text": "CrossHair 0.0.110 symbolic execution (z3) of the real pymoca functions, sharded over 16 processes"},
            {"name": "smt-terms", "path": "vk/smt", "serves_properties": [p for p in ALL if p in CHECKS and CHECKS[p]["engine"] == "B"], "kind_free_text": "CasADi SX DAG / flat AST / generated Python -> z3 terms; equivalence queries, numeric replay"},
            {"name": "pysym", "path": "vk/pysym", "serves_properties": [p for p in ALL if p in CHECKS and CHECKS[p]["engine"] == "C"], "kind_free_text": "Python AST of alias_relation.py -> z3 with ite-merged state (one inductive step)"},
        ],
        "checks": checks,
        "not_applicable": na,
        "notes": "Solver-based checking of the real code; see DESIGN.md. Exit 0 pass / 1 VIOLATION (replayed) / 3 harness error or encoding gap.",
    }
    with open(os.path.join(HERE, "MANIFEST.json"), "w") as f:
        json.dump(m, f, indent=1)
    try:
        import jsonschema
        jsonschema.validate(m, json.load(open("/root/.vp/MANIFEST.schema.json")))
        print("MANIFEST.json valid;", len(checks), "checks,", len(na), "not applicable/pending")
    except ImportError:
        print("written (jsonschema not available)")

if __name__ == "__main__":
    main()
