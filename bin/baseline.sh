#!/bin/bash
# Runs the repository's pinned test suite (guard OFF) and compares with BASELINE.json's stable_pass.
unset PYMOCA_VERIF
OUT=$(mktemp /tmp/verif_junit.XXXXXX.xml)
(cd /repo && /venv/bin/python -m pytest -ra -q -p no:cacheprovider --timeout=900 --continue-on-collection-errors --junitxml="$OUT" >/dev/null 2>&1)
/venv/bin/python - "$OUT" <<'P'
import json, sys, xml.etree.ElementTree as ET
base = set(json.load(open("/root/.vp/BASELINE.json"))["stable_pass"])
ok = set()
for tc in ET.parse(sys.argv[1]).getroot().iter("testcase"):
    if not any(c.tag in ("failure", "error", "skipped") for c in tc):
        ok.add(f"{tc.get('classname')}::{tc.get('name')}")
missing = sorted(base - ok)
print(f"baseline: {len(base & ok)}/{len(base)} stable tests pass; {len(ok - base)} additional tests pass")
for m in missing: print("MISSING", m)
sys.exit(1 if missing else 0)
P
rc=$?; rm -f "$OUT"; exit $rc
