#!/usr/bin/env python3
"""usage: bin/seedconfirm.py <PROP> <K> <src_dir>

Independently confirms a seeded change produced by a sub-agent (src_dir holds patch.diff, demo.py,
notes.md) in a fresh scratch worktree of /repo:  demo passes on the clean tree, patch applies, code
imports, demo fails with the patch, and the repository's test suite passes exactly the tests it passes
at HEAD without the patch.  On success the change is stored as /verif/seeded/<PROP>/<K>/ with meta.json.
Nothing is ever applied to /repo itself; the worktree is removed afterwards."""
import json
import os
import shutil
import subprocess
import sys
import tempfile
import xml.etree.ElementTree as ET

VERIF = os.path.dirname(os.path.dirname(os.path.abspath(__file__)))
PY = "/venv/bin/python"


def sh(cmd, cwd=None, env=None, timeout=1800):
    p = subprocess.run(cmd, cwd=cwd, env=env, capture_output=True, text=True, timeout=timeout)
    return p.returncode, (p.stdout + p.stderr)


def passing(wt, env):
    out = tempfile.mktemp(suffix=".xml", dir="/tmp")
    sh([PY, "-m", "pytest", "-q", "-p", "no:cacheprovider", "--timeout=900", "--continue-on-collection-errors", f"--junitxml={out}", "test"], cwd=wt, env=env)
    ok = set()
    try:
        for tc in ET.parse(out).getroot().iter("testcase"):
            if not any(c.tag in ("failure", "error", "skipped") for c in tc):
                ok.add(f"{tc.get('classname')}::{tc.get('name')}")
    finally:
        if os.path.exists(out):
            os.remove(out)
    return ok


def main():
    prop, k, src = sys.argv[1], sys.argv[2], os.path.abspath(sys.argv[3])
    patch = os.path.join(src, "patch.diff")
    demo = os.path.join(src, "demo.py")
    head = subprocess.check_output(["git", "-C", "/repo", "rev-parse", "HEAD"], text=True).strip()
    wt = tempfile.mkdtemp(prefix="seedconf.", dir="/tmp")
    os.rmdir(wt)
    subprocess.check_call(["git", "-C", "/repo", "worktree", "add", "-q", "--detach", wt, "HEAD"])
    env = dict(os.environ, PYTHONPATH=f"{wt}/src:{wt}", PYTHONDONTWRITEBYTECODE="1")
    env.pop("PYMOCA_VERIF", None)
    res = {"property": prop, "k": k, "repo_head": head}
    try:
        base_file = f"/tmp/seed_baseline_{head}.json"
        if os.path.exists(base_file):
            base = set(json.load(open(base_file)))
        else:
            base = passing(wt, env)
            json.dump(sorted(base), open(base_file, "w"))
        rc, out = sh([PY, demo], cwd=wt, env=env)
        res["demo_clean_exit"] = rc
        rc2, out2 = sh(["git", "-C", wt, "apply", patch])
        res["patch_applies"] = rc2 == 0
        if rc2 != 0:
            res["error"] = out2[-300:]
        else:
            rc3, out3 = sh([PY, "-c", "import pymoca, pymoca.parser, pymoca.tree, pymoca.backends.casadi.api, pymoca.backends.sympy.generator, pymoca.backends.xml.generator, tools.compiler; print(pymoca.__file__)"], cwd=wt, env=env)
            res["imports"] = rc3 == 0 and wt in out3
            rc4, out4 = sh([PY, demo], cwd=wt, env=env)
            res["demo_patched_exit"] = rc4
            res["demo_patched_output"] = out4[-400:]
            now = passing(wt, env)
            res["tests_pass_clean"] = len(base)
            res["tests_pass_patched"] = len(now)
            res["tests_newly_failing"] = sorted(base - now)
        res["confirmed"] = bool(res.get("demo_clean_exit") == 0 and res.get("patch_applies") and res.get("imports")
                                and res.get("demo_patched_exit") == 1 and not res.get("tests_newly_failing"))
    finally:
        subprocess.call(["git", "-C", "/repo", "worktree", "remove", "--force", wt])
        shutil.rmtree(wt, ignore_errors=True)
    print(json.dumps(res, indent=1))
    if res["confirmed"]:
        dst = os.path.join(VERIF, "seeded", prop, str(k))
        os.makedirs(dst, exist_ok=True)
        for f in ("patch.diff", "demo.py", "notes.md"):
            if os.path.abspath(src) != os.path.abspath(dst) and os.path.exists(os.path.join(src, f)):
                shutil.copy(os.path.join(src, f), os.path.join(dst, f))
        notes = open(os.path.join(src, "notes.md")).read() if os.path.exists(os.path.join(src, "notes.md")) else ""
        meta = {"property": prop, "breaks": prop, "needs_to_manifest": notes[:1500],
                "confirmed_by": "bin/seedconfirm.py in a scratch worktree of /repo at " + head,
                "ran": {"demo_on_clean_tree_exit": res["demo_clean_exit"], "demo_with_patch_exit": res["demo_patched_exit"],
                        "test_suite": f"{res['tests_pass_patched']} tests pass with the patch, {res['tests_pass_clean']} without; newly failing: none"},
                "detected_by": {}}
        mp = os.path.join(dst, "meta.json")
        if os.path.exists(mp):
            old = json.load(open(mp))
            meta["detected_by"] = old.get("detected_by", {})
        json.dump(meta, open(mp, "w"), indent=1)
    if not res["confirmed"]:
        mp = os.path.join(VERIF, "seeded", prop, str(k), "meta.json")
        if os.path.exists(mp):
            meta = json.load(open(mp))
            why = ("patch no longer applies" if not res.get("patch_applies") else
                   "demo already fails without the patch" if res.get("demo_clean_exit") != 0 else
                   "demo no longer fails with the patch (the defect it relied on was repaired in /repo)" if res.get("demo_patched_exit") == 0 else
                   "tests newly failing: " + ", ".join(res.get("tests_newly_failing", [])[:3]))
            meta["obsolete"] = f"not reproducible at /repo {head[:7]}: {why}"
            json.dump(meta, open(mp, "w"), indent=1)
    return 0 if res["confirmed"] else 1


if __name__ == "__main__":
    sys.exit(main())
