#!/usr/bin/env python3
"""Prints a markdown table of the seeded changes and which check catches each (from seeded/*/*/meta.json)."""
import glob
import json
import os
import re

VERIF = os.path.dirname(os.path.dirname(os.path.abspath(__file__)))
rows = []
for mp in sorted(glob.glob(os.path.join(VERIF, "seeded", "*", "*", "meta.json")), key=lambda p: (p.split("/")[-3], int(p.split("/")[-2]))):
    m = json.load(open(mp))
    pid, k = mp.split("/")[-3], mp.split("/")[-2]
    notes = m.get("needs_to_manifest", "")
    title = next((l.strip("# ").strip() for l in notes.splitlines() if l.strip()), "")[:110]
    title = re.sub(r"\|", "/", title)
    if m.get("obsolete"):
        verdict = "obsolete: " + m["obsolete"][:90]
    else:
        parts = []
        for chk, v in sorted(m.get("detected_by", {}).items()):
            parts.append(f"{chk} {v['verdict'].split(' ')[0]}")
        verdict = "; ".join(parts) or "not run"
    rows.append(f"| {pid}/{k} | {title} | {verdict} |")
print("| seeded change | what it does (first line of its notes) | outcome |")
print("|---|---|---|")
print("\n".join(rows))
