"""Engine A runner: CrossHair (symbolic execution with z3) over harness functions that call the
real pymoca code.  One `crosshair check` process per (function, shard); verdict lines parsed."""
import ast as pyast
import os
import re
import subprocess
import sys
import time
from concurrent.futures import ThreadPoolExecutor

VERIF = os.path.dirname(os.path.dirname(os.path.abspath(__file__)))
PY = os.path.join(VERIF, ".venv", "bin", "python")


def func_lines(path):
    src = open(path).read()
    out = {}
    for node in pyast.parse(src).body:
        if isinstance(node, pyast.FunctionDef):
            out[node.name] = node.lineno + 1
    return out


class Verdict:
    def __init__(self, func, pin, kind, detail, secs, raw):
        self.func, self.pin, self.kind, self.detail, self.secs, self.raw = func, pin, kind, detail, secs, raw

    def __repr__(self):
        return f"<{self.func} {self.pin} {self.kind} {self.detail[:80]} {self.secs:.1f}s>"


_CALL = re.compile(r"when calling (\w+)\((.*?)\)(?: \(which returns .*\))?\s*$")


def parse_output(out):
    """-> (kind, detail) with kind in confirmed / counterexample / exception / not_confirmed /
    unmet_precondition / error."""
    kinds = []
    for line in out.splitlines():
        if "Confirmed over all paths" in line:
            kinds.append(("confirmed", ""))
        elif "error:" in line and "when calling" in line:
            msg = line.split("error:", 1)[1].strip()
            if msg.startswith("false when calling"):
                kinds.append(("counterexample", msg))
            else:
                kinds.append(("exception", msg))
        elif "Not confirmed" in line:
            kinds.append(("not_confirmed", ""))
        elif "Unable to meet precondition" in line:
            kinds.append(("unmet_precondition", ""))
        elif "error:" in line:
            kinds.append(("error", line.split("error:", 1)[1].strip()))
    for pref in ("counterexample", "exception", "error", "not_confirmed", "unmet_precondition", "confirmed"):
        for k, d in kinds:
            if k == pref:
                return k, d
    return "error", "no verdict line: " + out[-300:]


def call_args(detail):
    """Extract the python argument text of the counterexample call."""
    m = _CALL.search(detail)
    if not m:
        return None
    return m.group(2)


def run_one(path, func, line, pin, cond_timeout, path_timeout, extra_env=None):
    env = dict(os.environ)
    repo = os.environ.get("VERIF_REPO", "/repo")
    env["PYTHONPATH"] = repo + "/src" + os.pathsep + repo + os.pathsep + VERIF + os.pathsep + env.get("PYTHONPATH", "")
    env["VERIF_PIN"] = pin
    env["PYTHONHASHSEED"] = "0"
    env.update(extra_env or {})
    cmd = [PY, "-m", "crosshair", "check", "--report_all", "--per_condition_timeout", str(cond_timeout),
           "--per_path_timeout", str(path_timeout), f"{path}:{line}"]
    t = time.time()
    try:
        p = subprocess.run(cmd, env=env, capture_output=True, text=True, timeout=cond_timeout * 2.5 + 180, cwd=VERIF)
        out = p.stdout + p.stderr
    except subprocess.TimeoutExpired as e:
        # same meaning as CrossHair's own budget running out: the shard is not decided (reported INCONCLUSIVE)
        out = "Not confirmed (harness process timeout)"
    kind, detail = parse_output(out)
    return Verdict(func, pin, kind, detail, time.time() - t, out[-1500:])


def run(path, jobs_spec, jobs=16, cond_timeout=120, path_timeout=30, extra_env=None):
    """jobs_spec: list of (function name, pin string).  Returns list of Verdict."""
    lines = func_lines(path)
    with ThreadPoolExecutor(max_workers=jobs) as ex:
        futs = [ex.submit(run_one, path, f, lines[f], pin, cond_timeout, path_timeout, extra_env) for f, pin in jobs_spec]
        return [f.result() for f in futs]


def summarize(rep, verdicts, require_confirmed=True):
    """Common accounting into a Report: confirmed -> unsat-like, counterexample -> sat."""
    n = {"confirmed": 0, "counterexample": 0, "exception": 0, "not_confirmed": 0, "unmet_precondition": 0, "error": 0}
    for v in verdicts:
        n[v.kind] = n.get(v.kind, 0) + 1
        rep.solver_time += v.secs
        if v.kind == "confirmed":
            rep.count("unsat")
        elif v.kind in ("counterexample", "exception"):
            rep.count("sat")
        else:
            rep.count("unknown")
            if v.kind == "error":
                rep.harness_error(f"crosshair {v.func}[{v.pin}]: {v.detail[:300]} :: {v.raw[-400:]}")
            else:
                rep.note_inconclusive(f"crosshair {v.func}[{v.pin}]: {v.kind}")
    rep.coverage["crosshair_conditions"] = dict(n)
    return n
