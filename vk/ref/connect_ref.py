"""Modelica connection-set semantics (spec ch. 9) for the C09 oracle: union-find over the connect
graph; per set: potentials equal, sum of flows zero with inside connectors +, outside connectors -;
flow variables of connectors that appear in no connect clause are zero."""


def connection_sets(connectors, clauses):
    parent = {c: c for c in connectors}

    def find(x):
        while parent[x] != x:
            parent[x] = parent[parent[x]]
            x = parent[x]
        return x

    for a, b in clauses:
        ra, rb = find(a), find(b)
        if ra != rb:
            parent[rb] = ra
    used = {c for cl in clauses for c in cl}
    sets = {}
    for c in connectors:
        if c in used:
            sets.setdefault(find(c), []).append(c)
    return list(sets.values()), [c for c in connectors if c not in used]


def reference_equations(connectors, inside, potentials, flows, clauses, var):
    """Returns list of z3 Boolean constraints. var(connector, member) -> z3 Real."""
    sets, unused = connection_sets(connectors, clauses)
    eqs = []
    for s in sets:
        for p in potentials:
            for c in s[1:]:
                eqs.append(var(s[0], p) == var(c, p))
        for f in flows:
            total = None
            for c in s:
                t = var(c, f) if inside[c] else -var(c, f)
                total = t if total is None else total + t
            eqs.append(total == 0)
    for c in unused:
        for f in flows:
            eqs.append(var(c, f) == 0)
    return eqs
