"""Modelica connection-set semantics (spec ch. 9) for the C09 oracle: union-find over the connect
graph; per set: potentials equal, sum of flows zero with inside connectors +, outside connectors -;
flow variables of connectors that appear in no connect clause are zero."""
import itertools
import re


def connection_sets(connectors, clauses):
    parent = {c: c for c in connectors}

    def find(x):
        while parent[x] != x:
            parent[x] = parent[parent[x]]
            x = parent[x]
        return x

    for a, b in clauses:
        ra, rb = find(a), find(b)
        if ra != rb:
            parent[rb] = ra
    used = {c for cl in clauses for c in cl}
    sets = {}
    for c in connectors:
        if c in used:
            sets.setdefault(find(c), []).append(c)
    return list(sets.values()), [c for c in connectors if c not in used]


def reference_equations(connectors, inside, potentials, flows, clauses, var):
    """Returns list of z3 Boolean constraints. var(connector, member) -> z3 Real."""
    sets, unused = connection_sets(connectors, clauses)
    eqs = []
    for s in sets:
        for p in potentials:
            for c in s[1:]:
                eqs.append(var(s[0], p) == var(c, p))
        for f in flows:
            total = None
            for c in s:
                t = var(c, f) if inside[c] else -var(c, f)
                total = t if total is None else total + t
            eqs.append(total == 0)
    for c in unused:
        for f in flows:
            eqs.append(var(c, f) == 0)
    return eqs


# ---------------------------------------------------------------------------------------------
# General oracle: arrays of components / connectors, array-valued connector members, connect
# clauses inside component classes (a connector is then an OUTSIDE connector of the clause written
# in its own class and an INSIDE connector of a clause written one level up).
#
# A model description is a plain dict
#   {"pot": [(member, dims)], "flo": [(member, dims)],
#    "classes": {cname: {"pins": [(name, dims)], "subs": [(name, cname, dims)],
#                        "clauses": [(ref, ref)]}},
#    "top": cname}
# dims are tuples of ints; ref is Modelica text such as "n[1].p", "t[2]", "P", "s" (whole array).
# A connector INSTANCE is a tuple of (name, subscripts) pairs, e.g. (("n", (1,)), ("p", ())).
# ---------------------------------------------------------------------------------------------


def parse_ref(text):
    parts = []
    for tok in text.split("."):
        if "[" in tok:
            name, rest = tok.split("[", 1)
            parts.append((name, tuple(int(x) for x in rest.rstrip("]").split(","))))
        else:
            parts.append((tok, None))
    return parts


def inst_str(inst):
    return ".".join(n + ("[" + ",".join(map(str, ix)) + "]" if ix else "") for n, ix in inst)


def _indices(dims):
    return list(itertools.product(*[range(1, d + 1) for d in dims]))


def instances(model, cname=None, prefix=()):
    """All scalar connector instances below class cname, in declaration order."""
    cls = model["classes"][cname or model["top"]]
    out = []
    for name, cn, dims in cls.get("subs", []):
        for ix in _indices(dims):
            out += instances(model, cn, prefix + ((name, ix),))
    for name, dims in cls.get("pins", []):
        for ix in _indices(dims):
            out.append(prefix + ((name, ix),))
    return out


def _resolve(model, cname, ref):
    """Ref text inside class cname -> (list of relative instances, inside?). A part without
    subscripts that names an array stands for all its elements (row-major)."""
    cls = model["classes"][cname]
    parts = parse_ref(ref)
    pins = {n: d for n, d in cls.get("pins", [])}
    subs = {n: (cn, d) for n, cn, d in cls.get("subs", [])}

    def choices(dims, ix):
        if ix is None:
            return _indices(dims)
        if len(ix) != len(dims) or any(not 1 <= i <= d for i, d in zip(ix, dims)):
            raise ValueError("subscript %r does not fit dimensions %r in %s" % (ix, dims, ref))
        return [tuple(ix)]

    if len(parts) == 1 and parts[0][0] in pins:
        return [((parts[0][0], ix),) for ix in choices(pins[parts[0][0]], parts[0][1])], False
    if len(parts) == 2 and parts[0][0] in subs:
        cn, d = subs[parts[0][0]]
        spins = {n: dd for n, dd in model["classes"][cn].get("pins", [])}
        if parts[1][0] in spins:
            return [((parts[0][0], a), (parts[1][0], b)) for a in choices(d, parts[0][1])
                    for b in choices(spins[parts[1][0]], parts[1][1])], True
    raise ValueError("cannot resolve connector reference %s in %s" % (ref, cname))


def expanded_clauses(model, cname=None, prefix=()):
    """Scalar connect clauses of the whole instance hierarchy:
    [((instance, inside?), (instance, inside?))], clauses of enclosing classes last (irrelevant)."""
    cname = cname or model["top"]
    cls = model["classes"][cname]
    out = []
    for name, cn, dims in cls.get("subs", []):
        for ix in _indices(dims):
            out += expanded_clauses(model, cn, prefix + ((name, ix),))
    for a, b in cls.get("clauses", []):
        la, ia = _resolve(model, cname, a)
        lb, ib = _resolve(model, cname, b)
        if len(la) != len(lb):
            raise ValueError("connect(%s, %s): sizes differ" % (a, b))
        for x, y in zip(la, lb):
            out.append(((prefix + x, ia), (prefix + y, ib)))
    return out


def role_sets(clauses):
    """Connection sets over (instance, inside?) elements, in first-appearance order."""
    parent, order = {}, []

    def find(x):
        while parent[x] != x:
            parent[x] = parent[parent[x]]
            x = parent[x]
        return x

    for l, r in clauses:
        for e in (l, r):
            if e not in parent:
                parent[e] = e
                order.append(e)
        rl, rr = find(l), find(r)
        if rl != rr:
            parent[rr] = rl
    sets = {}
    for e in order:
        sets.setdefault(find(e), []).append(e)
    return list(sets.values())


def flat_name(inst, member, mix=()):
    """Name of the z3 constant of element mix of `member` of connector instance inst, following the
    flat naming a.b.c[i,j,...] (all subscripts moved to the end, outermost level first)."""
    base = ".".join(n for n, _ in inst) + "." + member
    idx = [i for _, ix in inst for i in ix] + list(mix)
    return base + ("[" + ",".join(map(str, idx)) + "]" if idx else "")


def expected_symbols(model):
    """{flat symbol name: dims} the flattened top class must declare for its connectors."""
    out = {}

    def rec(cname, names, dims):
        cls = model["classes"][cname]
        for name, cn, d in cls.get("subs", []):
            rec(cn, names + [name], dims + tuple(d))
        for name, d in cls.get("pins", []):
            for m, md in model["pot"] + model["flo"]:
                out[".".join(names + [name, m])] = dims + tuple(d) + tuple(md)

    rec(model["top"], [], ())
    return out


def partially_connected_array_rest(model):
    """Instances that appear in no clause although another element of the same array (same flat
    name, different subscripts) does."""
    used = {e[0] for cl in expanded_clauses(model) for e in cl}
    used_bases = {tuple(n for n, _ in i) for i in used}
    return [i for i in instances(model) if i not in used and tuple(n for n, _ in i) in used_bases]


def general_reference_equations(model, var, only_zero_for=None):
    """List of z3 constraints of the whole instance hierarchy. var(name) -> z3 Real.
    With only_zero_for: just the `flow = 0` constraints of those instances."""
    def members(ms):
        return [(m, ix) for m, d in ms for ix in _indices(d)]

    if only_zero_for is not None:
        return [var(flat_name(i, m, ix)) == 0 for i in only_zero_for for m, ix in members(model["flo"])]
    clauses = expanded_clauses(model)
    sets = role_sets(clauses)
    eqs = []
    for s in sets:
        insts = []
        for i, _ in s:
            if i not in insts:
                insts.append(i)
        for m, ix in members(model["pot"]):
            for i in insts[1:]:
                eqs.append(var(flat_name(insts[0], m, ix)) == var(flat_name(i, m, ix)))
        for m, ix in members(model["flo"]):
            total = None
            for i, inside in s:
                t = var(flat_name(i, m, ix)) if inside else -var(flat_name(i, m, ix))
                total = t if total is None else total + t
            eqs.append(total == 0)
    used = {e[0] for cl in clauses for e in cl}
    for i in instances(model):
        if i not in used:
            for m, ix in members(model["flo"]):
                eqs.append(var(flat_name(i, m, ix)) == 0)
    return eqs


def render(model, extra_top_decls="", raw_top_equations=None):
    """Modelica text of a model description. raw_top_equations replaces the top class's connect
    clauses by the given equation-section text (for-loops etc.); the oracle still uses `clauses`."""
    def dim(d):
        return "[" + ",".join(map(str, d)) + "]" if d else ""

    txt = "connector Pin\n" + "".join(f"  Real {m}{dim(d)};\n" for m, d in model["pot"])
    txt += "".join(f"  flow Real {m}{dim(d)};\n" for m, d in model["flo"]) + "end Pin;\n"
    done = []

    def emit(cname):
        nonlocal txt
        if cname in done:
            return
        done.append(cname)
        cls = model["classes"][cname]
        for _, cn, _ in cls.get("subs", []):
            emit(cn)
        txt += f"model {cname}\n"
        if cname == model["top"]:
            txt += extra_top_decls
        txt += "".join(f"  {cn} {n}{dim(d)};\n" for n, cn, d in cls.get("subs", []))
        txt += "".join(f"  Pin {n}{dim(d)};\n" for n, d in cls.get("pins", []))
        if cname == model["top"] and raw_top_equations is not None:
            txt += "equation\n" + raw_top_equations
        elif cls.get("clauses"):
            txt += "equation\n" + "".join(f"  connect({a}, {b});\n" for a, b in cls["clauses"])
        txt += f"end {cname};\n"

    emit(model["top"])
    return txt


# ---------------------------------------------------------------------------------------------
# "Rich" family members: models whose components (and top class) carry linear equations of their
# own over connector members, and models that use SEVERAL connector classes at once (same short
# name in different packages, local connector classes, redeclared replaceable connectors,
# connectors with input/output/parameter/constant members).
#
# A description is a plain dict
#   {"text": Modelica text, "top": class name,
#    "groups": [{"pot": [member], "flo": [member], "other": [member],     one per connector class
#                "connectors": [(flat connector name, inside?)]}],
#    "clauses": [(flat connector name, flat connector name)],             each within one group
#    "rows": [({flat variable: coefficient}, constant)],                  sum + constant = 0
#    "vars": [flat names of the non-connector variables]}
# The reference is: connection-set equations per connector class (the members of THAT class) and the
# model's own equations, read from the same strings that are rendered into the text.
# ---------------------------------------------------------------------------------------------
_TERM = re.compile(r"\s*([+-]?)\s*(?:(\d+)\s*\*\s*)?([A-Za-z_][\w.]*|\d+)\s*")


def linear_row(eq_text, prefix=""):
    """'p.i = 2*x + 1' -> ({prefix+'p.i': 1, prefix+'x': -2}, -1), i.e. lhs - rhs as coefficients and constant."""
    lhs, rhs = eq_text.split("=")
    row, const = {}, 0
    for side, sgn in ((lhs, 1), (rhs, -1)):
        pos = 0
        while pos < len(side):
            m = _TERM.match(side, pos)
            if not m or m.end() == pos:
                raise ValueError("cannot read linear equation %r" % eq_text)
            pos = m.end()
            c = sgn * (-1 if m.group(1) == "-" else 1) * int(m.group(2) or 1)
            t = m.group(3)
            if t[0].isdigit():
                const += c * int(t)
            else:
                row[prefix + t] = row.get(prefix + t, 0) + c
    return row, const


def rich_expected_symbols(desc):
    out = set(desc.get("vars", []))
    for g in desc["groups"]:
        for c, _ in g["connectors"]:
            out |= {f"{c}.{m}" for m in g["pot"] + g["flo"] + g.get("other", [])}
    return out


def rich_reference_equations(desc, var):
    """z3 constraints; var(name) -> z3 Real."""
    eqs = []
    for g in desc["groups"]:
        names = [c for c, _ in g["connectors"]]
        own = [cl for cl in desc["clauses"] if cl[0] in names or cl[1] in names]
        if any(not (a in names and b in names) for a, b in own):
            raise ValueError("connect clause across connector classes")
        eqs += reference_equations(names, dict(g["connectors"]), g["pot"], g["flo"], own, lambda c, x: var(f"{c}.{x}"))
    for row, const in desc.get("rows", []):
        total = None
        for n, c in row.items():
            t = c * var(n)
            total = t if total is None else total + t
        eqs.append((total if total is not None else 0) + const == 0)
    return eqs


def _pin_text(name, pot, flo, indent="", extends=None, other_text=""):
    t = f"{indent}connector {name}\n" + (f"{indent}  extends {extends};\n" if extends else "")
    t += "".join(f"{indent}  Real {p};\n" for p in pot) + "".join(f"{indent}  flow Real {f};\n" for f in flo)
    return t + other_text + f"{indent}end {name};\n"


def equations_model(comp_eqs, top_eqs, clauses, k=1, m=1, top_first=False):
    """Comp (connectors p, n, variable x) with its own equations comp_eqs (names local to Comp); M has
    components a, b, c, top connectors P, Q, variable y, its own equations top_eqs (flat names) and the clauses."""
    pot = ["v"] if k == 1 else [f"v{j}" for j in range(1, k + 1)]
    flo = ["i"] if m == 1 else [f"i{j}" for j in range(1, m + 1)]
    text = _pin_text("Pin", pot, flo)
    text += "model Comp\n  Pin p;\n  Pin n;\n  Real x;\n" + ("equation\n" + "".join(f"  {e};\n" for e in comp_eqs) if comp_eqs else "") + "end Comp;\n"
    con = "".join(f"  connect({a}, {b});\n" for a, b in clauses)
    own = "".join(f"  {e};\n" for e in top_eqs)
    body = (own + con) if top_first else (con + own)
    text += "model M\n  Comp a;\n  Comp b;\n  Comp c;\n  Pin P;\n  Pin Q;\n  Real y;\n" + ("equation\n" + body if body else "") + "end M;\n"
    comps = ["a", "b", "c"]
    connectors = [(f"{c}.{p}", True) for c in comps for p in ("p", "n")] + [("P", False), ("Q", False)]
    rows = [linear_row(e, c + ".") for c in comps for e in comp_eqs] + [linear_row(e) for e in top_eqs]
    return {"text": text, "top": "M", "groups": [{"pot": pot, "flo": flo, "connectors": connectors}], "clauses": list(clauses),
            "rows": rows, "vars": [c + ".x" for c in comps] + ["y"]}


# layouts with two connector classes X and Y in one model: name -> (declarations, X spec, Y spec), a spec being
# (potentials, flows, other members, component declaration format, type name of a top-level connector)
_KINDS = "  input Real u;\n  output Real w;\n  parameter Real k;\n  constant Real c = 2;\n"
CLASS_LAYOUTS = {
    # the same short name in two packages, Y with more members / disjoint members / flow and potential swapped / identical
    "pkg-same-name": ("package E\n" + _pin_text("Pin", ["v"], ["i"], "  ") + "  model One\n    Pin p;\n  end One;\nend E;\n"
                      "package T\n" + _pin_text("Pin", ["v", "T"], ["i", "q"], "  ") + "  model One\n    Pin p;\n  end One;\nend T;\n",
                      (["v"], ["i"], [], "E.One {}", "E.Pin"), (["v", "T"], ["i", "q"], [], "T.One {}", "T.Pin")),
    "pkg-disjoint": ("package E\n" + _pin_text("Pin", ["v"], ["i"], "  ") + "  model One\n    Pin p;\n  end One;\nend E;\n"
                     "package T\n" + _pin_text("Pin", ["T"], ["q"], "  ") + "  model One\n    Pin p;\n  end One;\nend T;\n",
                     (["v"], ["i"], [], "E.One {}", "E.Pin"), (["T"], ["q"], [], "T.One {}", "T.Pin")),
    "pkg-swapped-flow": ("package E\n" + _pin_text("Pin", ["v"], ["i"], "  ") + "  model One\n    Pin p;\n  end One;\nend E;\n"
                         "package T\n" + _pin_text("Pin", ["i"], ["v"], "  ") + "  model One\n    Pin p;\n  end One;\nend T;\n",
                         (["v"], ["i"], [], "E.One {}", "E.Pin"), (["i"], ["v"], [], "T.One {}", "T.Pin")),
    "pkg-identical": ("package E\n" + _pin_text("Pin", ["v"], ["i"], "  ") + "  model One\n    Pin p;\n  end One;\nend E;\n"
                      "package T\n" + _pin_text("Pin", ["v"], ["i"], "  ") + "  model One\n    Pin p;\n  end One;\nend T;\n",
                      (["v"], ["i"], [], "E.One {}", "E.Pin"), (["v"], ["i"], [], "T.One {}", "T.Pin")),
    # different names (nothing shared)
    "two-names": (_pin_text("PinA", ["v"], ["i"]) + _pin_text("PinB", ["v", "T"], ["i", "q"])
                  + "model CA\n  PinA p;\nend CA;\nmodel CB\n  PinB p;\nend CB;\n",
                  (["v"], ["i"], [], "CA {}", "PinA"), (["v", "T"], ["i", "q"], [], "CB {}", "PinB")),
    # connector classes declared locally in two models under the same name
    "local-same-name": ("model CA\n" + _pin_text("C", ["v"], ["i"], "  ") + "  C p;\nend CA;\n"
                        "model CB\n" + _pin_text("C", ["v", "T"], ["i", "q"], "  ") + "  C p;\nend CB;\n",
                        (["v"], ["i"], [], "CA {}", "CA.C"), (["v", "T"], ["i", "q"], [], "CB {}", "CB.C")),
    # inherited members; a replaceable connector redeclared in some instances only
    "extends": (_pin_text("Base", ["h"], ["q"]) + _pin_text("Ext", ["z"], ["m"], extends="Base")
                + "model CA\n  Base p;\nend CA;\nmodel CB\n  Ext p;\nend CB;\n",
                (["h"], ["q"], [], "CA {}", "Base"), (["h", "z"], ["q", "m"], [], "CB {}", "Ext")),
    "redeclare": (_pin_text("Base", ["h"], ["q"]) + _pin_text("Ext", ["z"], ["m"], extends="Base")
                  + "model Node\n  replaceable connector port = Base;\n  port p;\nend Node;\n",
                  (["h"], ["q"], [], "Node {}", "Base"), (["h", "z"], ["q", "m"], [], "Node {}(redeclare connector port = Ext)", "Ext")),
    # causal, parameter and constant members next to potential and flow ones
    "member-kinds": (_pin_text("PinA", ["v"], ["i"], other_text=_KINDS) + _pin_text("PinB", ["v"], ["i"])
                     + "model CA\n  PinA p;\nend CA;\nmodel CB\n  PinB p;\nend CB;\n",
                     (["u", "v", "w"], ["i"], ["k", "c"], "CA {}", "PinA"), (["v"], ["i"], [], "CB {}", "PinB")),
}
CLASS_CONNECTORS = (["x1.p", "x2.p", "tx"], ["y1.p", "y2.p", "ty"])


def classes_model(layout, clauses, y_first=False):
    """M with components x1, x2 (connector class X) and y1, y2 (class Y) and top connectors tx, ty;
    y_first declares the Y instances before the X ones."""
    decls, X, Y = CLASS_LAYOUTS[layout]
    dx = "".join("  " + X[3].format(n) + ";\n" for n in ("x1", "x2")) + f"  {X[4]} tx;\n"
    dy = "".join("  " + Y[3].format(n) + ";\n" for n in ("y1", "y2")) + f"  {Y[4]} ty;\n"
    text = decls + "model M\n" + (dy + dx if y_first else dx + dy)
    text += ("equation\n" + "".join(f"  connect({a}, {b});\n" for a, b in clauses) if clauses else "") + "end M;\n"
    groups = [{"pot": s[0], "flo": s[1], "other": s[2], "connectors": [(c, "." in c) for c in cs]}
              for s, cs in zip((X, Y), CLASS_CONNECTORS)]
    return {"text": text, "top": "M", "groups": groups, "clauses": list(clauses), "rows": [], "vars": []}
