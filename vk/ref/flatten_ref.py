"""Hierarchy specs for C07/C08: from ONE Python description of a class library this module prints the
Modelica text and computes the expected flat model directly, by recursive instantiation written from the
Modelica specification (chapter 5 lookup, chapter 7 inheritance and modification) - independent of
pymoca.tree.

Class kinds are printed as given (model, package, connector, type); a connector component is instantiated like
any other component (its own instance is not a flat variable), `flow` is an ordinary prefix that is kept at
every depth.  Connect clauses are not part of the spec language (C09 owns connection sets).

Expressions are nested tuples: ("n", 3) number, ("v", "a.x") variable path relative to the class the
expression is written in, ("+", e1, e2), ("-", e1, e2), ("*", e1, e2), ("neg", e), ("der", ("v", "x")).
A path may end in a literal subscript, ("v", "b.level[2]"): printed as is, it denotes that scalar element.
"""
ELEMENTARY = ("Real", "Integer", "Boolean")


class Comp:
    def __init__(self, name, type, prefixes=(), dims=(), value=None, mods=None):
        self.name, self.type, self.prefixes, self.dims, self.value = name, type, list(prefixes), list(dims), value
        self.mods = dict(mods or {})  # nested modification: {"x": {"start": expr}, "p": {"value": expr}} / {"start": expr}


class Cls:
    def __init__(self, name, kind="model", extends=(), comps=(), eqs=(), nested=(), alias_of=None, alias_mods=None):
        self.name, self.kind = name, kind
        self.extends = [e if isinstance(e, tuple) else (e, {}) for e in extends]  # (base name, mods)
        self.comps, self.eqs, self.nested = list(comps), list(eqs), list(nested)
        self.alias_of = alias_of      # "type V = Real(...)"
        self.alias_mods = dict(alias_mods or {})
        self.parent = None
        for n in self.nested:
            n.parent = self


class Lib:
    def __init__(self, classes):
        self.root = Cls("<root>", nested=classes)
        self.root.parent = None

    # ------------------------------------------------------------------ text
    def text(self):
        return "\n".join(_print_cls(c, 0) for c in self.root.nested) + "\n"

    # ------------------------------------------------------------------ lookup (spec 5.3)
    def lookup(self, name, scope):
        parts = name.split(".")
        s = scope
        while s is not None:
            for n in s.nested:
                if n.name == parts[0]:
                    c = n
                    ok = True
                    for p in parts[1:]:
                        nxt = [m for m in _all_nested(self, c) if m.name == p]
                        if not nxt:
                            ok = False
                            break
                        c = nxt[0]
                    if ok:
                        return c
                    raise KeyError(name)
            s = s.parent
        raise KeyError(name)

    # ------------------------------------------------------------------ expected flat model
    def flatten(self, class_name):
        """-> (variables: {flat name: dict(type, prefixes, dims, attrs)}, equations: [(lhs, rhs)] with
        ("v", flat name) leaves, in instantiation order)."""
        cls = self.lookup(class_name, self.root)
        vars_, eqs = {}, []
        self._inst(cls, "", {}, vars_, eqs, top=True)
        return vars_, eqs

    def _members(self, cls, seen=()):
        """Inherited first, then own (spec 7.1): list of (Comp, declaring class), list of (eq, declaring class),
        and the modifications extends clauses apply to inherited elements (outer = later)."""
        comps, eqs, ext_mods = [], [], []
        for base_name, mods in cls.extends:
            if base_name in ELEMENTARY:
                continue
            base = self.lookup(base_name, cls.parent if cls.parent is not None else self.root) if False else self.lookup(base_name, cls)
            bc, be, bm = self._members(base)
            comps += bc
            eqs += be
            ext_mods += bm
            if mods:
                ext_mods.append((mods, cls))
        comps += [(c, cls) for c in cls.comps]
        eqs += [(e, cls) for e in cls.eqs]
        return comps, eqs, ext_mods

    def _elementary(self, type_name, scope):
        """-> (elementary type, attribute modifications from the type definitions) or None."""
        if type_name in ELEMENTARY:
            return type_name, {}
        c = self.lookup(type_name, scope)
        if c.alias_of is not None:
            r = self._elementary(c.alias_of, c)
            if r is None:
                return None
            t, attrs = r
            attrs = dict(attrs)
            attrs.update({k: (v, "") for k, v in c.alias_mods.items()})
            return t, attrs
        return None

    def _inst(self, cls, prefix, outer_mods, vars_, eqs, top=False):
        """outer_mods: {component name: {attr-or-subcomponent: ...}} coming from the enclosing levels; values
        are (expression, prefix of the scope the expression was written in)."""
        comps, ceqs, ext_mods = self._members(cls)
        # modification environment of this instance: extends-clause mods (inner) overridden by outer mods
        env = {}
        for mods, wcls in ext_mods:
            _merge(env, _scoped(mods, prefix))
        _merge(env, outer_mods)
        for comp, decl in comps:
            name = prefix + comp.name
            own = _scoped(comp.mods, prefix)
            if comp.value is not None:
                own.setdefault("value", (comp.value, prefix))
            mod = dict(own)
            _merge(mod, env.get(comp.name, {}))
            el = self._elementary(comp.type, decl)
            if el is not None:
                t, tattrs = el
                attrs = dict(tattrs)
                for k, v in mod.items():
                    if isinstance(v, tuple):
                        attrs[k] = v
                pf = [p for p in comp.prefixes if top or p not in ("input", "output")]
                vars_[name] = dict(type=t, prefixes=pf, dims=list(comp.dims),
                                   attrs={k: _rename(e, p) for k, (e, p) in attrs.items()})
            else:
                sub = self.lookup(comp.type, decl)
                submods = {k: v for k, v in mod.items() if isinstance(v, dict)}
                self._inst(sub, name + ".", submods, vars_, eqs)
        for (l, r), decl in ceqs:
            eqs.append((_rename(l, prefix), _rename(r, prefix)))


def _all_nested(lib, c):
    out = list(c.nested)
    for base_name, _ in c.extends:
        if base_name not in ELEMENTARY:
            try:
                out += _all_nested(lib, lib.lookup(base_name, c))
            except KeyError:
                pass
    return out


def _scoped(mods, prefix):
    out = {}
    for k, v in mods.items():
        out[k] = _scoped(v, prefix) if isinstance(v, dict) else (v, prefix)
    return out


def _merge(dst, src):
    """src overrides dst (src is the outer modification)."""
    for k, v in src.items():
        if isinstance(v, dict) and isinstance(dst.get(k), dict):
            _merge(dst[k], v)
        elif isinstance(v, dict):
            dst[k] = {}
            _merge(dst[k], v)
        else:
            dst[k] = v


def _rename(e, prefix):
    if e[0] == "v":
        return ("v", prefix + e[1])
    if e[0] == "n":
        return e
    return (e[0],) + tuple(_rename(x, prefix) for x in e[1:])


# ---------------------------------------------------------------------------------------- printing
def expr_text(e):
    k = e[0]
    if k == "n":
        return repr(e[1]) if not isinstance(e[1], bool) else ("true" if e[1] else "false")
    if k == "v":
        return e[1]
    if k == "neg":
        return "(-" + expr_text(e[1]) + ")"
    if k == "der":
        return "der(" + expr_text(e[1]) + ")"
    return "(" + expr_text(e[1]) + " " + k + " " + expr_text(e[2]) + ")"


def mods_text(mods, dotted=False, prefix=""):
    """nested: a(x(start = 1), p = 2)   dotted: a.x.start = 1, a.p = 2"""
    items = []
    for k, v in mods.items():
        if isinstance(v, dict):
            if dotted:
                items += [x for x in mods_text(v, True, prefix + k + ".") if True]
            else:
                items.append(k + "(" + ", ".join(mods_text(v)) + ")")
        elif k == "value" and prefix:
            items.append(prefix[:-1] + " = " + expr_text(v))
        elif k == "value":
            items.append("= " + expr_text(v))  # handled by caller
        else:
            items.append(prefix + k + " = " + expr_text(v))
    return items


def _mods_clause(mods, dotted):
    val = None
    rest = {}
    for k, v in mods.items():
        if k == "value" and not isinstance(v, dict):
            val = v
        else:
            rest[k] = v
    items = []
    for k, v in rest.items():
        if isinstance(v, dict):
            if dotted:
                items += _dotted(v, k + ".")
            else:
                items.append(k + _nested(v))
        else:
            items.append(k + " = " + expr_text(v))
    s = ("(" + ", ".join(items) + ")") if items else ""
    if val is not None:
        s += " = " + expr_text(val)
    return s


def _nested(mods):
    items = []
    val = None
    for k, v in mods.items():
        if isinstance(v, dict):
            items.append(k + _nested(v))
        elif k == "value":
            val = v
        else:
            items.append(k + " = " + expr_text(v))
    s = ("(" + ", ".join(items) + ")") if items else ""
    if val is not None:
        s += " = " + expr_text(val)
    return s


def _dotted(mods, prefix):
    items = []
    for k, v in mods.items():
        if isinstance(v, dict):
            items += _dotted(v, prefix + k + ".")
        elif k == "value":
            items.append(prefix[:-1] + " = " + expr_text(v))
        else:
            items.append(prefix + k + " = " + expr_text(v))
    return items


def _print_cls(c, ind, dotted=False):
    pad = "  " * ind
    if c.alias_of is not None:
        m = ("(" + ", ".join(f"{k} = {expr_text(v)}" for k, v in c.alias_mods.items()) + ")") if c.alias_mods else ""
        return f"{pad}type {c.name} = {c.alias_of}{m};"
    out = [f"{pad}{c.kind} {c.name}"]
    for n in c.nested:
        out.append(_print_cls(n, ind + 1, dotted))
    for b, mods in c.extends:
        out.append(f"{pad}  extends {b}{_mods_clause(mods, getattr(c, 'dotted', dotted))};")
    for k in c.comps:
        pf = " ".join(k.prefixes)
        dims = ("[" + ", ".join(str(d) for d in k.dims) + "]") if k.dims else ""
        m = dict(k.mods)
        if k.value is not None:
            m["value"] = k.value
        out.append(f"{pad}  {pf + ' ' if pf else ''}{k.type} {k.name}{dims}{_mods_clause(m, getattr(c, 'dotted', dotted))};")
    if c.eqs:
        out.append(f"{pad}equation")
        for l, r in c.eqs:
            out.append(f"{pad}  {expr_text(l)} = {expr_text(r)};")
    out.append(f"{pad}end {c.name};")
    return "\n".join(out)
