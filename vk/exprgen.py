"""Expression trees, the Modelica-specification printer (minimal / full / redundant parentheses)
and their z3 meaning - the oracle of C03.  The printer IS the specification: the reference meaning
of print(T) is T.

Grammar levels (Modelica 3.x, B.2.7): or(1) < and(2) < not(3) < relation(4) < additive with optional
leading sign(5) < multiplicative(6) < power(7, non-associative, primaries only) < primary(8);
if-expressions are `expression` (level 0)."""
import itertools

import z3

from .smt import ops

ADD = ["+", "-", ".+", ".-"]
MUL = ["*", "/", ".*", "./"]
POW = ["^", ".^"]
REL = ["<", "<=", ">", ">=", "==", "<>"]


# ---- tree constructors: tuples ----------------------------------------------------------------
def V(n): return ("var", n)
def N(t): return ("num", t)
def Bn(op, l, r): return ("bin", op, l, r)
def Un(op, x): return ("un", op, x)
def Rel(op, l, r): return ("rel", op, l, r)
def Not(x): return ("not", x)
def And(l, r): return ("and", l, r)
def Or(l, r): return ("or", l, r)
def If(c, a, b): return ("if", c, a, b)
def Call(f, *a): return ("call", f) + tuple(a)
def Bool(v): return ("bool", v)


def level(t):
    k = t[0]
    if k in ("var", "num", "call", "bool"):
        return 8
    if k == "bin":
        return 5 if t[1] in ADD else 6 if t[1] in MUL else 7
    if k == "un":
        return 5  # leading sign: only at the start of an arithmetic expression
    if k == "rel":
        return 4
    if k == "not":
        return 3
    if k == "and":
        return 2
    if k == "or":
        return 1
    if k == "if":
        return 0
    raise ValueError(k)


def pr(t, mode="min"):
    """mode: min (minimal parentheses per the specification grammar), full, redundant."""
    def wrap(s):
        return "(" + s + ")"

    def sub(x, need, leading_ok=False):
        """print x where a construct of level >= need is required; a leading-sign expression is
        only allowed un-parenthesised at the start of an arithmetic expression (leading_ok)."""
        s = go(x)
        if mode == "full":
            return wrap(s)
        lv = level(x)
        if x[0] == "un" and not leading_ok:
            return wrap(s)
        if lv < need:
            return wrap(s)
        if mode == "redundant" and lv == 8:
            return wrap(s)
        return s

    def go(t):
        k = t[0]
        if k == "var":
            return t[1]
        if k == "num":
            return t[1]
        if k == "bool":
            return "true" if t[1] else "false"
        if k == "call":
            return t[1] + "(" + ", ".join(go(a) if mode != "full" else wrap(go(a)) for a in t[2:]) + ")"
        if k == "bin":
            op = t[1]
            if op in ADD:   # arithmetic_expression: [add_op] term { add_op term }  (left-assoc)
                return sub(t[2], 5, leading_ok=True) + " " + op + " " + sub(t[3], 6)
            if op in MUL:   # term: factor { mul_op factor }  (left-assoc)
                return sub(t[2], 6) + " " + op + " " + sub(t[3], 7)
            return sub(t[2], 8) + " " + op + " " + sub(t[3], 8)   # factor: primary ^ primary
        if k == "un":       # sign applies to the first *term*
            return t[1] + sub(t[2], 6)
        if k == "rel":      # relation: arithmetic_expression rel_op arithmetic_expression
            return sub(t[2], 5, leading_ok=True) + " " + t[1] + " " + sub(t[3], 5, leading_ok=True)
        if k == "not":      # logical_factor: [not] relation
            return "not " + sub(t[1], 4, leading_ok=True)
        if k == "and":      # logical_term: logical_factor { and logical_factor }
            return sub(t[1], 2, leading_ok=True) + " and " + sub(t[2], 3, leading_ok=True)
        if k == "or":       # logical_expression: logical_term { or logical_term }
            return sub(t[1], 1, leading_ok=True) + " or " + sub(t[2], 2, leading_ok=True)
        if k == "if":
            f = (lambda x: wrap(go(x))) if mode == "full" else go
            return "if " + f(t[1]) + " then " + f(t[2]) + " else " + f(t[3])
        raise ValueError(k)

    s = go(t)
    if mode == "redundant":
        s = "((" + s + "))"
    return s


def meaning(t, env, div):
    """z3 meaning with the same vocabulary as ast2z3 (0/1 Booleans, and = product, or = sum)."""
    k = t[0]
    m = lambda x: meaning(x, env, div)
    if k == "var":
        return env[t[1]]
    if k == "num":
        from fractions import Fraction
        txt = t[1]
        return ops.const(int(txt)) if txt.isdigit() else ops.const(float(txt))
    if k == "bool":
        return ops.const(bool(t[1]))
    if k == "call":
        a = [m(x) for x in t[2:]]
        if t[1] == "max":
            return z3.If(a[0] >= a[1], a[0], a[1])
        if t[1] == "min":
            return z3.If(a[0] <= a[1], a[0], a[1])
        if t[1] == "abs":
            return z3.If(a[0] >= 0, a[0], -a[0])
        return ops.elem(t[1], *a)
    if k == "bin":
        op = t[1].lstrip(".") if len(t[1]) > 1 else t[1]
        a, b = m(t[2]), m(t[3])
        if op == "+":
            return a + b
        if op == "-":
            return a - b
        if op == "*":
            return a * b
        if op == "/":
            return div.div(a, b)
        return ops.z_pow(a, b)
    if k == "un":
        return -m(t[2]) if t[1] == "-" else m(t[2])
    if k == "rel":
        a, b = m(t[2]), m(t[3])
        f = {"<": a < b, "<=": a <= b, ">": a > b, ">=": a >= b, "==": a == b, "<>": a != b}[t[1]]
        return ops.b2r(f)
    if k == "not":
        return z3.If(ops.truthy(m(t[1])), ops.ZERO, ops.ONE)
    if k == "and":
        return m(t[1]) * m(t[2])
    if k == "or":
        return m(t[1]) + m(t[2])
    if k == "if":
        return z3.If(ops.truthy(m(t[1])), m(t[2]), m(t[3]))
    raise ValueError(k)


# ---- enumeration ------------------------------------------------------------------------------
class _Names:
    def __init__(self, names):
        self.it = itertools.cycle(names)

    def __call__(self):
        return next(self.it)


def real_depth1(nv, nb):
    """Real-valued trees of depth <= 1 (one operator over leaves), one representative per kind."""
    out = [lambda: V(nv())]
    out.append(lambda: N("2"))
    out.append(lambda: N("0.5"))
    for op in ["+", "-", "*", "/", "^", ".*", ".+", "./", ".-", ".^"]:
        out.append(lambda op=op: Bn(op, V(nv()), V(nv())))
    out.append(lambda: Un("-", V(nv())))
    out.append(lambda: Un("+", V(nv())))
    out.append(lambda: Call("sin", V(nv())))
    out.append(lambda: Call("max", V(nv()), V(nv())))
    out.append(lambda: If(Rel("<", V(nv()), V(nv())), V(nv()), V(nv())))
    return out


def bool_depth1(nv, nb):
    out = [lambda: V(nb())]
    out.append(lambda: Bool(True))
    for r in REL:
        out.append(lambda r=r: Rel(r, V(nv()), V(nv())))
    out.append(lambda: Not(V(nb())))
    out.append(lambda: And(V(nb()), V(nb())))
    out.append(lambda: Or(V(nb()), V(nb())))
    return out


def trees(tier):
    """(kind, tree): kind 'R' (real valued) or 'B' (Boolean valued).  Depth <= 2 exhaustively over
    operator kinds; thorough adds depth 3 on representatives."""
    RV, BV = ["a", "b", "c", "d", "e", "f"], ["p", "q", "r", "s"]
    res = []

    def fresh():
        return _Names(RV), _Names(BV)

    def r1():
        nv, nb = fresh_names
        return real_depth1(nv, nb)

    nkinds_r = len(real_depth1(*fresh()))
    nkinds_b = len(bool_depth1(*fresh()))
    # binary real operators over all pairs of depth-1 kinds
    for op in ["+", "-", "*", "/", "^", ".*", ".-"]:
        for i in range(nkinds_r):
            for j in range(nkinds_r):
                nv, nb = fresh()
                l = real_depth1(nv, nb)[i]()
                r = real_depth1(nv, nb)[j]()
                res.append(("R", Bn(op, l, r)))
    for op in ["-", "+"]:
        for i in range(nkinds_r):
            nv, nb = fresh()
            res.append(("R", Un(op, real_depth1(nv, nb)[i]())))
    for i in range(nkinds_r):
        nv, nb = fresh()
        res.append(("R", Call("sin", real_depth1(nv, nb)[i]())))
        nv, nb = fresh()
        res.append(("R", Call("max", real_depth1(nv, nb)[i](), real_depth1(nv, nb)[(i + 3) % nkinds_r]())))
    # relations over all pairs
    for rop in REL:
        for i in range(nkinds_r):
            for j in range(nkinds_r):
                if rop not in ("<", "==") and (i + j) % 3:
                    continue
                nv, nb = fresh()
                res.append(("B", Rel(rop, real_depth1(nv, nb)[i](), real_depth1(nv, nb)[j]())))
    # Boolean connectives over all pairs
    for mk in (And, Or):
        for i in range(nkinds_b):
            for j in range(nkinds_b):
                nv, nb = fresh()
                res.append(("B", mk(bool_depth1(nv, nb)[i](), bool_depth1(nv, nb)[j]())))
    for i in range(nkinds_b):
        nv, nb = fresh()
        res.append(("B", Not(bool_depth1(nv, nb)[i]())))
    # if-expressions: condition x branches
    for i in range(nkinds_b):
        for j in range(0, nkinds_r, 1 if tier == "thorough" else 2):
            nv, nb = fresh()
            res.append(("R", If(bool_depth1(nv, nb)[i](), real_depth1(nv, nb)[j](), real_depth1(nv, nb)[(j + 5) % nkinds_r]())))
    # elseif is sugar for nesting in the else branch
    res.append(("R", If(Rel("<", V("a"), V("b")), V("a"), If(Rel("<", V("b"), V("c")), V("b"), V("c")))))
    if tier == "thorough":
        reps = [0, 3, 5, 6, 7, 13, 14, 17]
        for o1, o2 in itertools.product(["+", "-", "*", "/", "^"], repeat=2):
            for i, j, k in itertools.product(reps, repeat=3):
                nv, nb = fresh()
                a, b, c = (real_depth1(nv, nb)[x]() for x in (i, j, k))
                res.append(("R", Bn(o1, Bn(o2, a, b), c)))
                nv, nb = fresh()
                a, b, c = (real_depth1(nv, nb)[x]() for x in (i, j, k))
                res.append(("R", Bn(o1, a, Bn(o2, b, c))))
        for m1, m2 in itertools.product((And, Or), repeat=2):
            for i, j, k in itertools.product(range(nkinds_b), repeat=3):
                nv, nb = fresh()
                a, b, c = (bool_depth1(nv, nb)[x]() for x in (i, j, k))
                res.append(("B", m1(m2(a, b), c)))
                nv, nb = fresh()
                a, b, c = (bool_depth1(nv, nb)[x]() for x in (i, j, k))
                res.append(("B", m1(a, Not(m2(b, c)))))
    return res
