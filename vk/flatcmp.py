"""Compare the flat model produced by the real pymoca.tree.flatten with the expected flat model computed by
vk/ref/flatten_ref.py.  Variable table (names, types, prefixes, dimensions) is compared structurally;
equations and attribute expressions are compared SEMANTICALLY by z3: for all real values of all flat
variables, each flat equation's residual equals (up to sign) the residual of exactly one expected
equation, and each attribute expression equals the expected one."""
import z3

from pymoca import ast, tree, parser
from vk.report import EncodingGap
from vk.smt import equiv
from vk.smt.ast2z3 import Ref

ATTRS = ("value", "start", "min", "max", "nominal", "fixed")


def zexpr(e):
    """expected-expression tuple -> z3 (same variable naming as ast2z3.Ref: Real('<flat name>'), Real('der(<flat name>)'))."""
    k = e[0]
    if k == "n":
        v = e[1]
        if isinstance(v, bool):
            return z3.RealVal(1 if v else 0)
        return z3.RealVal(str(v)) if not isinstance(v, float) else z3.RealVal(repr(v))
    if k == "v":
        return z3.Real(e[1])
    if k == "der":
        return z3.Real("der(%s)" % e[1][1])
    if k == "neg":
        return -zexpr(e[1])
    a, b = zexpr(e[1]), zexpr(e[2])
    return {"+": a + b, "-": a - b, "*": a * b}[k]


def _dims(sym):
    out = []
    for grp in sym.dimensions:
        for d in grp:
            if isinstance(d, ast.Primary):
                if d.value is not None:
                    out.append(d.value)
            else:
                out.append(str(d))
    return out


def _is_default(sym, attr):
    v = getattr(sym, attr)
    if not isinstance(v, ast.Primary):
        return False
    return v.value is None or (attr == "fixed" and v.value is False)


def compare(col, case, text, cls_name, expected_vars, expected_eqs, check_attrs=True, timeout_ms=10000):
    """Runs the real parser + flatten on `text` and records violations in col.  Returns 'ok'/'raise'."""
    t = parser.parse(text, bypass_cache=True)
    if t is None:
        col.harness_error(f"{case}: generated text does not parse")
        return "error"
    try:
        flat = tree.flatten(t, ast.ComponentRef.from_string(cls_name))
    except Exception as e:
        col.violation(case + ":raises:" + type(e).__name__, f"flatten({cls_name}) raises {type(e).__name__}: {str(e)[:140]}",
                      {"model_text": text, "class": cls_name})
        return "raise"
    fc = flat.classes[cls_name]
    # ---- variable table
    got = {n: s for n, s in fc.symbols.items()}
    missing = sorted(set(expected_vars) - set(got))
    extra = sorted(set(got) - set(expected_vars))
    if missing or extra:
        col.violation(case + ":variables", f"flat variables differ: missing {missing[:6]}, unexpected {extra[:6]}", {"model_text": text, "class": cls_name})
        return "ok"
    for n, ev in expected_vars.items():
        s = got[n]
        tn = s.type.name if isinstance(s.type, ast.ComponentRef) else str(getattr(s.type, "name", s.type))
        if tn != ev["type"]:
            col.violation(case + f":type:{n}", f"flat variable {n} has type {tn}, expected {ev['type']}", {"model_text": text, "class": cls_name})
        pf = sorted(p for p in s.prefixes if p != "state")
        if pf != sorted(ev["prefixes"]):
            col.violation(case + f":prefixes:{n}", f"flat variable {n} has prefixes {pf}, expected {sorted(ev['prefixes'])}", {"model_text": text, "class": cls_name})
        if _dims(s) != list(ev["dims"]):
            col.violation(case + f":dims:{n}", f"flat variable {n} has dimensions {_dims(s)}, expected {ev['dims']}", {"model_text": text, "class": cls_name})
    # ---- equations, semantically
    try:
        ref = Ref(flat, cls_name)
        impl = []
        for e in fc.equations:
            impl.append(ref.residual(e))
    except EncodingGap as g:
        col.append("encoding_gaps", f"{case}: {g}")
        return "ok"
    impl_terms = [r for blk in impl for r in blk]
    exp_terms = [zexpr(l) - zexpr(r) for l, r in expected_eqs]
    if len(impl_terms) != len(exp_terms):
        col.violation(case + ":n-equations", f"{len(impl_terms)} flat scalar equations, expected {len(exp_terms)}", {"model_text": text, "class": cls_name})
        return "ok"
    left = list(range(len(exp_terms)))
    for i, it in enumerate(impl_terms):
        hit = None
        for j in left:
            et = exp_terms[j]
            r1, _ = equiv.check(col, [it != et], timeout_ms)
            if r1 == "unsat":
                hit = j
                break
            r2, _ = equiv.check(col, [it != -et], timeout_ms)
            if r2 == "unsat":
                hit = j
                break
            if "unknown" in (r1, r2):
                col.note_inconclusive(f"{case}: equation {i} vs expected {j}: solver unknown")
        if hit is None:
            col.violation(case + f":equation[{i}]", f"flat equation #{i} ({_eqtxt(fc.equations, i)}) matches none of the expected instance equations for all values",
                          {"model_text": text, "class": cls_name, "expected": [f"{l} = {r}" for l, r in expected_eqs][:12]})
        else:
            left.remove(hit)
    # ---- attributes, semantically
    if check_attrs:
        for n, ev in expected_vars.items():
            s = got[n]
            for a in ATTRS:
                exp = ev["attrs"].get(a)
                if exp is None:
                    if not _is_default(s, a):
                        col.violation(case + f":attr:{n}.{a}", f"{n}.{a} is set ({_show(getattr(s, a))}) but no modification applies", {"model_text": text, "class": cls_name})
                    continue
                try:
                    it = ref.ev(getattr(s, a))
                except EncodingGap as g:
                    col.append("encoding_gaps", f"{case}: {n}.{a}: {g}")
                    continue
                except Exception as e:
                    col.violation(case + f":attr:{n}.{a}", f"{n}.{a} = {_show(getattr(s, a))} cannot be evaluated in the flat model ({type(e).__name__}: {str(e)[:60]}), expected {exp}",
                                  {"model_text": text, "class": cls_name})
                    continue
                if isinstance(it, bool):
                    it = z3.RealVal(1 if it else 0)
                if isinstance(it, list):
                    col.append("encoding_gaps", f"{case}: {n}.{a}: array attribute")
                    continue
                if z3.is_bool(it):
                    it = z3.If(it, z3.RealVal(1), z3.RealVal(0))
                r, m = equiv.check(col, [it != zexpr(exp)], timeout_ms)
                if r == "sat":
                    col.violation(case + f":attr:{n}.{a}", f"{n}.{a} = {_show(getattr(s, a))} in the flat model, expected {_etxt(exp)}", {"model_text": text, "class": cls_name})
                elif r == "unknown":
                    col.note_inconclusive(f"{case}: {n}.{a}: solver unknown")
    return "ok"


def _show(node):
    try:
        return str(ast.Node.to_json(node))[:80]
    except Exception:
        return repr(node)[:80]


def _etxt(e):
    from vk.ref.flatten_ref import expr_text
    return expr_text(e)


def _eqtxt(eqs, i):
    try:
        return str(ast.Node.to_json(eqs[i]))[:160] if i < len(eqs) else "?"
    except Exception:
        return "?"
