"""Square systems with a unique solution by construction (triangular: every unknown has a defining
equation in terms of earlier unknowns, inputs, parameters) - the model family of C14 / C15."""
import itertools

BASE = """model S
  parameter Real p = 2;
  parameter Real q = 3 * p;
  constant Real c = 4;
  input Real u;
  Real x(start = 1);
  Real a, b, d, e, f, g, k, z, h;
equation
  der(x) = -p * x + a + k;
  a = b;
  d = -a;
  b = 2 * x + e;
  e = 4;
  f = c * q + u;
  g = d * x + f;
  k = g;
  z = 0;
  0 = 3 * (h - x);
end S;
"""

AFFINE = """model S
  parameter Real p = 2;
  constant Real c = 0.5;
  input Real u;
  Real x(start = 1);
  Real y(start = 0);
  Real a, b, d, e;
equation
  der(x) = -p * x + a;
  der(y) = x - c * y + u;
  a = b;
  b = 2 * x - y + e;
  e = -3;
  d = -b;
initial equation
  x = p;
  y = 2 * c;
end S;
"""

IFELSE = """model S
  parameter Real p = 2;
  input Real u;
  Real x(start = 1);
  Real y1, y2, y3, w;
equation
  der(x) = y3 - x;
  y1 = 2 * x + u;
  if u > p then
    y2 = y1 * 2;
  else
    y2 = y1 - 1;
  end if;
  y3 = y2 + w;
  w = -y1;
end S;
"""

DERALIAS = """model S
  parameter Real p = 2;
  input Real u;
  Real x(start = 1);
  Real s(start = 0);
  Real v, w, m;
equation
  der(x) = v;
  v = -p * x + u;
  w = der(s);
  der(s) = x - s;
  m = -w;
end S;
"""

PARAMALIAS = """model S
  parameter Real p = 2;
  parameter Real q;
  constant Real c = 4;
  input Real u;
  Real x(start = 1);
  Real a, b, d, e;
equation
  der(x) = -x + a + b + d + e;
  a = p;
  b = u;
  d = -c;
  e = x;
end S;
"""


def chain(n, signs, head):
    """alias chain a1 .. an; a1 defined by `head`; a_{i+1} = (+/-) a_i."""
    decl = ", ".join(f"a{i}" for i in range(1, n + 1))
    eqs = [f"  a1 = {head};"]
    for i, s in enumerate(signs, start=1):
        eqs.append(f"  a{i + 1} = {'-' if s < 0 else ''}a{i};")
    return ("model S\n  parameter Real p = 2;\n  input Real u;\n  Real x(start = 1);\n  Real " + decl +
            ";\nequation\n  der(x) = -p * x + a%d;\n" % n + "\n".join(eqs) + "\nend S;\n")


def models(tier):
    ms = [("base", BASE), ("affine", AFFINE), ("ifelse", IFELSE), ("deralias", DERALIAS), ("paramalias", PARAMALIAS)]
    heads = {"expr": "2 * x + u", "state": "x", "input": "u"}
    ns = (2, 3) if tier == "quick" else (2, 3, 4)
    for n in ns:
        for signs in itertools.product((1, -1), repeat=n - 1):
            for hk, h in heads.items():
                if tier == "quick" and hk != "expr" and n > 2:
                    continue
                tag = "".join("+" if s > 0 else "-" for s in signs)
                ms.append((f"chain{n}{tag}:{hk}", chain(n, signs, h)))
    return ms


SIX = ["eliminate_constant_assignments", "replace_constant_values", "replace_parameter_expressions",
       "detect_aliases", "eliminable_variable_expression", "factor_and_simplify_equations"]
ELIM_RE = {"base": "^(g|k|f)$", "ifelse": "^y[123]$", "affine": "^(a|d)$", "deralias": "^(v|m)$", "paramalias": "^(a|e)$"}


def option_sets(model_id, tier):
    out = []
    for bits in itertools.product((False, True), repeat=6):
        o = {}
        for name, b in zip(SIX, bits):
            if not b:
                continue
            if name == "eliminable_variable_expression":
                o[name] = ELIM_RE.get(model_id.split(":")[0], "^a[0-9]$")
                o["expand_mx"] = True
            else:
                o[name] = True
        out.append(o)
    extra = [
        {"resolve_parameter_values": True}, {"replace_constant_expressions": True}, {"replace_parameter_values": True},
        {"replace_parameter_expressions": True, "replace_parameter_values": True, "replace_constant_values": True,
         "replace_constant_expressions": True, "eliminate_constant_assignments": True, "detect_aliases": True},
        {"detect_aliases": True, "allow_derivative_aliases": False},
        {"expand_vectors": True, "detect_aliases": True}, {"expand_vectors": True, "expand_mx": True, "detect_aliases": True},
        {"expand_mx": True}, {"iterative_simplification": True, "detect_aliases": True, "eliminate_constant_assignments": True, "replace_constant_values": True},
    ]
    out += extra
    if model_id in ("affine",) or model_id.startswith("chain"):
        out += [{"reduce_affine_expression": True},
                {"reduce_affine_expression": True, "replace_parameter_values": True, "replace_constant_values": True},
                {"reduce_affine_expression": True, "detect_aliases": True, "replace_parameter_values": True, "replace_constant_values": True,
                 "eliminate_constant_assignments": True}]
    return out
