"""Square systems with a unique solution by construction (triangular: every unknown has a defining
equation in terms of earlier unknowns, inputs, parameters) - the model family of C14 / C15."""
import itertools

BASE = """model S
  parameter Real p = 2;
  parameter Real q = 3 * p;
  constant Real c = 4;
  input Real u;
  Real x(start = 1);
  Real a, b, d, e, f, g, k, z, h;
equation
  der(x) = -p * x + a + k;
  a = b;
  d = -a;
  b = 2 * x + e;
  e = 4;
  f = c * q + u;
  g = d * x + f;
  k = g;
  z = 0;
  0 = 3 * (h - x);
end S;
"""

AFFINE = """model S
  parameter Real p = 2;
  constant Real c = 0.5;
  input Real u;
  Real x(start = 1);
  Real y(start = 0);
  Real a, b, d, e;
equation
  der(x) = -p * x + a;
  der(y) = x - c * y + u;
  a = b;
  b = 2 * x - y + e;
  e = -3;
  d = -b;
initial equation
  x = p;
  y = 2 * c;
end S;
"""

IFELSE = """model S
  parameter Real p = 2;
  input Real u;
  Real x(start = 1);
  Real y1, y2, y3, w;
equation
  der(x) = y3 - x;
  y1 = 2 * x + u;
  if u > p then
    y2 = y1 * 2;
  else
    y2 = y1 - 1;
  end if;
  y3 = y2 + w;
  w = -y1;
end S;
"""

DERALIAS = """model S
  parameter Real p = 2;
  input Real u;
  Real x(start = 1);
  Real s(start = 0);
  Real v, w, m;
equation
  der(x) = v;
  v = -p * x + u;
  w = der(s);
  der(s) = x - s;
  m = -w;
end S;
"""

PARAMALIAS = """model S
  parameter Real p = 2;
  parameter Real q;
  constant Real c = 4;
  input Real u;
  Real x(start = 1);
  Real a, b, d, e;
equation
  der(x) = -x + a + b + d + e;
  a = p;
  b = u;
  d = -c;
  e = x;
end S;
"""


def chain(n, signs, head):
    """alias chain a1 .. an; a1 defined by `head`; a_{i+1} = (+/-) a_i."""
    decl = ", ".join(f"a{i}" for i in range(1, n + 1))
    eqs = [f"  a1 = {head};"]
    for i, s in enumerate(signs, start=1):
        eqs.append(f"  a{i + 1} = {'-' if s < 0 else ''}a{i};")
    return ("model S\n  parameter Real p = 2;\n  input Real u;\n  Real x(start = 1);\n  Real " + decl +
            ";\nequation\n  der(x) = -p * x + a%d;\n" % n + "\n".join(eqs) + "\nend S;\n")


def models(tier):
    ms = [("base", BASE), ("affine", AFFINE), ("ifelse", IFELSE), ("deralias", DERALIAS), ("paramalias", PARAMALIAS)]
    heads = {"expr": "2 * x + u", "state": "x", "input": "u"}
    ns = (2, 3) if tier == "quick" else (2, 3, 4)
    for n in ns:
        for signs in itertools.product((1, -1), repeat=n - 1):
            for hk, h in heads.items():
                if tier == "quick" and hk != "expr" and n > 2:
                    continue
                tag = "".join("+" if s > 0 else "-" for s in signs)
                ms.append((f"chain{n}{tag}:{hk}", chain(n, signs, h)))
    return ms


SIX = ["eliminate_constant_assignments", "replace_constant_values", "replace_parameter_expressions",
       "detect_aliases", "eliminable_variable_expression", "factor_and_simplify_equations"]
ELIM_RE = {"base": "^(g|k|f)$", "ifelse": "^y[123]$", "affine": "^(a|d)$", "deralias": "^(v|m)$", "paramalias": "^(a|e)$"}


def option_sets(model_id, tier):
    out = []
    for bits in itertools.product((False, True), repeat=6):
        o = {}
        for name, b in zip(SIX, bits):
            if not b:
                continue
            if name == "eliminable_variable_expression":
                o[name] = ELIM_RE.get(model_id.split(":")[0], "^a[0-9]$")
                o["expand_mx"] = True
            else:
                o[name] = True
        out.append(o)
    extra = [
        {"resolve_parameter_values": True}, {"replace_constant_expressions": True}, {"replace_parameter_values": True},
        {"replace_parameter_expressions": True, "replace_parameter_values": True, "replace_constant_values": True,
         "replace_constant_expressions": True, "eliminate_constant_assignments": True, "detect_aliases": True},
        {"detect_aliases": True, "allow_derivative_aliases": False},
        {"expand_vectors": True, "detect_aliases": True}, {"expand_vectors": True, "expand_mx": True, "detect_aliases": True},
        {"expand_mx": True}, {"iterative_simplification": True, "detect_aliases": True, "eliminate_constant_assignments": True, "replace_constant_values": True},
    ]
    out += extra
    if model_id in ("affine",) or model_id.startswith("chain"):
        out += [{"reduce_affine_expression": True},
                {"reduce_affine_expression": True, "replace_parameter_values": True, "replace_constant_values": True},
                {"reduce_affine_expression": True, "detect_aliases": True, "replace_parameter_values": True, "replace_constant_values": True,
                 "eliminate_constant_assignments": True}]
    return out


# =================================================================================================
# Extended C14 families (models_ext).  models()/option_sets()/ELIM_RE above stay as they are because
# the C15 harness indexes into them; everything below is reached only through models_ext().
#
# Each entry is (model_id, text, option_sets).  Three classes:
#   link:*    an algebraic alias class tied to TWO non-eliminable variables (state, der-state, input,
#             parameter, constant) - directly or through a signed chain - in several equation orders;
#             plus alias cycles among algebraic variables only (redundant and contradictory).
#   orient:*  the three pattern-matched eliminations (constant assignment, alias, eliminable-variable
#             assignment) with the defining equation written in every orientation
#             (V = E, E = V, V - E = 0, E - V = 0, V + (-E) = 0, -V = -E, scaled, ...).
#   scale:*   affine, badly scaled systems: a coefficient of magnitude 2^-40 .. 2^30 written as a literal,
#             parameter, constant or product in front of a state / der-state / algebraic / input, for
#             reduce_affine_expression with and without numeric substitution of parameters/constants.
# =================================================================================================

def _sg(s, term):
    return ("-" if s < 0 else "") + term


def _tag(signs):
    return "".join("+" if s > 0 else "-" for s in signs)


# ---- link -------------------------------------------------------------------------------------------
LINK_HEADS = {"x": "x", "s": "s", "u": "u", "v": "v", "p": "p", "p2": "p2", "c": "c", "ders": "der(s)"}
LINK_PAIRS_MAIN = [("x", "u"), ("u", "v"), ("x", "s"), ("ders", "u"), ("x", "p")]
LINK_PAIRS_MORE = [("u", "c"), ("p", "p2"), ("p", "c"), ("x", "ders"), ("x", "x"), ("u", "u")]


def link_model(alias_eqs, ydef):
    return ("model S\n  parameter Real p = 2;\n  parameter Real p2 = 2;\n  constant Real c = 2;\n"
            "  input Real u;\n  input Real v;\n  Real x(start = 1);\n  Real s(start = 0);\n  Real a, b, d, y;\n"
            "equation\n  der(x) = -p * x + y;\n  der(s) = x - 3 * s + d;\n  d = 2 * y + u;\n" +
            "".join(f"  {e};\n" for e in alias_eqs) + f"  y = {ydef};\nend S;\n")


def _orders(n, tier):
    perms = list(itertools.permutations(range(n)))
    if tier == "quick":
        keep = {tuple(range(n)), tuple(reversed(range(n)))}
        perms = [p for p in perms if p in keep]
    return perms


def link_models(tier):
    out = []
    for pi, (h1, h2) in enumerate(LINK_PAIRS_MAIN + LINK_PAIRS_MORE):
        main = pi < len(LINK_PAIRS_MAIN)
        thin = tier == "quick" and not main
        H1, H2 = LINK_HEADS[h1], LINK_HEADS[h2]
        # direct: a = +/-H1; a = +/-H2
        for signs in itertools.product((1, -1), repeat=2):
            if thin and signs[0] < 0:
                continue
            eqs = [f"a = {_sg(signs[0], H1)}", f"a = {_sg(signs[1], H2)}"]
            for od in _orders(2, tier):
                out.append((f"link:direct:{h1},{h2}:{_tag(signs)}:o{''.join(map(str, od))}",
                            link_model([eqs[i] for i in od] + ["b = 2 * a - 1"], "3 * a - b + 1")))
        # chain: a = +/-H1; b = +/-H2; a = +/-b  (the last one links the two classes)
        for signs in itertools.product((1, -1), repeat=3):
            if thin and signs not in ((1, 1, 1), (1, -1, -1), (-1, 1, -1)):
                continue
            eqs = [f"a = {_sg(signs[0], H1)}", f"b = {_sg(signs[1], H2)}", f"a = {_sg(signs[2], 'b')}"]
            for od in _orders(3, tier)[:1 if thin else None]:
                out.append((f"link:chain:{h1},{h2}:{_tag(signs)}:o{''.join(map(str, od))}",
                            link_model([eqs[i] for i in od], "3 * a - b + 1")))
    # alias cycles among algebraic variables only: product of signs +1 = redundant (one degree of freedom
    # on both sides), -1 = contradictory (a = b = 0)
    for signs in itertools.product((1, -1), repeat=2):
        eqs = [f"a = {_sg(signs[0], 'b')}", f"a = {_sg(signs[1], 'b')}"]
        out.append((f"link:cycle2:{_tag(signs)}", link_model(eqs, "3 * a - b + 1")))
    for signs in itertools.product((1, -1), repeat=3):
        if tier == "quick" and signs[0] < 0:
            continue
        eqs = [f"a = {_sg(signs[0], 'b')}", f"b = {_sg(signs[1], 'd2')}", f"d2 = {_sg(signs[2], 'a')}"]
        text = link_model(eqs, "3 * a - b + d2 + 1").replace("Real a, b, d, y;", "Real a, b, d, d2, y;")
        out.append((f"link:cycle3:{_tag(signs)}", text))
    return out


def _contradictory(mid):
    return mid.startswith("link:cycle") and mid.split(":")[2].count("-") % 2 == 1


def link_option_sets(mid, tier):
    da = {"detect_aliases": True}
    cyc = mid.startswith("link:cycle")
    six = {k: True for k in SIX if k != "eliminable_variable_expression"}
    six.update({"eliminable_variable_expression": "^y$" if cyc else "^(a|b)$", "expand_mx": True})
    if _contradictory(mid):
        # every option set containing detect_aliases behaves the same on these (known finding): keep the list short
        return [da, six] if mid == "link:cycle2:+-" else [da]
    out = [da, six]
    main = cyc or any(mid.split(":")[2] == f"{a},{b}" for a, b in LINK_PAIRS_MAIN)
    first = cyc or mid.endswith(":o01") or mid.endswith(":o012")
    if tier != "quick" or (main and first):
        out += [dict(da, expand_mx=True),
                dict(da, eliminate_constant_assignments=True, replace_constant_values=True),
                dict(da, allow_derivative_aliases=False),
                dict(da, replace_parameter_values=True, replace_constant_values=True, reduce_affine_expression=True)]
    if tier != "quick" and main:
        out += [dict(da, expand_vectors=True), dict(da, factor_and_simplify_equations=True),
                dict(da, iterative_simplification=True),
                dict(da, eliminable_variable_expression="^y$" if cyc else "^(a|b)$", expand_mx=True)]
    return out


# ---- orient -----------------------------------------------------------------------------------------
# {V} variable, {E} defining expression, {N} its negation; {Ep}/{Np} parenthesised
ORIENT_FORMS = [
    ("V=E", "{V} = {E}"), ("E=V", "{E} = {V}"),
    ("V-E=0", "{V} - {Ep} = 0"), ("E-V=0", "{Ep} - {V} = 0"),
    ("0=V-E", "0 = {V} - {Ep}"), ("0=E-V", "0 = {Ep} - {V}"),
    ("V+N=0", "{V} + {Np} = 0"), ("N+V=0", "{Np} + {V} = 0"),
    ("0=V+N", "0 = {V} + {Np}"),
    ("-V=N", "-{V} = {N}"), ("N=-V", "{N} = -{V}"),
    ("k(V-E)=0", "2 * ({V} - {Ep}) = 0"), ("(V-E)/k=0", "({V} - {Ep}) / 4 = 0"),
    ("kV=kE", "2 * {V} = 2 * {Ep}"), ("-(V-E)=0", "-({V} - {Ep}) = 0"),
]
ORIENT_CONSTS = [("3.0", "-3.0"), ("-0.25", "0.25"), ("0", "0"), ("1.5e-3", "-1.5e-3")]
ORIENT_ELIM_RE = "^g$"


def _fill(form, V, E, N):
    return form.format(V=V, E=E, N=N, Ep=f"({E})", Np=f"({N})")


def orient_model(form, cst, alias_sign):
    E, N = cst
    eqs = [_fill(form, "b", E, N),
           _fill(form, "d", _sg(alias_sign, "e"), _sg(-alias_sign, "e")),
           _fill(form, "g", "3 * x - u", "u - 3 * x")]
    return ("model S\n  parameter Real p = 2;\n  input Real u;\n  Real x(start = 1);\n  Real b, d, e, g, y;\n"
            "equation\n  der(x) = -p * x + y;\n" + "".join(f"  {e};\n" for e in eqs) +
            "  e = 2 * x + u;\n  y = 2 * b + d + g * x + x;\nend S;\n")


def orient_models(tier):
    out = []
    for fname, form in ORIENT_FORMS:
        for ci, cst in enumerate(ORIENT_CONSTS):
            for sgn in (1, -1):
                if tier == "quick" and (ci, sgn) not in ((0, 1), (1, -1), (2, 1)):
                    continue
                out.append((f"orient:{fname}:c={cst[0]}:alias{_tag((sgn,))}", orient_model(form, cst, sgn)))
    return out


def orient_option_sets(mid, tier):
    eve = {"eliminable_variable_expression": ORIENT_ELIM_RE, "expand_mx": True}
    eca, rcv, da, fase = ({"eliminate_constant_assignments": True}, {"replace_constant_values": True},
                          {"detect_aliases": True}, {"factor_and_simplify_equations": True})
    allsix = dict(eve, **{k: True for k in SIX if k != "eliminable_variable_expression"})
    short = [eca, dict(eca, **rcv), da, dict(eve), dict(fase, **eca, **rcv), dict(fase, **da), dict(eca, **rcv, **da), allsix]
    if tier == "quick" or not (mid.endswith(":c=3.0:alias+") or mid.endswith(":c=-0.25:alias-")):
        return short
    out = []
    for bits in itertools.product((False, True), repeat=6):
        o = {}
        for name, b in zip(SIX, bits):
            if b:
                o.update(eve if name == "eliminable_variable_expression" else {name: True})
        if o:
            out.append(o)
    return out + [{"expand_mx": True, "eliminate_constant_assignments": True, "detect_aliases": True},
                  {"iterative_simplification": True, "detect_aliases": True, "eliminate_constant_assignments": True,
                   "replace_constant_values": True}]


# ---- scale ------------------------------------------------------------------------------------------
def _pow2(e):
    return repr(2.0 ** e)


# (tag, small coefficient, big factor): products small * big are exactly 1/4 in binary floating point for the 2^k rows
SCALE_MAGS = [("2^-30", _pow2(-30), _pow2(28)), ("-2.5e-9", "-2.5e-9", "4.0e8"), ("2^-27", _pow2(-27), _pow2(25)),
              ("2^-26", _pow2(-26), _pow2(24)), ("2^-40", _pow2(-40), _pow2(38)), ("2^30", _pow2(30), _pow2(-32)),
              ("1e-12", "1.0e-12", "2.5e11")]
SCALE_WHERE = ["literal", "parameter", "constant", "product"]
SCALE_TARGETS = {"alg": "h", "state": "x", "input": "u", "der": "der(x)"}


def scale_model(where, small, big, target):
    k, c = "1", "1"
    if where == "literal":
        coef = small
    elif where == "parameter":
        k, coef = small, "k"
    elif where == "constant":
        c, coef = small, "c"
    else:  # product of a parameter and a constant
        k, c, coef = small, "0.5", "2 * k * c"
    # NOTE: no initial equations here: reduce_affine_expression on a model that has both equation lists yields
    # residual Functions that cannot be constructed (C15's subject), which would leave nothing to compare.
    return (f"model S\n  parameter Real k = {k};\n  constant Real c = {c};\n  input Real u;\n  Real x(start = 1);\n  Real q, h, w;\n"
            f"equation\n  der(x) = q - x;\n  h = {big} * x + {big} * u + {big};\n  q = {coef} * {target} + 0.5;\n"
            f"  w = q + {coef};\nend S;\n")


def scale_models(tier):
    out = []
    mags = SCALE_MAGS[:2] if tier == "quick" else SCALE_MAGS
    for tag, small, big in mags:
        for where in SCALE_WHERE:
            for tk, target in SCALE_TARGETS.items():
                if tier == "quick" and where == "product" and tk != "alg":
                    continue
                out.append((f"scale:{tag}:{where}:{tk}", scale_model(where, small, big, target)))
    return out


def scale_option_sets(mid, tier):
    raf = {"reduce_affine_expression": True}
    rp, rc = {"replace_parameter_values": True}, {"replace_constant_values": True}
    out = [dict(raf, **rp, **rc), dict(raf, **rp), dict(raf, **rc), raf,
           dict(raf, **rp, **rc, detect_aliases=True, eliminate_constant_assignments=True, expand_mx=True)]
    if tier != "quick":
        out += [dict(raf, replace_parameter_expressions=True, replace_constant_expressions=True, **rp, **rc),
                dict(raf, resolve_parameter_values=True), dict(raf, **rp, **rc, expand_vectors=True),
                dict(raf, **rp, **rc, factor_and_simplify_equations=True), dict(rp, **rc), {"expand_mx": True, **rp, **rc}]
    return out


def models_ext(tier):
    """[(model_id, text, [option sets])] for the link / orient / scale classes."""
    out = []
    for fam, osets in ((link_models, link_option_sets), (orient_models, orient_option_sets), (scale_models, scale_option_sets)):
        for mid, text in fam(tier):
            out.append((mid, text, osets(mid, tier)))
    return out


# ---- ifeq -------------------------------------------------------------------------------------------
# if-equations whose branches are themselves pattern-matched shapes (eliminable-variable assignment, alias,
# constant assignment).  After expand_mx (+ expand_vectors) an if-equation is a sum of if_else_zero terms, which
# eliminable_variable_expression may turn into ONE assignment only when every branch assigns the same variable.
# A branch equation is (variable, defining expression, its negation) - written in the orientation chosen for its
# branch - or a nested if-equation {"if": condition index, "then": [...], "else": [...]}.
# The eliminable regex matches g, k and the elements of gv; h never matches.
IFEQ_ELIM_RE = r"^(g|k|gv\[[12]\])$"
G1, G2, G3 = ("g", "2 * x + u", "-2 * x - u"), ("g", "3 * x - u", "u - 3 * x"), ("g", "x + 4", "-x - 4")
K1, K2, K3 = ("k", "x - 2 * u", "2 * u - x"), ("k", "3 * x - u", "u - 3 * x"), ("k", "5 - x", "x - 5")
H2, GZ = ("h", "3 * x - u", "u - 3 * x"), ("g", "0", "0")
V11, V12 = ("gv[1]", "2 * x + u", "-2 * x - u"), ("gv[1]", "3 * x - u", "u - 3 * x")
V21, V22 = ("gv[2]", "x - 2 * u", "2 * u - x"), ("gv[2]", "5 - x", "x - 5")
GIE = ("g", "(if x < 1 then 2 * x else u)", "(if x < 1 then -2 * x else -u)")
SUM_GK, K_OF_G, H_DEF = "g + k = 11 + x", "k = g + 1", "h = 2 * x - u"
GK_OF_GV = ["g = gv[1]", "k = gv[2] + 1", H_DEF]
# shape -> (blocks (one list of branch equations per if / elseif / else clause), further equations)
IFEQ_SHAPES = {
    "same2": ([[G1], [G2]], [K_OF_G, H_DEF]),                 # the tested shape: both branches assign g
    "diff2": ([[G1], [K2]], [SUM_GK, H_DEF]),                 # branches assign different eliminable variables
    "diff2r": ([[K1], [G2]], [SUM_GK, H_DEF]),                # same, other variable first
    "mixed2": ([[G1], [H2]], ["g + h = 11 + x", K_OF_G]),     # eliminable variable / non-matching variable
    "mixed2r": ([[H2], [G1]], ["g + h = 11 + x", K_OF_G]),
    "zero2": ([[G1], [GZ]], [K_OF_G, H_DEF]),                 # `g = 0` branch (bare-symbol residual)
    "zerodiff2": ([[G1], [("k", "0", "0")]], [SUM_GK, H_DEF]),
    "same3": ([[G1], [G2], [G3]], [K_OF_G, H_DEF]),           # elseif chains
    "diff3": ([[G1], [K2], [G3]], [SUM_GK, H_DEF]),
    "diff3last": ([[G1], [G2], [K3]], [SUM_GK, H_DEF]),
    "block2": ([[G1, K1], [G2, K2]], [H_DEF]),                # two equations per branch, rows aligned
    "block2x": ([[G1, K1], [K2, G2]], [H_DEF]),               # ... rows crossed (row 1: g / k, row 2: k / g)
    "block2h": ([[G1, H2], [G2, ("h", "x + u", "-x - u")]], [K_OF_G]),
    "vec2": ([[V11, V21], [V12, V22]], GK_OF_GV),             # elements of a vector, rows aligned / crossed
    "vec2x": ([[V11, V21], [V22, V12]], GK_OF_GV),
    "nest": ([[{"if": 1, "then": [G1], "else": [G3]}], [G2]], [K_OF_G, H_DEF]),          # nested if-equation
    "nestdiff": ([[{"if": 1, "then": [G1], "else": [K3]}], [G2]], [SUM_GK, H_DEF]),
    "nestdiff2": ([[G1], [{"if": 1, "then": [K2], "else": [G3]}]], [SUM_GK, H_DEF]),
    "ifexpr": ([[GIE], [G2]], [K_OF_G, H_DEF]),               # assigned value is itself an if-expression
    "ifexprdiff": ([[GIE], [K2]], [SUM_GK, H_DEF]),
    # branches that look like aliases / constant assignments (for detect_aliases / eliminate_constant_assignments)
    "aliasx": ([[("g", "x", "-x")], [("g", "-x", "x")]], [K_OF_G, H_DEF]),
    "aliash": ([[("g", "h", "-h")], [("g", "-h", "h")]], [K_OF_G, H_DEF]),
    "aliassame": ([[("g", "h", "-h")], [("g", "h", "-h")]], [K_OF_G, H_DEF]),
    "aliasdiff": ([[("g", "h", "-h")], [("k", "h", "-h")]], [SUM_GK, H_DEF]),
    "constif": ([[("g", "3.0", "-3.0")], [("g", "-0.25", "0.25")]], [K_OF_G, H_DEF]),
    "constdiff": ([[("g", "3.0", "-3.0")], [("k", "3.0", "-3.0")]], [SUM_GK, H_DEF]),
}
IFEQ_CORE = ("same2", "diff2", "diff2r", "mixed2")
# condition tag -> (conditions for the if / elseif (or nested if) clauses, value of the Boolean parameter bp)
IFEQ_CONDS = {
    "bT": (["bp", "u > p"], "true"), "bF": (["bp", "u > p"], "false"), "notbT": (["not bp", "u > p"], "true"),
    "u>p": (["u > p", "x < 1"], "true"), "x<1": (["x < 1", "bp"], "true"), "x<1F": (["x < 1", "bp"], "false"),
    "and": (["bp and u > p", "x < 1"], "true"), "u<=p": (["u <= p", "bp"], "false"),
}
IFEQ_FORMS = [("V=E", "V=E", "V=E"), ("E=V", "V=E", "E=V"), ("V=E", "E=V", "E=V"), ("V-E=0", "0=E-V", "V-E=0"),
              ("V+N=0", "N=-V", "0=V+N"), ("0=V-E", "E-V=0", "-V=N")]


def _ifeq_lines(entries, form, conds, ind):
    out = []
    for e in entries:
        if isinstance(e, dict):
            out.append(f"{ind}if {conds[e['if']]} then")
            out += _ifeq_lines(e["then"], form, conds, ind + "  ")
            out.append(f"{ind}else")
            out += _ifeq_lines(e["else"], form, conds, ind + "  ")
            out.append(f"{ind}end if;")
        else:
            out.append(ind + _fill(form, *e) + ";")
    return out


def ifeq_model(shape, cond, forms):
    blocks, extra = IFEQ_SHAPES[shape]
    conds, bval = IFEQ_CONDS[cond]
    fm = dict(ORIENT_FORMS)
    lines = []
    for bi, block in enumerate(blocks):
        lines.append(f"  if {conds[0]} then" if bi == 0 else (f"  elseif {conds[bi]} then" if bi < len(blocks) - 1 else "  else"))
        lines += _ifeq_lines(block, fm[forms[bi]], conds, "    ")
    lines.append("  end if;")
    return (f"model S\n  parameter Boolean bp = {bval};\n  parameter Real p = 2;\n  input Real u;\n  Real x(start = 1);\n"
            + ("  Real gv[2];\n" if shape.startswith("vec") else "") +
            "  Real g, k, h, y;\nequation\n  der(x) = -p * x + y;\n" + "\n".join(lines) + "\n" +
            "".join(f"  {e};\n" for e in extra) + "  y = g - 2 * k + h + x;\nend S;\n")


def ifeq_models(tier):
    out = []
    quick = tier == "quick"
    for shape, (blocks, _) in IFEQ_SHAPES.items():
        core = shape in IFEQ_CORE
        if quick:
            conds = ["bT", "bF", "u>p"] + (["x<1"] if core else [])
        else:
            conds = list(IFEQ_CONDS) if core else ["bT", "bF", "u>p", "x<1", "and"]
        for cond in conds:
            if quick:
                forms = IFEQ_FORMS[:3] if core and cond in ("bT", "u>p") else IFEQ_FORMS[:1]
            else:
                forms = IFEQ_FORMS if core or cond == "u>p" else IFEQ_FORMS[:2]
            for fr in forms:
                out.append((f"ifeq:{shape}:{cond}:{'/'.join(fr[:len(blocks)])}", ifeq_model(shape, cond, fr)))
    return out


def ifeq_option_sets(mid, tier):
    eve = {"eliminable_variable_expression": IFEQ_ELIM_RE, "expand_mx": True}
    base = dict(eve, expand_vectors=True)
    eca, rcv, da = {"eliminate_constant_assignments": True}, {"replace_constant_values": True}, {"detect_aliases": True}
    allsix = dict(base, **{k: True for k in SIX if k != "eliminable_variable_expression"})
    shape, cond, forms = mid.split(":")[1:4]
    first = set(forms.split("/")) == {"V=E"}
    out = [base, dict(base, **da), eve]
    if first or (tier != "quick" and shape in IFEQ_CORE):
        out += [dict(base, **eca, **rcv), allsix]
        out.append(dict(base, replace_parameter_values=True))
        if shape.startswith("alias"):
            out += [da, dict(da, expand_mx=True, expand_vectors=True)]
        if shape.startswith("const"):
            out += [eca, dict(eca, **rcv, expand_mx=True, expand_vectors=True)]
    if tier != "quick" and (first or shape in IFEQ_CORE):
        out += [dict(base, replace_parameter_expressions=True), dict(base, factor_and_simplify_equations=True),
                dict(base, iterative_simplification=True, **da), {k: v for k, v in allsix.items() if k != "expand_vectors"},
                dict(da, **eca, **rcv), {"expand_mx": True, "expand_vectors": True}, {"expand_vectors": True},
                dict(base, resolve_parameter_values=True)]
    seen, uniq = set(), []
    for o in out:
        key = tuple(sorted(o.items()))
        if key not in seen:
            seen.add(key)
            uniq.append(o)
    return uniq


# ---- cycle ------------------------------------------------------------------------------------------
# alias cycles among algebraic variables only, in every equation order: the order decides through which member
# (canonical or not) of the class built so far the cycle is closed.  Sign product +1 = redundant (one degree of
# freedom on both sides), -1 = contradictory (all members 0).  link:cycle2 / link:cycle3 above have the ring
# shape in its written order only.
def _cycle_eqs(shape, s):
    if shape == "ring":      # a - b - d2 - a
        return [f"a = {_sg(s[0], 'b')}", f"b = {_sg(s[1], 'd2')}", f"d2 = {_sg(s[2], 'a')}"]
    if shape == "star":      # two members tied to b, then to each other
        return [f"a = {_sg(s[0], 'b')}", f"d2 = {_sg(s[1], 'b')}", f"a = {_sg(s[2], 'd2')}"]
    if shape == "sum":       # closing equation written as a sum / difference equal to zero
        return [f"a = {_sg(s[0], 'b')}", f"b = {_sg(s[1], 'd2')}", "a - d2 = 0" if s[2] > 0 else "a + d2 = 0"]
    if shape == "zero":      # all three written in residual form, variable order mixed
        return [f"0 = a {'-' if s[0] > 0 else '+'} b", f"d2 {'-' if s[1] > 0 else '+'} b = 0", f"{_sg(s[2], 'a')} = d2"]
    if shape == "ring4":
        return [f"a = {_sg(s[0], 'b')}", f"b = {_sg(s[1], 'd2')}", f"d2 = {_sg(s[2], 'e2')}", f"e2 = {_sg(s[3], 'a')}"]
    raise ValueError(shape)


def cycle_models(tier):
    out = []
    quick = tier == "quick"
    for shape in ("ring", "star", "sum", "zero", "ring4"):
        n = 4 if shape == "ring4" else 3
        perms = list(itertools.permutations(range(n)))
        for signs in itertools.product((1, -1), repeat=n):
            contra = signs.count(-1) % 2 == 1
            if n == 3:
                orders = perms if (contra or not quick) else [perms[0], perms[-1]]
            elif quick:
                orders = [perms[0], perms[-1]] if contra else []
            else:
                orders = perms if contra else perms[::5]
            for od in orders:
                eqs = _cycle_eqs(shape, signs)
                text = link_model([eqs[i] for i in od], "3 * a - b + d2 + 1" + (" + e2" if n == 4 else ""))
                text = text.replace("Real a, b, d, y;", "Real a, b, d, d2, e2, y;" if n == 4 else "Real a, b, d, d2, y;")
                out.append((f"cycle:{shape}:{_tag(signs)}:o{''.join(map(str, od))}", text))
    return out


def cycle_option_sets(mid, tier):
    da = {"detect_aliases": True}
    six = {k: True for k in SIX if k != "eliminable_variable_expression"}
    six.update({"eliminable_variable_expression": "^y$", "expand_mx": True})
    out = [da]
    identity = mid.endswith(":o012") or mid.endswith(":o0123")
    if identity or tier != "quick":
        out += [six, dict(da, expand_mx=True)]
    if tier != "quick" and identity:
        out += [dict(da, eliminate_constant_assignments=True, replace_constant_values=True), dict(da, iterative_simplification=True),
                dict(da, expand_vectors=True), dict(da, factor_and_simplify_equations=True)]
    return out


def models_ext2(tier):
    """Second-round extended classes, used by C14 only (models_ext() is shared with the C15 harness and stays as it is)."""
    return ([(mid, text, ifeq_option_sets(mid, tier)) for mid, text in ifeq_models(tier)] +
            [(mid, text, cycle_option_sets(mid, tier)) for mid, text in cycle_models(tier)])
