"""Python expression (as emitted by the SymPy backend) -> z3, with Python's own precedence: the
text is parsed by Python's `ast` module, so `a + b * c` means what Python (and hence SymPy) will
compute, `**` is right-associative and binds tighter than a unary minus on its left."""
import ast as pyast

import z3

from ..report import EncodingGap
from . import ops


def py2z3(node, names, div, time_term, der):
    """names: python identifier -> z3 term; der(term_name) -> z3 term of the derivative."""
    def go(n):
        if isinstance(n, pyast.Expression):
            return go(n.body)
        if isinstance(n, pyast.Constant):
            if isinstance(n.value, (int, float, bool)):
                return ops.const(n.value)
            raise EncodingGap(f"python constant {n.value!r}")
        if isinstance(n, pyast.Name):
            if n.id not in names:
                raise EncodingGap(f"python name {n.id} is not a generated symbol")
            return names[n.id]
        if isinstance(n, pyast.Attribute):
            if isinstance(n.value, pyast.Name) and n.value.id == "self" and n.attr == "t":
                return time_term
            raise EncodingGap("attribute " + pyast.dump(n))
        if isinstance(n, pyast.UnaryOp):
            v = go(n.operand)
            if isinstance(n.op, pyast.USub):
                return -v
            if isinstance(n.op, pyast.UAdd):
                return v
            raise EncodingGap("unary op")
        if isinstance(n, pyast.BinOp):
            a, b = go(n.left), go(n.right)
            if isinstance(n.op, pyast.Add):
                return a + b
            if isinstance(n.op, pyast.Sub):
                return a - b
            if isinstance(n.op, pyast.Mult):
                return a * b
            if isinstance(n.op, pyast.Div):
                return div.div(a, b)
            if isinstance(n.op, pyast.Pow):
                return ops.z_pow(a, b)
            raise EncodingGap("binary op " + type(n.op).__name__)
        if isinstance(n, pyast.Call):
            # (x).diff(self.t)
            if isinstance(n.func, pyast.Attribute) and n.func.attr == "diff":
                inner = n.func.value
                if isinstance(inner, pyast.Name):
                    return der(inner.id)
                raise EncodingGap("diff of a non-symbol")
            if isinstance(n.func, pyast.Name):
                args = [go(a) for a in n.args]
                return ops.elem(n.func.id, *args)
            raise EncodingGap("call " + pyast.dump(n.func))
        raise EncodingGap("python node " + type(n).__name__)

    return go(node)


def module_lists(src):
    """Extract from the generated module: eqs (list of expression nodes) and the symbol lists
    self.x/v/c/p/u/y as lists of python identifiers (Matrix([...]) arguments)."""
    mod = pyast.parse(src)
    out = {}
    for node in pyast.walk(mod):
        if isinstance(node, pyast.Assign) and len(node.targets) == 1:
            t = node.targets[0]
            if isinstance(t, pyast.Attribute) and isinstance(t.value, pyast.Name) and t.value.id == "self":
                if t.attr == "eqs" and isinstance(node.value, pyast.List):
                    out["eqs"] = list(node.value.elts)
                elif t.attr in ("x", "v", "c", "p", "u", "y") and isinstance(node.value, pyast.Call):
                    arg = node.value.args[0]
                    out[t.attr] = [pyast.unparse(e) for e in arg.elts]
    return out
