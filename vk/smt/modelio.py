"""Naming of the inputs of a pymoca CasADi Model's functions, and numeric evaluation for replay."""
import casadi as ca
import numpy as np

from ..report import EncodingGap
from .ast2z3 import elem_name


def sym_elem_names(sym):
    """Names of the elements of an MX symbol in vec (column-major) order: x, x[i], x[i,j]."""
    n, m = sym.size1(), sym.size2()
    name = sym.name()
    ms = getattr(sym, "_modelica_shape", None)
    if ms is not None and len(ms) > 0 and isinstance(ms[0], tuple):
        dims = [d for shp in ms for d in shp if d is not None]
    elif ms is not None:
        dims = [d for d in ms if d is not None]
    else:
        dims = [] if (n, m) == (1, 1) else ([n] if m == 1 else [n, m])
    if len(dims) == 0:
        if n * m != 1:
            raise EncodingGap(f"scalar shape but {n}x{m} symbol {name}")
        return [name]
    if len(dims) == 1:
        if n * m != dims[0]:
            raise EncodingGap(f"shape mismatch for {name}")
        return [elem_name(name, (k,)) for k in range(n * m)]
    if len(dims) == 2:
        if (n, m) != tuple(dims):
            raise EncodingGap(f"shape mismatch for {name}: {(n, m)} vs {dims}")
        return [elem_name(name, (k % n, k // n)) for k in range(n * m)]
    raise EncodingGap(f">2-D symbol {name}")


def model_groups(model):
    # NOTE: for an affine-reduced model (reduce_affine_expression) the Function inputs are the
    # anonymous vectors _states_vector, ... which have exactly the sizes and element order of the
    # veccat of the symbols below, so positional naming is still right.
    return [
        [model.time],
        model._symbols(model.states),
        model._symbols(model.der_states),
        model._symbols(model.alg_states),
        model._symbols(model.inputs),
        model._symbols(model.constants),
        model._symbols(model.parameters),
    ]


def model_in_names(model):
    return [[nm for s in g for nm in sym_elem_names(s)] for g in model_groups(model)]


def eval_function(f, in_names, pt, default=0.0):
    """Evaluate a ca.Function numerically at the point {element name: float}."""
    args = []
    for i, names in enumerate(in_names):
        v = np.array([pt.get(nm, default) for nm in names], dtype=float)
        shape = (f.size1_in(i), f.size2_in(i))
        args.append(ca.DM(v).reshape(shape) if len(names) else ca.DM.zeros(*shape))
    res = f.call(args)
    out = []
    for r in res:
        r = ca.DM(r)
        out.append([float(x) for x in np.array(ca.densify(r)).flatten(order="F")])
    return out
