"""Glue used by the Engine-B properties: real pipeline -> z3, reference -> z3, compare, replay."""
import traceback

import casadi as ca
import z3

from pymoca import ast, parser, tree
from pymoca.backends.casadi import generator

from ..report import EncodingGap
from . import equiv, modelio, ops
from .ast2z3 import Ref
from .sx2z3 import sx2z3


def parse_text(text):
    t = parser.parse(text, bypass_cache=True)
    if t is None:
        raise ValueError("syntax error in generated model text")
    return t


def flat_reference(text, cls):
    """Fresh parse + fresh flatten (never shares a tree with the implementation run)."""
    ft = tree.flatten(parse_text(text), ast.ComponentRef.from_string(cls))
    return ft


def real_generate(text, cls, options=None):
    return generator.generate(parse_text(text), cls, dict(options or {}))


def function_terms(f, in_names, div=None):
    zin, zout, div = sx2z3(f, in_names, div)
    return zout, div


def block_sizes(eqs):
    return [int(ca.MX(e).numel()) for e in eqs]


def split(dense, sizes):
    out, k = [], 0
    for n in sizes:
        out.append(dense[k:k + n])
        k += n
    if k != len(dense):
        raise EncodingGap(f"residual length {len(dense)} != sum of blocks {k}")
    return out


def numeric_multiset_differs(f, in_names, out_index, lo, hi, ref_terms, pt, seed=0):
    """Replay: at pt (and perturbed points) compare the real function's block values with the
    reference block's values as multisets.  Returns (differs, detail)."""
    for p in equiv.perturbations(pt, seed):
        try:
            vals = modelio.eval_function(f, in_names, p)[out_index][lo:hi]
            refs = [equiv.z3eval(t, _Default(p)) for t in ref_terms]
        except (ZeroDivisionError, ValueError, OverflowError, KeyError) as e:
            continue
        a, b = sorted(vals), sorted(refs)
        if len(a) != len(b) or any(not equiv.close(x, y) for x, y in zip(a, b)):
            return True, {"point": p, "impl": vals, "ref": refs}
    return False, None


class _Default(dict):
    def __missing__(self, k):
        return 0.0


def compare_residual(rep, model, which, ref, flat_eqs, case, text, extra_assume=(), timeout_ms=10000):
    """Compare model.<which> residual function with the reference residuals of flat_eqs.
    Returns number of blocks compared. Records violations (after numeric replay)."""
    eqs = model.equations if which == "dae" else model.initial_equations
    f = model.dae_residual_function if which == "dae" else model.initial_residual_function
    in_names = modelio.model_in_names(model)
    ref_blocks = [ref.residual(e) for e in flat_eqs]
    ref_blocks = [b for b in ref_blocks if len(b) > 0]
    if f.n_out() == 0:
        if ref_blocks:
            _viol(rep, case + ":" + which, f"{which} residual empty but {len(ref_blocks)} reference equations", text, None)
        return 0
    zout, div = function_terms(f, in_names, ref.div)
    sizes = block_sizes(eqs)
    if len(sizes) != len(ref_blocks) or any(s != len(b) for s, b in zip(sizes, ref_blocks)):
        _viol(rep, case + ":" + which + ":shape",
              f"{which} residual blocks {sizes} differ from reference {[len(b) for b in ref_blocks]}", text, None)
        return 0
    impl_blocks = split(zout[0]["dense"], sizes)
    assume = list(div.nonzero()) + list(extra_assume)
    lo = 0
    for bi, (ib, rb) in enumerate(zip(impl_blocks, ref_blocks)):
        ok, info = equiv.match_block(rep, ib, rb, assume, timeout_ms)
        if ok is None:
            rep.note_inconclusive(f"{case}:{which}[{bi}] solver unknown")
        elif not ok:
            m = info[2] if info[0] == "mismatch" else None
            pt = equiv.point_from_model(m, ib + rb) if m is not None else {}
            differs, detail = numeric_multiset_differs(f, in_names, 0, lo, lo + len(ib), rb, pt)
            if differs:
                _viol(rep, f"{case}:{which}[{bi}]",
                      f"{which} residual block {bi} differs from lhs-rhs of the flat equation", text, detail)
            else:
                rep.note_inconclusive(f"{case}:{which}[{bi}] sat did not replay numerically")
        lo += len(ib)
    return len(impl_blocks)


def _viol(rep, case, what, text, detail):
    rep.violation(case, what, {"model_text": text, "detail": detail})


def compare_functions(rep, fa, fb, in_names, case, text, what, timeout_ms=10000, extra=None):
    """z3: for all inputs, every output element of fa equals that of fb (same order, same shape).
    A sat answer is replayed numerically on the two real Functions before being reported."""
    if fa.n_out() != fb.n_out():
        _viol(rep, f"{case}:{what}:n_out", f"{what}: {fa.n_out()} vs {fb.n_out()} outputs", text, extra)
        return 0
    if [fa.size_in(i) for i in range(fa.n_in())] != [fb.size_in(i) for i in range(fb.n_in())]:
        _viol(rep, f"{case}:{what}:in-shape", f"{what}: input shapes differ", text, extra)
        return 0
    div = ops.Divisors()
    za, _ = function_terms(fa, in_names, div)
    zb, _ = function_terms(fb, in_names, div)
    assume = div.nonzero()
    n = 0
    for o, (a, b) in enumerate(zip(za, zb)):
        if a["shape"] != b["shape"]:
            _viol(rep, f"{case}:{what}:out{o}:shape", f"{what} output {o}: shape {a['shape']} vs {b['shape']}", text, extra)
            continue
        for k, (ta, tb) in enumerate(zip(a["dense"], b["dense"])):
            n += 1
            if ta.get_id() == tb.get_id():
                rep.count("unsat")
                continue
            r, m = equiv.check(rep, assume + [ta != tb], timeout_ms)
            if r == "unknown":
                rep.note_inconclusive(f"{case}:{what}:out{o}[{k}] solver unknown")
            elif r == "sat":
                pt = equiv.point_from_model(m, [ta, tb])
                confirmed = None
                for p in equiv.perturbations(pt, 0):
                    try:
                        va = modelio.eval_function(fa, in_names, p)[o][k]
                        vb = modelio.eval_function(fb, in_names, p)[o][k]
                    except Exception:
                        continue
                    if not equiv.close(va, vb):
                        confirmed = {"point": p, "a": va, "b": vb}
                        break
                if confirmed:
                    _viol(rep, f"{case}:{what}:out{o}[{k}]", f"{what} output {o} element {k} differs between configurations", text,
                          dict(confirmed, **(extra or {})))
                else:
                    rep.note_inconclusive(f"{case}:{what}:out{o}[{k}] sat did not replay numerically")
    return n
