"""Solver queries, block matching and numeric replay for Engine B."""
import math
import random
import time
from fractions import Fraction

import z3

from . import ops

MATH = {
    "sin": math.sin, "cos": math.cos, "tan": math.tan, "asin": math.asin, "acos": math.acos,
    "atan": math.atan, "sinh": math.sinh, "cosh": math.cosh, "tanh": math.tanh, "exp": math.exp,
    "log": math.log, "sqrt": math.sqrt, "floor": math.floor, "ceil": math.ceil, "atan2": math.atan2,
    "pow": math.pow, "fmod": math.fmod, "log10": math.log10, "asinh": math.asinh,
    "acosh": math.acosh, "atanh": math.atanh, "erf": math.erf, "log1p": math.log1p, "expm1": math.expm1,
}


def check(rep, constraints, timeout_ms=10000):
    """Returns (result_str, model_or_None). Counts the query in the report."""
    s = z3.Solver()
    s.set("timeout", timeout_ms)
    s.add(*constraints)
    t = time.time()
    r = s.check()
    rep.solver_time += time.time() - t
    rs = str(r)
    rep.count(rs)
    return rs, (s.model() if rs == "sat" else None)


def free_consts(term, acc=None, seen=None):
    acc = {} if acc is None else acc
    seen = set() if seen is None else seen
    stack = [term]
    while stack:
        t = stack.pop()
        i = t.get_id()
        if i in seen:
            continue
        seen.add(i)
        if z3.is_const(t) and t.decl().kind() == z3.Z3_OP_UNINTERPRETED:
            acc[t.decl().name()] = t
        else:
            stack.extend(t.children())
    return acc


def point_from_model(model, terms, default=0.0):
    pt = {}
    consts = {}
    for t in terms:
        free_consts(t, consts)
    for name, c in consts.items():
        v = model.eval(c, model_completion=True)
        try:
            if z3.is_rational_value(v):
                pt[name] = float(Fraction(v.numerator_as_long(), v.denominator_as_long()))
            elif z3.is_algebraic_value(v):
                a = v.approx(20)
                pt[name] = float(Fraction(a.numerator_as_long(), a.denominator_as_long()))
            else:
                pt[name] = default
        except Exception:
            pt[name] = default
    return pt


def z3eval(term, pt):
    """Numeric (float) evaluation of a z3 term under true elementary-function semantics."""
    cache = {}

    def ev(t):
        i = t.get_id()
        if i in cache:
            return cache[i]
        k = t.decl().kind()
        ch = t.children()
        if z3.is_rational_value(t):
            r = float(Fraction(t.numerator_as_long(), t.denominator_as_long()))
        elif z3.is_true(t):
            r = True
        elif z3.is_false(t):
            r = False
        elif k == z3.Z3_OP_UNINTERPRETED:
            name = t.decl().name()
            if not ch:
                r = pt[name]
            else:
                r = MATH[name](*[ev(c) for c in ch])
        elif k == z3.Z3_OP_ADD:
            r = sum(ev(c) for c in ch)
        elif k == z3.Z3_OP_SUB:
            vs = [ev(c) for c in ch]
            r = vs[0] - sum(vs[1:])
        elif k == z3.Z3_OP_MUL:
            r = 1.0
            for c in ch:
                r *= ev(c)
        elif k in (z3.Z3_OP_DIV, z3.Z3_OP_IDIV):
            r = ev(ch[0]) / ev(ch[1])
        elif k == z3.Z3_OP_UMINUS:
            r = -ev(ch[0])
        elif k == z3.Z3_OP_POWER:
            r = math.pow(ev(ch[0]), ev(ch[1]))
        elif k == z3.Z3_OP_ITE:
            r = ev(ch[1]) if ev(ch[0]) else ev(ch[2])
        elif k == z3.Z3_OP_LT:
            r = ev(ch[0]) < ev(ch[1])
        elif k == z3.Z3_OP_LE:
            r = ev(ch[0]) <= ev(ch[1])
        elif k == z3.Z3_OP_GT:
            r = ev(ch[0]) > ev(ch[1])
        elif k == z3.Z3_OP_GE:
            r = ev(ch[0]) >= ev(ch[1])
        elif k == z3.Z3_OP_EQ:
            r = ev(ch[0]) == ev(ch[1])
        elif k == z3.Z3_OP_DISTINCT:
            vs = [ev(c) for c in ch]
            r = len(set(vs)) == len(vs)
        elif k == z3.Z3_OP_NOT:
            r = not ev(ch[0])
        elif k == z3.Z3_OP_AND:
            r = all(ev(c) for c in ch)
        elif k == z3.Z3_OP_OR:
            r = any(ev(c) for c in ch)
        elif k == z3.Z3_OP_TO_REAL:
            r = float(ev(ch[0]))
        else:
            raise ValueError(f"z3eval: kind {k} ({t.decl().name()})")
        cache[i] = r
        return r

    return ev(term)


def close(a, b, rtol=1e-9, atol=1e-9):
    if a != a or b != b:
        return (a != a) and (b != b)
    if a == b:
        return True
    if a in (float("inf"), float("-inf")) or b in (float("inf"), float("-inf")):
        return False
    return abs(a - b) <= atol + rtol * max(abs(a), abs(b))


def perturbations(pt, seed, n=2):
    rnd = random.Random(seed)
    yield dict(pt)
    for _ in range(n):
        yield {k: v + rnd.choice([0.37, -0.61, 1.13, 2.5]) for k, v in pt.items()}


def match_block(rep, impl, ref, assumptions, timeout_ms=10000):
    """Match every impl term to a distinct equivalent ref term (permutation inside a block).
    Returns (ok, info). info: for a failure, (impl_index, model, candidate_ref_index)."""
    if len(impl) != len(ref):
        return False, ("size", len(impl), len(ref))
    used = set()
    for i, a in enumerate(impl):
        found = False
        last = None
        order = [i] + [j for j in range(len(ref)) if j != i]
        for j in order:
            if j in used or j >= len(ref):
                continue
            if a.get_id() == ref[j].get_id():
                r, m = "unsat", None
                rep.count("unsat")
            else:
                r, m = check(rep, list(assumptions) + [a != ref[j]], timeout_ms)
            if r == "unsat":
                used.add(j)
                found = True
                break
            if r == "unknown":
                return None, ("unknown", i, j)
            if last is None:
                last = (i, m, j)
        if not found:
            return False, ("mismatch",) + (last or (i, None, None))
    return True, None
