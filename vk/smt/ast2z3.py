"""Reference semantics of pymoca's *flat* AST in z3 (Engine B), written from the Modelica
specification and the 0/1 Boolean encoding named in property C11 (and = product, or = sum).

Values are z3 real terms or nested Python lists of them (arrays, 1-based in the source).
"""
import itertools

import z3

from pymoca import ast

from ..report import EncodingGap
from . import ops

UF1 = {"sin", "cos", "tan", "asin", "acos", "atan", "sinh", "cosh", "tanh", "exp", "log", "sqrt",
       "floor", "ceil", "log10"}
UF2 = {"atan2"}


def elem_name(base, idx):
    return base if not idx else "{}[{}]".format(base, ",".join(str(i + 1) for i in idx))


def make_array(base, dims, mk=z3.Real):
    """Nested lists of z3 constants named base[i,j] (1-based)."""
    def rec(prefix, ds):
        if not ds:
            return mk(elem_name(base, prefix))
        return [rec(prefix + (i,), ds[1:]) for i in range(ds[0])]
    return rec((), list(dims))


def shape_of(v):
    s = []
    while isinstance(v, list):
        s.append(len(v))
        v = v[0] if v else None
    return tuple(s)


def flat_colmajor(v):
    """Elements of a <=2-D nested list in CasADi vec (column-major) order."""
    sh = shape_of(v)
    if len(sh) == 0:
        return [v]
    if len(sh) == 1:
        return list(v)
    if len(sh) == 2:
        return [v[i][j] for j in range(sh[1]) for i in range(sh[0])]
    raise EncodingGap("flat_colmajor: >2-D value")


def flat_any(v):
    if isinstance(v, list):
        out = []
        for e in v:
            out.extend(flat_any(e))
        return out
    return [v]


def emap(fn, *vs):
    """Element-wise application with scalar broadcasting."""
    if not any(isinstance(v, list) for v in vs):
        return fn(*vs)
    n = None
    for v in vs:
        if isinstance(v, list):
            if n is not None and len(v) != n:
                raise EncodingGap("shape mismatch in element-wise operation")
            n = len(v)
    return [emap(fn, *[(v[i] if isinstance(v, list) else v) for v in vs]) for i in range(n)]


def transpose(v):
    sh = shape_of(v)
    if len(sh) == 1:
        return v
    return [[v[i][j] for i in range(sh[0])] for j in range(sh[1])]


def matmul(a, b):
    sa, sb = shape_of(a), shape_of(b)
    if not sa or not sb:
        return emap(lambda x, y: x * y, a, b)
    if len(sa) == 1 and len(sb) == 1:
        return sum((x * y for x, y in zip(a[1:], b[1:])), a[0] * b[0])
    if len(sa) == 2 and len(sb) == 1:
        return [matmul(r, b) for r in a]
    if len(sa) == 1 and len(sb) == 2:
        return [matmul(a, [b[i][j] for i in range(sb[0])]) for j in range(sb[1])]
    if len(sa) == 2 and len(sb) == 2:
        bt = transpose(b)
        return [[matmul(r, c) for c in bt] for r in a]
    raise EncodingGap("matmul rank")


class Multi(list):
    """The tuple of results of a function with several outputs (not an array)."""


class Ref:
    """Evaluator for one flat class."""

    def __init__(self, flat_tree, class_name, param_ints=None):
        self.root = flat_tree
        self.cls = flat_tree.classes[class_name]
        self.div = ops.Divisors()
        self.env = {}
        self.int_vals = dict(param_ints or {})
        self.dims = {}
        self.loop = {}
        self._declare()

    # ---- declarations ------------------------------------------------------------------
    def const_int(self, node):
        """Evaluate a structural integer (dimension, loop bound, subscript) or return None."""
        if node is None:
            return None
        if isinstance(node, ast.Primary):
            v = node.value
            if v is None:
                return None
            if isinstance(v, bool) or not isinstance(v, (int, float)) or int(v) != v:
                return None
            return int(v)
        if isinstance(node, ast.ComponentRef):
            if node.name in self.loop:
                return self.loop[node.name]
            if node.name in self.int_vals:
                return self.int_vals[node.name]
            s = self.cls.symbols.get(node.name)
            if s is not None and ("parameter" in s.prefixes or "constant" in s.prefixes) and \
                    all(i is None for ia in node.indices for i in ia):
                return self.const_int(s.value)
            return None
        if isinstance(node, ast.Expression):
            vs = [self.const_int(o) for o in node.operands]
            if any(v is None for v in vs):
                return None
            op = node.operator
            if len(vs) == 1 and op == "-":
                return -vs[0]
            if len(vs) == 1 and op == "+":
                return vs[0]
            if len(vs) == 2 and op in ("+", "-", "*"):
                return {"+": vs[0] + vs[1], "-": vs[0] - vs[1], "*": vs[0] * vs[1]}[op]
            return None
        return None

    def sym_dims(self, sym):
        out = []
        for dl in sym.dimensions:
            for d in dl:
                if isinstance(d, ast.Primary) and d.value is None:
                    continue
                n = self.const_int(d)
                if n is None:
                    raise EncodingGap(f"dimension of {sym.name} not a structural integer")
                out.append(n)
        return tuple(out)

    def level_counts(self, sym):
        """Number of real dimensions per component level of a flat symbol (a.b[2].c[3,4] -> 0,1,2)."""
        out = []
        for dl in sym.dimensions:
            out.append(len([d for d in dl if not (isinstance(d, ast.Primary) and d.value is None)]))
        return out

    def align(self, name, indices):
        """Align a flat reference's per-level subscripts with the symbol's dimensions."""
        sym = self.cls.symbols.get(name)
        if sym is None:
            return [i for ia in indices for i in ia]
        counts = self.level_counts(sym)
        levels = list(indices)
        if len(levels) > len(counts):
            if all(i is None for ia in levels[len(counts):] for i in ia):
                levels = levels[:len(counts)]
            else:
                raise IndexError(f"too many subscript levels on {name}")
        # a reference with fewer levels than the symbol addresses the innermost levels
        levels = [[None]] * (len(counts) - len(levels)) + levels
        idx = []
        for cnt, ia in zip(counts, levels):
            if len(ia) == 1 and ia[0] is None:
                idx.extend([None] * cnt)
            elif len(ia) > cnt:
                raise IndexError(f"too many subscripts on {name}")
            else:
                idx.extend(list(ia) + [None] * (cnt - len(ia)))
        return idx

    def _declare(self):
        self.env["time"] = z3.Real("time")
        for name, s in self.cls.symbols.items():
            dims = self.sym_dims(s)
            self.dims[name] = dims
            self.env[name] = make_array(name, dims)
            self.env["der(%s)" % name] = make_array("der(%s)" % name, dims)

    # ---- expressions -------------------------------------------------------------------
    def index(self, val, indices, what=""):
        """Apply flattened Modelica subscripts (1-based ints, slices, None=whole) to val."""
        if all(i is None for ia in indices for i in ia):
            return val
        idx = self.align(what, indices)

        def rec(v, ids):
            if not ids:
                return v
            i, rest = ids[0], ids[1:]
            if i is None and not isinstance(v, list):
                return rec(v, rest)
            if not isinstance(v, list):
                raise IndexError(f"subscript on scalar {what}")
            if i is None:
                return [rec(e, rest) for e in v]
            if isinstance(i, ast.Slice):
                a = self.const_int(i.start)
                b = self.const_int(i.stop)
                st = self.const_int(i.step)
                a = 1 if a is None and isinstance(i.start, ast.Primary) and i.start.value is None else a
                b = len(v) if b is None and isinstance(i.stop, ast.Primary) and i.stop.value is None else b
                st = 1 if st is None else st
                if a is None or b is None:
                    raise EncodingGap("non-constant slice bound")
                sel = list(range(a, b + (1 if st > 0 else -1), st))
                for k in sel:
                    if k < 1 or k > len(v):
                        raise IndexError(f"slice element {k} out of 1..{len(v)} {what}")
                return [rec(v[k - 1], rest) for k in sel]
            k = self.const_int(i)
            if k is None:
                raise EncodingGap(f"non-constant subscript {what}")
            if k < 1 or k > len(v):
                raise IndexError(f"subscript {k} out of 1..{len(v)} {what}")
            return rec(v[k - 1], rest)

        return rec(val, idx)

    def ev(self, e):
        if isinstance(e, bool):
            return ops.const(e)
        if isinstance(e, ast.Primary):
            if isinstance(e.value, (bool, int, float)):
                return ops.const(e.value)
            raise EncodingGap(f"non-numeric literal {e.value!r}")
        if isinstance(e, ast.Array):
            return [self.ev(v) for v in e.values]
        if isinstance(e, ast.Symbol):
            return self.env[e.name]
        if isinstance(e, ast.ComponentRef):
            if e.child:
                raise EncodingGap(f"unflattened reference {e}")
            if e.name in self.loop:
                return ops.const(self.loop[e.name])
            if e.name not in self.env:
                raise EncodingGap(f"unknown name {e.name}")
            return self.index(self.env[e.name], e.indices, e.name)
        if isinstance(e, ast.IfExpression):
            r = self.ev(e.expressions[-1])
            for c, x in zip(reversed(e.conditions), reversed(e.expressions[:-1])):
                cv = self.ev(c)
                xv = self.ev(x)
                r = emap(lambda a, b, cv=cv: z3.If(ops.truthy(cv), a, b), xv, r)
            return r
        if isinstance(e, ast.Expression):
            return self.ev_expr(e)
        if isinstance(e, list):
            return [self.ev(x) for x in e]
        raise EncodingGap(f"ast2z3: node {type(e).__name__}")

    def ev_expr(self, e):
        op = e.operator.name if isinstance(e.operator, ast.ComponentRef) else e.operator
        n = len(e.operands)
        if op == "der":
            a = e.operands[0]
            if isinstance(a, ast.ComponentRef) and not a.child:
                return self.index(self.env["der(%s)" % a.name], a.indices, a.name)
            raise EncodingGap("der of expression")
        vs = [self.ev(o) for o in e.operands]
        elementwise = False
        if isinstance(op, str) and op.startswith(".") and len(op) > 1:
            op = op[1:]
            elementwise = True
        if n == 1:
            a = vs[0]
            if op == "-":
                return emap(lambda x: -x, a)
            if op == "+":
                return a
            if op == "not":
                return emap(lambda x: z3.If(ops.truthy(x), ops.ZERO, ops.ONE), a)
            if op == "abs":
                return emap(lambda x: z3.If(x >= 0, x, -x), a)
            if op == "transpose":
                return transpose(a)
            if op == "sum":
                fl = flat_any(a)
                return sum(fl[1:], fl[0])
            if op in UF1:
                return emap(lambda x: ops.elem(op, x), a)
        if n == 2:
            a, b = vs
            if op == "+":
                return emap(lambda x, y: x + y, a, b)
            if op == "-":
                return emap(lambda x, y: x - y, a, b)
            if op == "*":
                if elementwise:
                    return emap(lambda x, y: x * y, a, b)
                return matmul(a, b)
            if op == "/":
                return emap(lambda x, y: self.div.div(x, y), a, b)
            if op == "^":
                return emap(ops.z_pow, a, b)
            if op in ("<", "<=", ">", ">=", "==", "<>"):
                f = {"<": lambda x, y: x < y, "<=": lambda x, y: x <= y, ">": lambda x, y: x > y,
                     ">=": lambda x, y: x >= y, "==": lambda x, y: x == y, "<>": lambda x, y: x != y}[op]
                return emap(lambda x, y: ops.b2r(f(x, y)), a, b)
            if op == "and":
                return emap(lambda x, y: x * y, a, b)
            if op == "or":
                return emap(lambda x, y: x + y, a, b)
            if op == "min":
                return emap(lambda x, y: z3.If(x <= y, x, y), a, b)
            if op == "max":
                return emap(lambda x, y: z3.If(x >= y, x, y), a, b)
            if op in UF2:
                return emap(lambda x, y: ops.elem(op, x, y), a, b)
        if op in self.root.classes and self.root.classes[op].type == "function":
            return self.call(self.root.classes[op], vs)
        raise EncodingGap(f"ast2z3: operator {op!r}/{n}")

    # ---- user functions ----------------------------------------------------------------
    def call(self, fcls, args):
        sub = Ref.__new__(Ref)
        sub.root, sub.cls, sub.div = self.root, fcls, self.div
        sub.env, sub.int_vals, sub.dims, sub.loop = {}, dict(self.int_vals), {}, {}
        inputs = [s for s in fcls.symbols.values() if "input" in s.prefixes]
        outputs = [s for s in fcls.symbols.values() if "output" in s.prefixes]
        if len(inputs) != len(args):
            raise EncodingGap("function arity")
        for s in fcls.symbols.values():
            sub.dims[s.name] = sub.sym_dims(s)
        for s, a in zip(inputs, args):
            sub.env[s.name] = a
        for s in fcls.symbols.values():
            if s.name not in sub.env:
                # unassigned local: a fresh unknown (reading it is outside the supported subset)
                sub.env[s.name] = make_array("__undef_%s_%s" % (fcls.name, s.name), sub.dims[s.name])
        # declaration bindings of locals (flatten appends them as statements whose target is the
        # Symbol itself) are evaluated before the algorithm section (Modelica spec 12.4.4)
        bindings = [st for st in fcls.statements if isinstance(st, ast.AssignmentStatement)
                    and len(st.left) == 1 and isinstance(st.left[0], ast.Symbol)]
        body = [st for st in fcls.statements if not any(st is b for b in bindings)]
        sub.exec_block(bindings)
        sub.exec_block(body)
        outs = [sub.env[s.name] for s in outputs]
        return outs[0] if len(outs) == 1 else Multi(outs)

    def assign(self, ref, val):
        if isinstance(ref, ast.Symbol):
            self.env[ref.name] = val
            return
        if ref.child:
            raise EncodingGap("assignment to nested reference")
        idx = [i for ia in ref.indices for i in ia]
        if all(i is None for i in idx):
            self.env[ref.name] = val
            return
        ks = []
        for i in idx:
            k = self.const_int(i)
            if k is None:
                raise EncodingGap("assignment with non-constant / slice subscript")
            ks.append(k)

        def upd(v, ks):
            if not ks:
                return val
            v = list(v)
            if ks[0] < 1 or ks[0] > len(v):
                raise IndexError("assignment subscript out of range")
            v[ks[0] - 1] = upd(v[ks[0] - 1], ks[1:])
            return v

        self.env[ref.name] = upd(self.env[ref.name], ks)

    def exec_block(self, stmts):
        for st in stmts:
            if isinstance(st, ast.AssignmentStatement):
                val = self.ev(st.right)
                if len(st.left) == 1:
                    self.assign(st.left[0], val)
                else:
                    for r, v in zip(st.left, val):
                        self.assign(r, v)
            elif isinstance(st, ast.IfStatement):
                conds = [self.ev(c) for c in st.conditions[:-1]] if st.conditions[-1] is True else \
                    [self.ev(c) for c in st.conditions]
                base = dict(self.env)
                envs = []
                for blk in st.blocks:
                    self.env = dict(base)
                    self.exec_block(blk)
                    envs.append(self.env)
                if len(envs) == len(conds):
                    envs.append(base)
                merged = dict(envs[-1])
                for c, en in zip(reversed(conds), reversed(envs[:-1])):
                    for k in set(en) | set(merged):
                        a, b = en.get(k, base.get(k)), merged.get(k, base.get(k))
                        if a is b:
                            merged[k] = a
                        else:
                            merged[k] = emap(lambda x, y, c=c: z3.If(ops.truthy(c), x, y), a, b)
                self.env = merged
            elif isinstance(st, ast.ForStatement):
                for k in self.loop_values(st.indices):
                    self.loop.update(k)
                    self.exec_block(st.statements)
                for ix in st.indices:
                    self.loop.pop(ix.name, None)
            else:
                raise EncodingGap(f"statement {type(st).__name__}")

    def loop_values(self, indices):
        ranges = []
        for ix in indices:
            ex = ix.expression
            if not isinstance(ex, ast.Slice):
                raise EncodingGap("for index over non-range")
            a, b, st = self.const_int(ex.start), self.const_int(ex.stop), self.const_int(ex.step)
            st = 1 if st is None else st
            if a is None or b is None or st == 0:
                raise EncodingGap("non-constant loop range")
            ranges.append([(ix.name, k) for k in range(a, b + (1 if st > 0 else -1), st)])
        for combo in itertools.product(*ranges):
            yield dict(combo)

    # ---- equations ---------------------------------------------------------------------
    def residual(self, eq):
        """List of scalar residual terms (lhs - rhs) of one flat equation, any order."""
        if isinstance(eq, ast.Equation):
            l, r = self.ev(eq.left), self.ev(eq.right)
            if isinstance(r, Multi) and not isinstance(eq.left, list):
                # "it is possible to truncate the left hand side list to discard outputs"
                r = r[0]
            sl, sr = shape_of(l), shape_of(r)
            if isinstance(eq.left, list) or isinstance(eq.right, list):
                l = flat_any(l) if isinstance(l, list) else [l]
                r = flat_any(r) if isinstance(r, list) else [r]
                n = min(len(l), len(r))
                return [a - b for a, b in zip(l[:n], r[:n])]
            if sl != sr and sl == sr[::-1] and len(sl) == 2:
                r = transpose(r)
            return flat_any(emap(lambda a, b: a - b, l, r))
        if isinstance(eq, ast.IfEquation):
            blocks = [sum((self.residual(x) for x in blk), []) for blk in eq.blocks]
            conds = eq.conditions
            if len({len(b) for b in blocks}) != 1:
                raise EncodingGap("if-equation branches of different size")
            if conds[-1] is True:
                res = blocks[-1]
                rest = list(zip(conds[:-1], blocks[:-1]))
            else:
                raise EncodingGap("if-equation without else")
            for c, blk in reversed(rest):
                cv = self.ev(c)
                res = [z3.If(ops.truthy(cv), a, b) for a, b in zip(blk, res)]
            return res
        if isinstance(eq, ast.ForEquation):
            out = []
            for k in self.loop_values(eq.indices):
                self.loop.update(k)
                for x in eq.equations:
                    out.extend(self.residual(x))
            for ix in eq.indices:
                self.loop.pop(ix.name, None)
            return out
        raise EncodingGap(f"equation {type(eq).__name__}")
