"""Translate a CasADi Function produced by the real pipeline into z3 terms (Engine B).

The function is expanded to SX (CasADi's own `expand`, trusted) and the SX DAG is walked node by
node.  Inputs are named by position by the caller.  Unknown opcodes raise EncodingGap.
"""
import casadi as ca
import z3

from ..report import EncodingGap
from . import ops

OPN = {getattr(ca, k): k for k in dir(ca) if k.startswith("OP_")}
ELEMENTARY = {
    "OP_SIN": "sin", "OP_COS": "cos", "OP_TAN": "tan", "OP_ASIN": "asin", "OP_ACOS": "acos",
    "OP_ATAN": "atan", "OP_SINH": "sinh", "OP_COSH": "cosh", "OP_TANH": "tanh", "OP_EXP": "exp",
    "OP_LOG": "log", "OP_SQRT": "sqrt", "OP_FLOOR": "floor", "OP_CEIL": "ceil", "OP_ATAN2": "atan2",
    "OP_FMOD": "fmod", "OP_ASINH": "asinh", "OP_ACOSH": "acosh", "OP_ATANH": "atanh",
    "OP_ERF": "erf", "OP_LOG1P": "log1p", "OP_EXPM1": "expm1",
}


def as_sx_function(f):
    """Return an SX version of f (expanding MX functions)."""
    if f.is_a("SXFunction"):
        return f
    return f.expand()


def sx2z3(f, in_names, div=None):
    """f: ca.Function. in_names: per input, list of names for its elements in column-major (vec)
    order.  Returns (zin, zout) where zin[i][k] are z3 Real constants and zout[o] is a list of
    (row, col, term) for the structurally non-zero entries plus a dense column-major list."""
    div = div or ops.Divisors()
    f = as_sx_function(f)
    ins = f.sx_in()
    outs = f.call(ins)
    env = {}
    zin = []
    if len(in_names) != len(ins):
        raise EncodingGap(f"sx2z3: {len(ins)} inputs but {len(in_names)} name groups")
    for a, names in zip(ins, in_names):
        if a.numel() != len(names):
            raise EncodingGap(f"sx2z3: input of {a.numel()} elements but {len(names)} names")
        col = []
        for k in range(a.numel()):
            e = a[k]  # dense inputs: linear (column-major) indexing
            v = z3.Real(names[k])
            env[e.__hash__()] = v
            col.append(v)
        zin.append(col)
    cache = {}

    def tr(e):
        h = e.__hash__()
        if h in cache:
            return cache[h]
        if e.is_symbolic():
            if h not in env:
                raise EncodingGap(f"free SX symbol {e}")
            r = env[h]
        elif e.is_constant():
            r = ops.const(float(e))
        else:
            n = OPN.get(e.op(), str(e.op()))
            d = [tr(e.dep(i)) for i in range(e.n_dep())]
            if n == "OP_ADD":
                r = d[0] + d[1]
            elif n == "OP_SUB":
                r = d[0] - d[1]
            elif n == "OP_MUL":
                r = d[0] * d[1]
            elif n == "OP_DIV":
                r = div.div(d[0], d[1])
            elif n == "OP_NEG":
                r = -d[0]
            elif n == "OP_SQ":
                r = d[0] * d[0]
            elif n == "OP_TWICE":
                r = 2 * d[0]
            elif n == "OP_INV":
                r = div.div(ops.ONE, d[0])
            elif n in ("OP_POW", "OP_CONSTPOW"):
                r = ops.z_pow(d[0], d[1])
            elif n == "OP_LT":
                r = ops.b2r(d[0] < d[1])
            elif n == "OP_LE":
                r = ops.b2r(d[0] <= d[1])
            elif n == "OP_EQ":
                r = ops.b2r(d[0] == d[1])
            elif n == "OP_NE":
                r = ops.b2r(d[0] != d[1])
            elif n == "OP_NOT":
                r = ops.b2r(d[0] == 0)
            elif n == "OP_AND":
                r = ops.b2r(z3.And(d[0] != 0, d[1] != 0))
            elif n == "OP_OR":
                r = ops.b2r(z3.Or(d[0] != 0, d[1] != 0))
            elif n == "OP_IF_ELSE_ZERO":
                r = z3.If(d[0] != 0, d[1], ops.ZERO)
            elif n == "OP_FMIN":
                r = z3.If(d[0] <= d[1], d[0], d[1])
            elif n == "OP_FMAX":
                r = z3.If(d[0] >= d[1], d[0], d[1])
            elif n == "OP_FABS":
                r = z3.If(d[0] >= 0, d[0], -d[0])
            elif n == "OP_SIGN":
                r = z3.If(d[0] > 0, ops.ONE, z3.If(d[0] < 0, -ops.ONE, ops.ZERO))
            elif n in ELEMENTARY:
                r = ops.elem(ELEMENTARY[n], *d)
            else:
                raise EncodingGap(f"sx2z3: opcode {n} not modelled")
        cache[h] = r
        return r

    zout = []
    for o in outs:
        dense = []
        n1, n2 = o.size1(), o.size2()
        for c in range(n2):
            for rr in range(n1):
                if o.sparsity().has_nz(rr, c):
                    dense.append(tr(o[rr, c]))
                else:
                    dense.append(ops.ZERO)
        zout.append({"shape": (n1, n2), "dense": dense})
    return zin, zout, div
