"""Shared z3 vocabulary for both sides of every Engine-B query (reals, 0/1 booleans, UFs)."""
from fractions import Fraction

import z3

ONE = z3.RealVal(1)
ZERO = z3.RealVal(0)
_UF = {}


def uf(name, arity):
    k = (name, arity)
    if k not in _UF:
        _UF[k] = z3.Function(name, *([z3.RealSort()] * (arity + 1)))
    return _UF[k]


def const(v):
    """Exact rational value of a Python int/float/bool (floats by their binary value)."""
    if isinstance(v, bool):
        return ONE if v else ZERO
    if isinstance(v, int):
        return z3.RealVal(v)
    if isinstance(v, float):
        if v != v:
            return z3.Real("__nan__")
        if v in (float("inf"), float("-inf")):
            return z3.Real("__inf__") if v > 0 else -z3.Real("__inf__")
        fr = Fraction(v)
        return z3.RealVal(f"{fr.numerator}/{fr.denominator}")
    raise TypeError(f"const: {type(v)}")


def b2r(b):
    return z3.If(b, ONE, ZERO)


def truthy(r):
    return r != 0


def numeral_int(t):
    t = z3.simplify(t)
    if z3.is_rational_value(t) and t.denominator_as_long() == 1:
        return t.numerator_as_long()
    return None


def z_pow(a, b):
    """Power with the same normalisation on both sides: small integer exponents are products."""
    n = numeral_int(b)
    if n is not None and -4 <= n <= 6:
        if n == 0:
            return ONE
        r = a
        for _ in range(abs(n) - 1):
            r = r * a
        return r if n > 0 else ONE / r
    bs = z3.simplify(b)
    if z3.is_rational_value(bs) and bs.numerator_as_long() == 1 and bs.denominator_as_long() == 2:
        return uf("sqrt", 1)(a)
    return uf("pow", 2)(a, b)


class Divisors:
    """Collects every divisor term so queries can assume definedness (DESIGN 1.1)."""

    def __init__(self):
        self.terms = []

    def div(self, a, b):
        self.terms.append(b)
        return a / b

    def nonzero(self):
        out = []
        seen = set()
        for t in self.terms:
            k = t.get_id()
            if k in seen:
                continue
            seen.add(k)
            if z3.is_rational_value(z3.simplify(t)):
                continue
            out.append(t != 0)
        return out


def elem(name, *args):
    """Elementary function application; even functions drop a syntactic negation of the
    argument on both sides (CasADi rewrites cos(-x) to cos(x))."""
    if name in ("cos", "cosh") and len(args) == 1:
        a = args[0]
        if z3.is_app(a) and a.decl().kind() == z3.Z3_OP_UMINUS:
            a = a.children()[0]
        return uf(name, 1)(a)
    return uf(name, len(args))(*args)
