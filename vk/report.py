"""Common result handling for every check: known findings, replay files, evidence, exit codes.

Exit codes (DESIGN.md 1.2): 0 = held on everything explored (or only KNOWN-FINDINGs),
1 = at least one replayed violation that is not a listed known finding, 3 = harness error /
encoding gap (the encoding no longer matches the source; neither a pass nor a violation).
"""
import argparse
import json
import os
import sys
import time

VERIF = os.path.dirname(os.path.dirname(os.path.abspath(__file__)))
FINDINGS_FILE = os.path.join(VERIF, "known_findings.json")
OUT = os.environ.get("VERIF_OUT", VERIF)  # evidence/ and replays/ go here (scratch dir for seeded-mutation runs)
SCHEMA = "/root/.vp/EVIDENCE.schema.json"


class EncodingGap(Exception):
    """The source uses something the encoding does not model: inconclusive (exit 3)."""


def load_findings(prop):
    try:
        with open(FINDINGS_FILE) as f:
            data = json.load(f)
    except FileNotFoundError:
        return {}
    return {e["case"]: e for e in data.get("findings", []) if e["property"] == prop}


class Report:
    def __init__(self, prop, tier, level, seed=0):
        self.prop = prop
        self.tier = tier
        self.level = level
        self.seed = seed
        self.t0 = time.time()
        self.known = load_findings(prop)
        self.known_seen = {}
        self.violations = []  # (case, what, replay_path)
        self.harness_errors = []
        self.inconclusive = []
        self.coverage = {}
        self.assumptions = []
        self.samples = []
        self.solver_time = 0.0
        self.queries = {"unsat": 0, "sat": 0, "unknown": 0}

    # -- recording -----------------------------------------------------------------------
    def sample(self, s, limit=6):
        if len(self.samples) < limit:
            self.samples.append(s)

    def violation(self, case, what, replay):
        """A violation that has ALREADY been replayed against the real code.
        case: stable identifier of the failing input class; replay: json-able dict."""
        if case in self.known:
            if case not in self.known_seen:
                self.known_seen[case] = what
            return
        if any(c == case for c, _, _ in self.violations):
            return
        if len(self.violations) >= 40:  # keep the output readable; the count stays exact
            self.coverage["violations_not_listed"] = self.coverage.get("violations_not_listed", 0) + 1
            return
        d = os.path.join(OUT, "replays")
        os.makedirs(d, exist_ok=True)
        import hashlib

        safe = "".join(ch if ch.isalnum() or ch in "-_." else "_" for ch in case)[:80]
        safe += "_" + hashlib.sha1(case.encode()).hexdigest()[:8]
        path = os.path.join(d, f"{self.prop}_{safe}.json")
        with open(path, "w") as f:
            json.dump({"property": self.prop, "case": case, "what": what, "replay": replay}, f, indent=1, default=str)
        self.violations.append((case, what, path))

    def harness_error(self, msg):
        self.harness_errors.append(str(msg)[:2000])

    def note_inconclusive(self, msg):
        self.inconclusive.append(str(msg)[:500])

    def count(self, res):
        self.queries[str(res)] = self.queries.get(str(res), 0) + 1

    # -- finishing -----------------------------------------------------------------------
    def finish(self):
        wall = time.time() - self.t0
        cov = dict(self.coverage)
        cov.setdefault("samples", self.samples or ["(none)"])
        cov["solver_queries"] = dict(self.queries)
        cov["solver_time_s"] = round(self.solver_time, 3)
        cov["inconclusive"] = self.inconclusive[:20]
        cov["n_inconclusive"] = len(self.inconclusive)
        cov["known_findings_reproduced"] = sorted(self.known_seen)
        cov["known_findings_not_reproduced"] = sorted(
            c for c, e in self.known.items() if c not in self.known_seen and e.get("status") != "fixed"
        )
        if self.harness_errors:
            cov["harness_errors"] = self.harness_errors[:10]
        ev = {
            "property_id": self.prop,
            "tier": self.tier,
            "seed": self.seed,
            "level": self.level,
            "coverage": cov,
            "assumptions": self.assumptions,
            "wall_s": round(wall, 2),
            "violations": len(self.violations),
        }
        os.makedirs(os.path.join(OUT, "evidence"), exist_ok=True)
        path = os.path.join(OUT, "evidence", f"{self.prop}.json")
        with open(path, "w") as f:
            json.dump(ev, f, indent=1, default=str)
        try:
            import jsonschema

            with open(SCHEMA) as f:
                jsonschema.validate(ev, json.load(f))
        except FileNotFoundError:
            pass
        except Exception as e:  # schema violation is a harness error
            self.harness_errors.append("evidence does not validate: " + str(e)[:300])
        for case, what in sorted(self.known_seen.items()):
            print(f"KNOWN-FINDING: property={self.prop} {case} {what}")
        for case, what, p in self.violations:
            print(f"VIOLATION property={self.prop} replay={p}")
            print(f"  case={case}: {what}")
        q = self.queries
        print(
            f"[{self.prop}] tier={self.tier} wall={wall:.1f}s queries unsat={q.get('unsat',0)} sat={q.get('sat',0)} "
            f"unknown={q.get('unknown',0)} inconclusive={len(self.inconclusive)} violations={len(self.violations)} "
            f"known={len(self.known_seen)} harness_errors={len(self.harness_errors)}"
        )
        for m in self.harness_errors[:10]:
            print("HARNESS-ERROR:", m)
        for m in self.inconclusive[:5]:
            print("INCONCLUSIVE:", m)
        if self.violations:
            return 1
        if self.harness_errors:
            return 3
        return 0


def std_args(prop):
    ap = argparse.ArgumentParser(prog=prop)
    ap.add_argument("--tier", default=os.environ.get("VERIF_TIER", "quick"), choices=["quick", "thorough"])
    ap.add_argument("--replay", default=None)
    ap.add_argument("--jobs", type=int, default=int(os.environ.get("VERIF_JOBS", "16")))
    a = ap.parse_args()
    a.seed = int(os.environ.get("VERIF_SEED", "0") or 0)
    return a


class Collector:
    """Picklable stand-in for Report inside worker processes; merged by Report.merge()."""

    def __init__(self):
        self.violations = []
        self.harness_errors = []
        self.inconclusive = []
        self.queries = {"unsat": 0, "sat": 0, "unknown": 0}
        self.solver_time = 0.0
        self.samples = []
        self.counters = {}
        self.lists = {}

    def violation(self, case, what, replay):
        self.violations.append((case, what, replay))

    def harness_error(self, msg):
        self.harness_errors.append(str(msg)[:2000])

    def note_inconclusive(self, msg):
        self.inconclusive.append(str(msg)[:500])

    def count(self, res):
        self.queries[str(res)] = self.queries.get(str(res), 0) + 1

    def sample(self, s, limit=3):
        if len(self.samples) < limit:
            self.samples.append(s)

    def bump(self, key, n=1):
        self.counters[key] = self.counters.get(key, 0) + n

    def append(self, key, v, limit=50):
        l = self.lists.setdefault(key, [])
        if len(l) < limit:
            l.append(v)


def _merge(self, col):
    for case, what, replay in col.violations:
        self.violation(case, what, replay)
    self.harness_errors.extend(col.harness_errors)
    self.inconclusive.extend(col.inconclusive)
    for k, v in col.queries.items():
        self.queries[k] = self.queries.get(k, 0) + v
    self.solver_time += col.solver_time
    for s in col.samples:
        self.sample(s)
    for k, v in col.counters.items():
        self.coverage[k] = self.coverage.get(k, 0) + v
    for k, v in col.lists.items():
        self.coverage.setdefault(k, [])
        self.coverage[k] = (self.coverage[k] + v)[:50]


Report.merge = _merge


def run_parallel(fn, items, jobs):
    """Map fn over items in worker processes (fork), returning results in order."""
    import multiprocessing as mp

    if jobs <= 1 or len(items) <= 1:
        return [fn(x) for x in items]
    ctx = mp.get_context("fork")
    with ctx.Pool(min(jobs, len(items))) as pool:
        return pool.map(fn, items, chunksize=1)
