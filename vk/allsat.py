"""All models of a small finite-domain constraint, enumerated by z3 (blocking clauses)."""
import z3


def all_models(names, ranges, constraint=None, limit=200000):
    """names: list of str; ranges: dict name -> (lo, hi) inclusive; constraint: callable(dict name->z3 Int) -> z3 Bool.
    Yields tuples of ints in `names` order."""
    vs = {n: z3.Int(n) for n in names}
    s = z3.Solver()
    for n in names:
        lo, hi = ranges[n]
        s.add(vs[n] >= lo, vs[n] <= hi)
    if constraint is not None:
        s.add(constraint(vs))
    out = 0
    while s.check() == z3.sat:
        m = s.model()
        tup = tuple(m.eval(vs[n], model_completion=True).as_long() for n in names)
        yield tup
        out += 1
        if out >= limit:
            raise RuntimeError("all_models: limit exceeded")
        s.add(z3.Or([vs[n] != v for n, v in zip(names, tup)]))
