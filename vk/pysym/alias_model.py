"""Pre-state, invariant, abstraction and obligations for AliasRelation (C17), on top of interp.Machine.

Everything here is specification; the behaviour comes from interpreting the repository's source."""
import z3

from vk.report import EncodingGap
from vk.pysym.interp import Machine, Name, SetRef, Tup, DictRef, ObjRef, b_and, b_or, b_not, zbool, zint, is_z3

from vk.paths import REPO
SRC = REPO + "/src/pymoca/backends/casadi/alias_relation.py"
CLASS = "AliasRelation"
F_AL, F_MAP, F_CAN = "_aliases", "_canonical_variables_map", "_canonical_variables"


def load_source():
    with open(SRC) as f:
        return f.read()


class View:
    """Snapshot of one object's fields + the heap, as z3 terms."""

    def __init__(self, m, obj):
        self.m = m
        U = m.U
        fields = m.objs[obj.idx]
        for f, kind in ((F_AL, DictRef), (F_MAP, DictRef), (F_CAN, SetRef)):
            if f not in fields or not isinstance(fields[f], kind):
                raise EncodingGap(f"field {f} missing or of unexpected kind")
        self.d_al = fields[F_AL].idx
        self.d_map = fields[F_MAP].idx
        self.cells = list(m.cells)
        d0, d1 = m.dicts[fields[F_AL].idx], m.dicts[fields[F_MAP].idx]
        self.p0 = [zbool(p) for p in d0.present]
        self.ref = []
        for k in range(U):
            v = d0.val[k]
            if v is None:
                self.ref.append(z3.IntVal(0))
            elif isinstance(v, SetRef):
                self.ref.append(zint(v.ref))
            else:
                raise EncodingGap("_aliases value is not a set")
        self.p1 = [zbool(p) for p in d1.present]
        self.cb, self.cn, self.cs = [], [], []
        for k in range(U):
            v = d1.val[k]
            if v is None:
                self.cb.append(z3.IntVal(0)); self.cn.append(z3.IntVal(0)); self.cs.append(z3.IntVal(1))
            elif isinstance(v, Tup) and len(v.items) == 2 and isinstance(v.items[0], Name):
                self.cb.append(zint(v.items[0].base)); self.cn.append(zint(v.items[0].n)); self.cs.append(zint(v.items[1]))
            else:
                raise EncodingGap("_canonical_variables_map value is not (name, sign)")
        cref = fields[F_CAN]
        self.canon_ref = cref.ref
        self.canon = m.mux(cref.ref, self.cells) if is_z3(cref.ref) else self.cells[cref.ref]

    def deref(self, r):
        return self.m.mux(r, self.cells)

    def S(self, k):
        return z3.If(self.p0[k], self.deref(self.ref[k]), self.m.single_c(k))

    def S_sym(self, idx):
        return self.m.mux(idx, [self.S(k) for k in range(self.m.U)])


def make_pre(m, tag, extra_cells=2):
    """Symbolic object: heap cells 0..U-1 for alias sets, one for the canonical set, `extra_cells`
    unrelated set objects (the rest of the world, for the frame obligation)."""
    U, N = m.U, m.N
    dom = []
    for r in range(U):
        m.cells.append(z3.BitVec(f"{tag}_h{r}", U))
    canon = m.alloc_set(z3.BitVec(f"{tag}_canon", U))
    extras = [m.alloc_set(z3.BitVec(f"{tag}_x{i}", U)) for i in range(extra_cells)]
    d0 = m.alloc_dict()
    d1 = m.alloc_dict()
    for k in range(U):
        r = z3.Int(f"{tag}_ref{k}")
        dom += [r >= 0, r < U]
        m.dicts[d0.idx].present[k] = z3.Bool(f"{tag}_p0_{k}")
        m.dicts[d0.idx].val[k] = SetRef(r)
        cb, cn, cs = z3.Int(f"{tag}_cb{k}"), z3.Int(f"{tag}_cn{k}"), z3.Int(f"{tag}_cs{k}")
        dom += [cb >= 0, cb < N, cn >= 0, cn <= 1, z3.Or(cs == 1, cs == -1)]
        m.dicts[d1.idx].present[k] = z3.Bool(f"{tag}_p1_{k}")
        m.dicts[d1.idx].val[k] = Tup([Name(cb, cn), cs])
    o = m.alloc_obj()
    # run __init__ first so that fields this model does not know (e.g. a cache added to the class) exist with
    # their initial value; the three known fields are then replaced by the symbolic pre-state
    if "__init__" in m.methods:
        from vk.pysym.interp import Frame
        m.frames.append(Frame())
        try:
            m.call_method(o, "__init__", [])
        finally:
            m.frames.pop()
    m.extra_fields = sorted(k for k in m.objs[o.idx] if k not in (F_AL, F_MAP, F_CAN))
    m.objs[o.idx][F_AL] = d0
    m.objs[o.idx][F_MAP] = d1
    m.objs[o.idx][F_CAN] = canon
    return o, dom, extras


def sym_name(tag, N, dom):
    b, n = z3.Int(f"{tag}_b"), z3.Int(f"{tag}_n")
    dom += [b >= 0, b < N, n >= 0, n <= 1]
    return Name(b, n)


def popcnt_ge2(s):
    return (s & (s - 1)) != 0


def inv(v):
    """Content-based representation invariant; returns a list of (label, formula)."""
    m = v.m
    U = m.U
    out = []
    for k in range(U):
        c = []
        Sk = v.S(k)
        pk = v.p0[k]
        c.append(v.p0[k] == v.p1[k])
        c.append(v.p0[k] == v.p0[k ^ 1])
        c.append(z3.Implies(pk, m.bit(Sk, k)))
        c.append(z3.Implies(pk, popcnt_ge2(Sk)))
        c.append(z3.Implies(pk, v.S(k ^ 1) == m.neg_set(Sk)))
        c.append(z3.Implies(pk, (Sk & m.neg_set(Sk)) == 0))
        out.append((f"inv-class[{k}]", z3.And(c)))
        c = []
        for j in range(U):
            if j == k:
                continue
            hit = z3.And(pk, m.bit(Sk, j))
            c.append(z3.Implies(hit, z3.And(v.p0[j], v.S(j) == Sk)))
            c.append(z3.Implies(hit, z3.And(v.cb[j] == v.cb[k], v.cn[j] == v.cn[k], v.cs[j] == v.cs[k])))
        out.append((f"inv-members[{k}]", z3.And(c)))
        cid = 2 * v.cb[k] + v.cn[k]
        c = [z3.Implies(pk, z3.And(
            v.cn[k] == 0, v.cb[k] >= 0, v.cb[k] < m.N, z3.Or(v.cs[k] == 1, v.cs[k] == -1),
            m.mux(cid, [m.bit(v.canon, i) for i in range(U)]),
            z3.If(v.cs[k] == 1, m.mux(cid, [m.bit(Sk, i) for i in range(U)]),
                  m.mux(cid + 1, [m.bit(Sk, i) for i in range(U)] + [z3.BoolVal(False)])),
            v.cb[k ^ 1] == v.cb[k], v.cn[k ^ 1] == v.cn[k], v.cs[k ^ 1] == -v.cs[k]))]
        out.append((f"inv-canon[{k}]", z3.And(c)))
    c = []
    for i in range(U):
        ex = z3.Or([z3.And(v.p1[k], 2 * v.cb[k] + v.cn[k] == i) for k in range(U)])
        c.append(m.bit(v.canon, i) == ex)
    out.append(("inv-canonset", z3.And(c)))
    return out


def R(v, x, y):
    return v.m.bit(v.S(x), y)


def frame(m, pre, post, obj_pre_view):
    """Set objects of the pre-heap that `self` does not reference are left untouched."""
    U = m.U
    c = []
    for i in range(len(pre.cells)):
        referenced = z3.Or([z3.And(pre.p0[k], pre.ref[k] == i) for k in range(U)] + [zint(pre.canon_ref) == i])
        c.append(z3.Implies(post.cells[i] != pre.cells[i], referenced))
    return z3.And(c)


class Encoding:
    """One operation from an arbitrary invariant-satisfying pre-state."""

    def __init__(self, op, N, order="asc", source=None):
        self.op, self.N = op, N
        src = source if source is not None else load_source()
        m = self.m = Machine(src, CLASS, N, order)
        U = m.U
        self.obj, dom, self.extras = make_pre(m, "s")
        self.pre = View(m, self.obj)
        self.premise = list(dom) + [f for _, f in inv(self.pre)]
        self.goals = []  # (label, formula)
        from vk.pysym.interp import Frame
        m.frames.append(Frame())  # driver frame
        getattr(self, "_op_" + op)()
        m.frames.pop()
        self.no_error = z3.Not(m.error_condition())
        self.goals.insert(0, ("no-exception", self.no_error))
        self.error_kinds = sorted({k for _, k in m.errs})

    # -- helpers
    def _post_common(self, post, with_frame=True):
        for lab, f in inv(post):
            self.goals.append((lab, f))
        if with_frame:
            self.goals.append(("frame", frame(self.m, self.pre, post, self.pre)))
        ok_dicts = self.m.dict_writes <= {self.pre.d_al, self.pre.d_map} | set(range(self._ndicts0, len(self.m.dicts)))
        self.goals.append(("dict-frame", z3.BoolVal(bool(ok_dicts))))

    def _op_add(self):
        m, U = self.m, self.m.U
        self._ndicts0 = len(m.dicts)
        a = sym_name("a", self.N, self.premise)
        b = sym_name("b", self.N, self.premise)
        ia, _ = m.name_id(a)
        ib, _ = m.name_id(b)
        pre = self.pre
        Sa, Sb = pre.S_sym(ia), pre.S_sym(ib)
        # property premise: the history never relates a variable to its own negation
        negb = z3.If(ib % 2 == 0, ib + 1, ib - 1)
        self.premise.append(z3.Not(m.mux(negb, [m.bit(Sa, k) for k in range(U)])))
        self.args = {"a": a, "b": b}
        m.call_method(self.obj, "add", [a, b])
        post = self.post = View(m, self.obj)
        self._post_common(post)
        Sna, Snb = m.neg_set(Sa), m.neg_set(Sb)
        for x in range(U):
            c = []
            for y in range(U):
                want = z3.Or(R(pre, x, y), z3.And(m.bit(Sa, x), m.bit(Sb, y)), z3.And(m.bit(Sb, x), m.bit(Sa, y)),
                             z3.And(m.bit(Sna, x), m.bit(Snb, y)), z3.And(m.bit(Snb, x), m.bit(Sna, y)))
                c.append(R(post, x, y) == want)
            self.goals.append((f"add-spec[{x}]", z3.And(c)))
        self.reach = ([pre.p0[0]] if self.N >= 3 else []) + [z3.Not(m.mux(ib, [m.bit(Sa, k) for k in range(U)]))]

    def _op_remove(self):
        m, U = self.m, self.m.U
        self._ndicts0 = len(m.dicts)
        a = sym_name("a", self.N, self.premise)
        ia, _ = m.name_id(a)
        pre = self.pre
        self.args = {"a": a}
        m.call_method(self.obj, "remove", [a])
        post = self.post = View(m, self.obj)
        self._post_common(post)
        is_canon = m.mux(ia, [m.bit(pre.canon, k) for k in range(U)])
        Sa = pre.S_sym(ia)
        gone = Sa | m.neg_set(Sa)
        for x in range(U):
            c = []
            for y in range(U):
                want = z3.If(z3.And(is_canon, m.bit(gone, x)), z3.BoolVal(x == y), R(pre, x, y))
                c.append(R(post, x, y) == want)
            # classes that survive keep their canonical name and sign
            keep = z3.Not(z3.And(is_canon, m.bit(gone, x)))
            c.append(z3.Implies(z3.And(keep, pre.p1[x]), z3.And(post.p1[x], post.cb[x] == pre.cb[x], post.cn[x] == pre.cn[x], post.cs[x] == pre.cs[x])))
            c.append(z3.Implies(z3.Not(keep), z3.Not(post.p1[x])))
            self.goals.append((f"remove-spec[{x}]", z3.And(c)))
        self.reach = [is_canon]

    def _op_copy(self):
        m, U = self.m, self.m.U
        self._ndicts0 = len(m.dicts)
        pre = self.pre
        ncell0 = len(m.cells)
        self.args = {}
        new = m.call_method(self.obj, "copy", [])
        if not isinstance(new, ObjRef) or new.idx == self.obj.idx:
            raise EncodingGap("copy() does not return a new object")
        src_after = View(m, self.obj)
        cp = self.post = View(m, new)
        for lab, f in inv(cp):
            self.goals.append(("copy-" + lab, f))
        c = []
        for k in range(U):
            c.append(cp.S(k) == pre.S(k))
            c.append(cp.p1[k] == pre.p1[k])
            c.append(z3.Implies(pre.p1[k], z3.And(cp.cb[k] == pre.cb[k], cp.cn[k] == pre.cn[k], cp.cs[k] == pre.cs[k])))
        c.append(cp.canon == pre.canon)
        self.goals.append(("copy-same-relation", z3.And(c)))
        # source untouched (every pre-existing set object, both dicts)
        c = [src_after.cells[i] == pre.cells[i] for i in range(ncell0)]
        for k in range(U):
            c += [src_after.p0[k] == pre.p0[k], src_after.p1[k] == pre.p1[k], z3.Implies(pre.p0[k], src_after.ref[k] == pre.ref[k]),
                  z3.Implies(pre.p1[k], z3.And(src_after.cb[k] == pre.cb[k], src_after.cn[k] == pre.cn[k], src_after.cs[k] == pre.cs[k]))]
        self.goals.append(("copy-source-untouched", z3.And(c)))
        # separation: the copy owns fresh dicts and references only set objects allocated by copy()
        sep = [z3.BoolVal(cp.d_al >= self._ndicts0 and cp.d_map >= self._ndicts0 and cp.d_al != cp.d_map)]
        sep.append(zint(cp.canon_ref) >= ncell0)
        for k in range(U):
            sep.append(z3.Implies(cp.p0[k], cp.ref[k] >= ncell0))
        self.goals.append(("copy-separate", z3.And(sep)))
        self.goals.append(("dict-frame", z3.BoolVal(self.m.dict_writes <= set(range(self._ndicts0, len(m.dicts))))))
        self.reach = [pre.p0[0]]

    def _op_observers(self):
        """aliases / canonical_signed / canonical_variables / __iter__ against the abstraction."""
        m, U = self.m, self.m.U
        self._ndicts0 = len(m.dicts)
        pre = self.pre
        x = sym_name("x", self.N, self.premise)
        y = sym_name("y", self.N, self.premise)
        ix, _ = m.name_id(x)
        iy, _ = m.name_id(y)
        self.args = {"x": x, "y": y}
        r = m.call_method(self.obj, "aliases", [x])
        if not isinstance(r, SetRef):
            raise EncodingGap("aliases() does not return a set")
        Sx = pre.S_sym(ix)
        self.goals.append(("aliases=class", m.deref(r) == Sx))
        cx = m.call_method(self.obj, "canonical_signed", [x])
        cy = m.call_method(self.obj, "canonical_signed", [y])
        for t in (cx, cy):
            if not (isinstance(t, Tup) and len(t.items) == 2 and isinstance(t.items[0], Name)):
                raise EncodingGap("canonical_signed() does not return (name, sign)")
        (nx, sx), (ny, sy) = cx.items, cy.items
        y_in = m.mux(iy, [m.bit(Sx, k) for k in range(U)])
        y_in_neg = m.mux(iy, [m.bit(m.neg_set(Sx), k) for k in range(U)])
        same = z3.And(zint(nx.base) == zint(ny.base), zint(nx.n) == zint(ny.n))
        cidx = 2 * zint(nx.base) + zint(nx.n)
        c = [zint(nx.n) == 0, z3.Or(zint(sx) == 1, zint(sx) == -1),
             z3.Implies(y_in, z3.And(same, zint(sx) == zint(sy))),
             z3.Implies(y_in_neg, z3.And(same, zint(sx) == -zint(sy))),
             z3.If(zint(sx) == 1, m.mux(cidx, [m.bit(Sx, k) for k in range(U)]),
                   m.mux(cidx + 1, [m.bit(Sx, k) for k in range(U)] + [z3.BoolVal(False)]))]
        self.goals.append(("canonical_signed-consistent", z3.And(c)))
        cv = m.call_method(self.obj, "canonical_variables", []) if "canonical_variables" in m.props else m.objs[self.obj.idx][F_CAN]
        if not isinstance(cv, SetRef):
            raise EncodingGap("canonical_variables is not a set")
        want = []
        for i in range(U):
            want.append(m.bit(m.deref(cv), i) == z3.Or([z3.And(pre.p1[k], 2 * pre.cb[k] + pre.cn[k] == i) for k in range(U)]))
        self.goals.append(("canonical_variables=canonicals", z3.And(want)))
        m.call_method(self.obj, "__iter__", [])
        ys = m.last_yields
        # one entry per non-trivial class pair: for every registered key k exactly one yielded entry's
        # canonical name lies in S(k) or S(-k); every entry is (c, S(c) \ {c}) with at least one alias
        c = []
        for g, val in ys:
            if not (isinstance(val, Tup) and len(val.items) == 2 and isinstance(val.items[0], Name) and isinstance(val.items[1], SetRef)):
                raise EncodingGap("__iter__ does not yield (name, set)")
            nm, st = val.items
            i, _ = m.name_id(nm)
            Sc = pre.S_sym(zint(i))
            one = m.mux(zint(i), [m.single_c(k) for k in range(U)])
            c.append(z3.Implies(zbool(g), z3.And(zint(nm.n) == 0, m.deref(st) == (Sc & ~one), m.deref(st) != 0)))
        for k in range(U):
            cnt = z3.Sum([z3.If(z3.And(zbool(g), m.mux(zint(m.name_id(val.items[0])[0]), [m.bit(pre.S(k) | pre.S(k ^ 1), j) for j in range(U)])), 1, 0)
                          for g, val in ys]) if ys else z3.IntVal(0)
            c.append(z3.If(pre.p0[k], cnt == 1, cnt == 0))
        self.goals.append(("iter-one-entry-per-class", z3.And(c)))
        post = self.post = View(m, self.obj)
        # observers do not change the relation
        c = [post.S(k) == pre.S(k) for k in range(U)] + [post.p1[k] == pre.p1[k] for k in range(U)] + [post.canon == pre.canon]
        self.goals.append(("observers-pure", z3.And(c)))
        self.reach = [pre.p0[0], y_in, z3.Not(same) if False else z3.BoolVal(True)]


def empty_ok(N, source=None):
    """Inv(AliasRelation()) - the base case."""
    from vk.pysym.interp import Frame
    m = Machine(source if source is not None else load_source(), CLASS, N)
    m.frames.append(Frame())
    o = m.alloc_obj()
    m.call_method(o, "__init__", [])
    m.frames.pop()
    v = View(m, o)
    return m, [f for _, f in inv(v)] + [z3.Not(m.error_condition())]
