"""Concrete side of C17: executable signed union-find specification, exhaustive exploration of the real
AliasRelation up to state equivalence (replay vehicle and translator validation for Engine C)."""
from collections import deque

BASES = ["a", "b", "c", "d", "e"]


def names(N):
    out = []
    for i in range(N):
        out += [BASES[i], "-" + BASES[i]]
    return out  # index = 2*base + neg


def neg(x):
    return x[1:] if x.startswith("-") else "-" + x


class RefRel:
    """Signed partition: the specification."""

    def __init__(self, universe):
        self.cls = {x: frozenset([x]) for x in universe}

    def copy(self):
        r = RefRel([])
        r.cls = dict(self.cls)
        return r

    def allowed(self, a, b):
        return neg(b) not in self.cls[a]

    def add(self, a, b):
        if b in self.cls[a]:
            return
        pos = self.cls[a] | self.cls[b]
        ng = frozenset(neg(x) for x in pos)
        for x in pos:
            self.cls[x] = pos
        for x in ng:
            self.cls[x] = ng

    def remove_class(self, a):
        for x in self.cls[a] | self.cls[neg(a)]:
            self.cls[x] = frozenset([x])


def observe(r, universe):
    """Everything the public API shows, as plain data."""
    al = {x: frozenset(r.aliases(x)) for x in universe}
    cs = {x: tuple(r.canonical_signed(x)) for x in universe}
    cv = frozenset(r.canonical_variables)
    it = sorted((c, tuple(sorted(s))) for c, s in r)
    return al, cs, cv, it


def check_against(r, ref, universe):
    """-> None or a description of the first disagreement between the real object and the spec."""
    try:
        al, cs, cv, it = observe(r, universe)
    except Exception as e:
        return f"observer raised {type(e).__name__}: {e}"
    for x in universe:
        if al[x] != ref.cls[x]:
            return f"aliases({x}) = {sorted(al[x])}, expected {sorted(ref.cls[x])}"
    canon_expected = set()
    for x in universe:
        c, s = cs[x]
        if c.startswith("-") or s not in (1, -1):
            return f"canonical_signed({x}) = {(c, s)} is not (unsigned name, +-1)"
        signed = c if s == 1 else "-" + c
        if signed not in ref.cls[x]:
            return f"canonical_signed({x}) = {(c, s)} but {signed} is not in the class of {x}"
        for y in ref.cls[x]:
            if cs[y] != (c, s):
                return f"canonical_signed({y}) = {cs[y]} differs from canonical_signed({x}) = {(c, s)} in one class"
        for y in ref.cls[neg(x)]:
            if cs[y] != (c, -s):
                return f"canonical_signed({y}) = {cs[y]} not the negation of canonical_signed({x}) = {(c, s)}"
        if len(ref.cls[x]) > 1:
            canon_expected.add(c)
    if cv != frozenset(canon_expected):
        return f"canonical_variables = {sorted(cv)}, expected {sorted(canon_expected)}"
    if len(it) != len(canon_expected):
        return f"iteration yields {len(it)} entries for {len(canon_expected)} non-trivial classes"
    for c, s in it:
        if c not in canon_expected or frozenset(s) != ref.cls[c] - {c}:
            return f"iteration entry ({c}, {list(s)}) does not match class {sorted(ref.cls[c])}"
    return None


def state_key(r):
    ids = {}
    al = []
    for k in sorted(r._aliases):
        s = r._aliases[k]
        al.append((k, tuple(sorted(s)), ids.setdefault(id(s), len(ids))))
    return (tuple(al), tuple(sorted((k, tuple(v)) for k, v in r._canonical_variables_map.items())),
            tuple(sorted(r._canonical_variables)))


def apply_op(r, ref, op):
    """Applies op to the real object and to the spec.  -> error text or None."""
    kind = op[0]
    try:
        if kind == "add":
            r.add(op[1], op[2])
            ref.add(op[1], op[2])
        elif kind == "remove":
            was = op[1] in r.canonical_variables
            r.remove(op[1])
            if was:
                ref.remove_class(op[1])
    except Exception as e:
        return f"{kind}{op[1:]} raised {type(e).__name__}: {e}"
    return None


def all_ops(ref, universe):
    ops = []
    for a in universe:
        for b in universe:
            if a.lstrip("-") != b.lstrip("-") or a == b:
                if ref.allowed(a, b):
                    ops.append(("add", a, b))
    for a in universe:
        ops.append(("remove", a))
    return ops


def explore(cls, N, max_states=20000, max_depth=12, on_transition=None):
    """BFS over histories of the real class `cls` up to state equivalence.
    Returns dict(states=, transitions=, violation=None | (history, what), complete=bool, witnesses={key: history})."""
    U = names(N)
    r0, ref0 = cls(), RefRel(U)
    seen = {state_key(r0): ()}
    q = deque([(r0, ref0, ())])
    ntrans = 0
    bad = check_against(r0, ref0, U)
    if bad:
        return dict(states=1, transitions=0, violation=((), bad), complete=False, witnesses=seen)
    complete = True
    while q:
        r, ref, hist = q.popleft()
        if len(hist) >= max_depth:
            complete = False
            continue
        # every operation is tried twice from this state: in place (on a structure-preserving clone, so that
        # set objects stay shared exactly as the history left them) and on a copy() of it
        import copy as _copy
        for op in all_ops(ref, U):
            for via_copy in (False, True):
                ntrans += 1
                try:
                    r2, ref2 = (r.copy() if via_copy else _copy.deepcopy(r)), ref.copy()
                except Exception as e:
                    return dict(states=len(seen), transitions=ntrans, violation=(hist + (("copy",),), f"copy raised {type(e).__name__}: {e}"), complete=False, witnesses=seen)
                pre = (("copy",),) if via_copy else ()
                bad = check_against(r2, ref2, U)
                if bad:
                    return dict(states=len(seen), transitions=ntrans, violation=(hist + pre, "copy: " + bad), complete=False, witnesses=seen)
                before = observe(r, U)
                err = apply_op(r2, ref2, op)
                h2 = hist + pre + (op,)
                if err:
                    return dict(states=len(seen), transitions=ntrans, violation=(h2, err), complete=False, witnesses=seen)
                bad = check_against(r2, ref2, U)
                if bad:
                    return dict(states=len(seen), transitions=ntrans, violation=(h2, bad), complete=False, witnesses=seen)
                if via_copy and observe(r, U) != before:
                    return dict(states=len(seen), transitions=ntrans, violation=(h2, "operation on a copy changed the source"), complete=False, witnesses=seen)
                if on_transition is not None and not via_copy:
                    on_transition(r, op, r2)
                if via_copy:
                    # and the other direction: mutate the source of a copy, the copy must not move
                    r3 = _copy.deepcopy(r)
                    r4 = r3.copy()
                    snap = observe(r4, U)
                    apply_op(r3, ref.copy(), op)
                    if observe(r4, U) != snap:
                        return dict(states=len(seen), transitions=ntrans, violation=(hist + (("copy-kept-aside",), op), "operation on the source changed its copy"), complete=False, witnesses=seen)
                k = state_key(r2)
                if k not in seen:
                    if len(seen) >= max_states:
                        complete = False
                        continue
                    seen[k] = h2
                    q.append((r2, ref2, h2))
    return dict(states=len(seen), transitions=ntrans, violation=None, complete=complete, witnesses=seen)


def replay_history(cls, N, hist):
    """Re-runs a history on the real class against the spec. -> None | what"""
    U = names(N)
    r, ref = cls(), RefRel(U)
    stack = []
    aside = None
    for op in hist:
        op = tuple(op)
        if op[0] == "copy":
            stack.append((r, ref.copy(), observe(r, U)))
            r, ref = r.copy(), ref.copy()
        elif op[0] == "copy-kept-aside":
            aside = (r.copy(), None)
            aside = (aside[0], observe(aside[0], U))
        else:
            err = apply_op(r, ref, op)
            if err:
                return err
        bad = check_against(r, ref, U)
        if bad:
            return bad
        for src, sref, snap in stack:
            if observe(src, U) != snap:
                return "operation on a copy changed the source"
        if aside is not None and observe(aside[0], U) != aside[1]:
            return "operation on the source changed its copy"
    return None
