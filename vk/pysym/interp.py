"""Engine C: a symbolic interpreter for the Python AST of pymoca's alias_relation.py.

The source is read from /repo at run time and executed statement by statement over z3 terms with a
*guarded, merged* state (no per-path forking): every update is `If(guard, new, old)`, an early
`return` sets a per-frame flag that masks the rest of the body, loops over sets / dict items are
unrolled over the finite name universe under a membership guard.  Exactly the constructs the file
uses are supported; anything else raises EncodingGap.

Value model
  Name(base, n)   the string "-"*n + NAMES[base]; base, n are python ints or z3 Ints.  Only n in {0, 1}
                  is inside the universe; a name with n >= 2 (or "x"[1:]) sets the `oob` error.
  SetRef(ref)     reference (python int or z3 Int) into the heap of set objects; a set object is a
                  bit-vector over the 2N signed names (bit 2*base + n).  In-place `|=` on a shared
                  object is therefore seen through every reference, as in Python.
  DictRef(i)      concrete identity; a dict is (present[U], value[U]) over the signed names.
  ObjRef(i)       concrete identity; fields are a python dict.
  Tup([...])      tuple;  python/z3 ints and bools;  Str("-");  Char(is_dash).
"""
import ast as pyast

import z3

from vk.report import EncodingGap


class Name:
    def __init__(self, base, n):
        self.base, self.n = base, n

    def __repr__(self):
        return f"Name({self.base},{self.n})"


class SetRef:
    def __init__(self, ref):
        self.ref = ref

    def __repr__(self):
        return f"SetRef({self.ref})"


class DictRef:
    def __init__(self, idx):
        self.idx = idx


class ObjRef:
    def __init__(self, idx):
        self.idx = idx


class Tup:
    def __init__(self, items):
        self.items = list(items)

    def __repr__(self):
        return f"Tup({self.items})"


class Str:
    def __init__(self, s):
        self.s = s


class Char:
    def __init__(self, is_dash):
        self.is_dash = is_dash


class BoundMethod:
    def __init__(self, obj, name):
        self.obj, self.name = obj, name


def is_z3(x):
    return isinstance(x, z3.ExprRef)


def b_and(*xs):
    ys = []
    for x in xs:
        if x is True:
            continue
        if x is False:
            return False
        ys.append(x)
    if not ys:
        return True
    return ys[0] if len(ys) == 1 else z3.And(*ys)


def b_or(*xs):
    ys = []
    for x in xs:
        if x is False:
            continue
        if x is True:
            return True
        ys.append(x)
    if not ys:
        return False
    return ys[0] if len(ys) == 1 else z3.Or(*ys)


def b_not(x):
    if x is True:
        return False
    if x is False:
        return True
    return z3.Not(x)


def zbool(x):
    return z3.BoolVal(x) if isinstance(x, bool) else x


def zint(x):
    return z3.IntVal(x) if isinstance(x, int) else x


def eq(a, b):
    if not is_z3(a) and not is_z3(b):
        return a == b
    return zint(a) == zint(b) if not isinstance(a, bool) and not isinstance(b, bool) else zbool(a) == zbool(b)


def ite(g, a, b):
    """Value-level If(g, a, b); b None means 'previously undefined'."""
    if g is True or b is None:
        return a
    if g is False:
        return b
    if a is None:
        return b
    if isinstance(a, Name) and isinstance(b, Name):
        return Name(ite(g, a.base, b.base), ite(g, a.n, b.n))
    if isinstance(a, SetRef) and isinstance(b, SetRef):
        return SetRef(ite(g, a.ref, b.ref))
    if isinstance(a, Tup) and isinstance(b, Tup) and len(a.items) == len(b.items):
        return Tup([ite(g, x, y) for x, y in zip(a.items, b.items)])
    if isinstance(a, (DictRef, ObjRef)) and type(a) is type(b):
        if a.idx == b.idx:
            return a
        raise EncodingGap("object identity depends on a symbolic condition")
    if isinstance(a, Char) and isinstance(b, Char):
        return Char(ite(g, a.is_dash, b.is_dash))
    if isinstance(a, Str) and isinstance(b, Str) and a.s == b.s:
        return a
    if isinstance(a, bool) or isinstance(b, bool) or z3.is_bool(a) or z3.is_bool(b):
        if a is b:
            return a
        return z3.If(g, zbool(a), zbool(b))
    if isinstance(a, int) or isinstance(b, int) or is_z3(a) or is_z3(b):
        if not is_z3(a) and not is_z3(b) and a == b:
            return a
        return z3.If(g, zint(a), zint(b))
    raise EncodingGap(f"cannot merge values {type(a).__name__} / {type(b).__name__}")


class SDict:
    def __init__(self, U):
        self.present = [False] * U
        self.val = [None] * U

    def clone(self):
        d = SDict(len(self.present))
        d.present = list(self.present)
        d.val = list(self.val)
        return d


class Frame:
    def __init__(self):
        self.env = {}
        self.ret_flag = False
        self.ret_val = None
        self.yields = []


class Machine:
    """Symbolic state + interpreter.  N base names, U = 2N signed names, id = 2*base + n."""

    def __init__(self, source, class_name, N, order="asc"):
        self.N, self.U = N, 2 * N
        self.order = order
        mod = pyast.parse(source)
        self.cls = next(n for n in mod.body if isinstance(n, pyast.ClassDef) and n.name == class_name)
        self.class_name = class_name
        self.methods = {}
        self.props = set()
        for n in self.cls.body:
            if isinstance(n, pyast.FunctionDef):
                self.methods[n.name] = n
                for d in n.decorator_list:
                    if isinstance(d, pyast.Name) and d.id == "property":
                        self.props.add(n.name)
        self.cells = []   # set objects: BitVec(U)
        self.dicts = []
        self.objs = []
        self.errs = []    # (guard, kind)
        self.guards = [True]
        self.frames = []
        self.dict_writes = set()
        self.calls = 0
        self.last_yields = []

    # ---------------------------------------------------------------- basic set algebra
    def bv(self, v):
        return z3.BitVecVal(v, self.U)

    def single_c(self, k):
        return self.bv(1 << k)

    def bit(self, s, k):
        return z3.Extract(k, k, s) == 1

    def neg_set(self, s):
        U = self.U
        return z3.Concat(*[z3.Extract(k ^ 1, k ^ 1, s) for k in reversed(range(U))])

    def mux(self, idx, items):
        if not is_z3(idx):
            if 0 <= idx < len(items):
                return items[idx]
            raise EncodingGap("concrete index outside table")
        r = items[-1]
        for i in reversed(range(len(items) - 1)):
            r = ite(idx == i, items[i], r)
        return r

    def name_id(self, nm):
        """-> (id, in_universe)"""
        if not isinstance(nm, Name):
            raise EncodingGap("expected a variable name, got " + type(nm).__name__)
        if not is_z3(nm.base) and not is_z3(nm.n):
            return 2 * nm.base + nm.n, (0 <= nm.n <= 1)
        n = zint(nm.n)
        return 2 * zint(nm.base) + n, z3.And(n >= 0, n <= 1)

    def single(self, nm):
        i, ok = self.name_id(nm)
        self.check(ok, "oob-name")
        if not is_z3(i):
            return self.single_c(i) if 0 <= i < self.U else self.bv(0)
        return self.mux(i, [self.single_c(k) for k in range(self.U)])

    def member(self, nm, s):
        i, ok = self.name_id(nm)
        if not is_z3(i):
            if not (0 <= i < self.U) or ok is False:
                return False
            return self.bit(s, i)
        return z3.And(ok, self.mux(i, [self.bit(s, k) for k in range(self.U)]))

    # ---------------------------------------------------------------- heap
    def alloc_set(self, content):
        self.cells.append(content)
        return SetRef(len(self.cells) - 1)

    def deref(self, sr):
        if not isinstance(sr, SetRef):
            raise EncodingGap("expected a set, got " + type(sr).__name__)
        if not is_z3(sr.ref):
            return self.cells[sr.ref]
        return self.mux(sr.ref, list(self.cells))

    def store_set(self, sr, content):
        g = self.g()
        if not is_z3(sr.ref):
            self.cells[sr.ref] = ite(g, content, self.cells[sr.ref]) if g is not True else content
            return
        for i in range(len(self.cells)):
            self.cells[i] = z3.If(b_and(g, sr.ref == i), content, self.cells[i])

    def alloc_dict(self):
        self.dicts.append(SDict(self.U))
        return DictRef(len(self.dicts) - 1)

    def alloc_obj(self):
        self.objs.append({})
        return ObjRef(len(self.objs) - 1)

    # ---------------------------------------------------------------- guards / errors
    def g(self):
        fr = self.frames[-1] if self.frames else None
        g = self.guards[-1]
        if fr is not None:
            g = b_and(g, b_not(fr.ret_flag))
        return g

    def check(self, cond, kind):
        """cond must hold whenever the current guard holds."""
        bad = b_and(self.g(), b_not(cond))
        if bad is not False:
            self.errs.append((bad, kind))

    def error_condition(self):
        return zbool(b_or(*[e for e, _ in self.errs]))

    # ---------------------------------------------------------------- dict ops
    def dict_has(self, dr, key):
        d = self.dicts[dr.idx]
        i, ok = self.name_id(key)
        if not is_z3(i):
            return d.present[i] if (0 <= i < self.U and ok is not False) else False
        return b_and(ok, self.mux(i, [zbool(p) for p in d.present]))

    def dict_get(self, dr, key):
        d = self.dicts[dr.idx]
        self.check(self.dict_has(dr, key), "KeyError")
        i, _ = self.name_id(key)
        vals = [v for v in d.val]
        proto = next((v for v in vals if v is not None), None)
        if proto is None:
            raise EncodingGap("load from a dict that is empty on every path")
        vals = [v if v is not None else proto for v in vals]
        if not is_z3(i):
            return vals[i] if 0 <= i < self.U else proto
        return self.mux(i, vals)

    def dict_set(self, dr, key, value):
        d = self.dicts[dr.idx]
        self.dict_writes.add(dr.idx)
        i, ok = self.name_id(key)
        self.check(ok, "oob-name")
        g = self.g()
        for k in range(self.U):
            hit = b_and(g, eq(i, k))
            if hit is False:
                continue
            d.present[k] = ite(hit, True, d.present[k]) if hit is not True else True
            d.val[k] = ite(hit, value, d.val[k])

    def dict_del(self, dr, key):
        d = self.dicts[dr.idx]
        self.dict_writes.add(dr.idx)
        self.check(self.dict_has(dr, key), "KeyError")
        i, _ = self.name_id(key)
        g = self.g()
        for k in range(self.U):
            hit = b_and(g, eq(i, k))
            if hit is False:
                continue
            d.present[k] = ite(hit, False, d.present[k]) if hit is not True else False

    # ---------------------------------------------------------------- method invocation
    def resolve_method(self, name):
        if name in self.methods:
            return self.methods[name]
        raise EncodingGap(f"unknown method {name}")

    def call_method(self, obj, name, args):
        self.calls += 1
        if self.calls > 400:
            raise EncodingGap("call budget exceeded (recursion?)")
        fn = self.resolve_method(name)
        params = [a.arg for a in fn.args.args]
        static = any(isinstance(d, pyast.Name) and d.id == "staticmethod" for d in fn.decorator_list)
        fr = Frame()
        vals = list(args) if static else [obj] + list(args)
        if len(vals) != len(params):
            raise EncodingGap(f"arity mismatch calling {name}")
        for p, v in zip(params, vals):
            fr.env[p] = v
        # the callee runs under the caller's effective guard
        self.guards.append(self.g())
        self.frames.append(fr)
        try:
            self.exec_block(fn.body)
        finally:
            self.frames.pop()
            self.guards.pop()
        self.last_yields = fr.yields
        return fr.ret_val

    # ---------------------------------------------------------------- statements
    def exec_block(self, stmts):
        for s in stmts:
            self.exec_stmt(s)

    def exec_stmt(self, s):
        fr = self.frames[-1]
        if isinstance(s, pyast.Expr):
            if isinstance(s.value, pyast.Constant):
                return  # docstring
            if isinstance(s.value, pyast.Yield):
                fr.yields.append((self.g(), self.eval(s.value.value)))
                return
            self.eval(s.value)
            return
        if isinstance(s, pyast.Assign):
            v = self.eval(s.value)
            for t in s.targets:
                self.assign(t, v)
            return
        if isinstance(s, pyast.AugAssign):
            if not isinstance(s.op, pyast.BitOr):
                raise EncodingGap("augmented assignment other than |=")
            tgt = self.eval(s.target)
            val = self.eval(s.value)
            if isinstance(tgt, SetRef) and isinstance(val, SetRef):
                self.store_set(tgt, self.deref(tgt) | self.deref(val))  # in place: same object
                return
            raise EncodingGap("|= on non-sets")
        if isinstance(s, pyast.Return):
            v = self.eval(s.value) if s.value is not None else None
            g = self.g()
            fr.ret_val = ite(g, v, fr.ret_val) if v is not None else fr.ret_val
            fr.ret_flag = b_or(fr.ret_flag, g)
            return
        if isinstance(s, pyast.Assert):
            c = self.truth(self.eval(s.test))
            self.check(c, "AssertionError")
            return
        if isinstance(s, pyast.If):
            c = self.truth(self.eval(s.test))
            base = self.guards[-1]
            if c is not False:
                self.guards.append(b_and(base, c))
                self.exec_block(s.body)
                self.guards.pop()
            if s.orelse and c is not True:
                self.guards.append(b_and(base, b_not(c)))
                self.exec_block(s.orelse)
                self.guards.pop()
            return
        if isinstance(s, pyast.For):
            if s.orelse:
                raise EncodingGap("for-else")
            self.exec_for(s)
            return
        if isinstance(s, pyast.Delete):
            for t in s.targets:
                if isinstance(t, pyast.Subscript):
                    d = self.eval(t.value)
                    if isinstance(d, DictRef):
                        self.dict_del(d, self.eval(t.slice))
                        continue
                raise EncodingGap("del of a non-dict item")
            return
        if isinstance(s, pyast.Pass):
            return
        raise EncodingGap("statement " + type(s).__name__)

    def exec_for(self, s):
        it = s.iter
        ks = list(range(self.U))
        if self.order == "desc":
            ks.reverse()
        base = self.guards[-1]
        if isinstance(it, pyast.Call) and isinstance(it.func, pyast.Attribute) and it.func.attr == "items" and not it.args:
            d = self.eval(it.func.value)
            if not isinstance(d, DictRef):
                raise EncodingGap(".items() on non-dict")
            snap = self.dicts[d.idx].clone()
            for k in ks:
                if snap.present[k] is False:
                    continue
                self.guards.append(b_and(base, snap.present[k]))
                self.assign(s.target, Tup([Name(k // 2, k % 2), snap.val[k]]))
                self.exec_block(s.body)
                self.guards.pop()
            return
        coll = self.eval(it)
        if isinstance(coll, DictRef):
            snap = self.dicts[coll.idx].clone()
            for k in ks:
                if snap.present[k] is False:
                    continue
                self.guards.append(b_and(base, snap.present[k]))
                self.assign(s.target, Name(k // 2, k % 2))
                self.exec_block(s.body)
                self.guards.pop()
            return
        if isinstance(coll, SetRef):
            snap = self.deref(coll)
            for k in ks:
                self.guards.append(b_and(base, self.bit(snap, k)))
                # Python raises "Set changed size during iteration" if the body resizes the set
                self.check(eq_bv(self.deref(coll), snap), "RuntimeError-set-changed")
                self.assign(s.target, Name(k // 2, k % 2))
                self.exec_block(s.body)
                self.guards.pop()
            return
        raise EncodingGap("for over " + type(coll).__name__)

    def assign(self, t, v):
        fr = self.frames[-1]
        g = self.g()
        if isinstance(t, pyast.Name):
            fr.env[t.id] = ite(g, v, fr.env.get(t.id))
            return
        if isinstance(t, (pyast.Tuple, pyast.List)):
            if not isinstance(v, Tup) or len(v.items) != len(t.elts):
                raise EncodingGap("tuple unpacking of a non-tuple")
            for tt, vv in zip(t.elts, v.items):
                self.assign(tt, vv)
            return
        if isinstance(t, pyast.Subscript):
            d = self.eval(t.value)
            if isinstance(d, DictRef):
                self.dict_set(d, self.eval(t.slice), v)
                return
            raise EncodingGap("item assignment on non-dict")
        if isinstance(t, pyast.Attribute):
            o = self.eval(t.value)
            if isinstance(o, ObjRef):
                fields = self.objs[o.idx]
                fields[t.attr] = ite(g, v, fields.get(t.attr))
                return
            raise EncodingGap("attribute assignment on non-object")
        raise EncodingGap("assignment target " + type(t).__name__)

    # ---------------------------------------------------------------- expressions
    def truth(self, v):
        if isinstance(v, bool) or z3.is_bool(v):
            return v
        raise EncodingGap("truth value of " + type(v).__name__)

    def unmangle(self, attr):
        if attr.startswith("__") and not attr.endswith("__"):
            return attr  # methods are stored under their source name
        return attr

    def eval(self, e):
        fr = self.frames[-1]
        if isinstance(e, pyast.Constant):
            if isinstance(e.value, bool) or isinstance(e.value, int):
                return e.value
            if isinstance(e.value, str):
                return Str(e.value)
            if e.value is None:
                return None
            raise EncodingGap("constant " + repr(e.value))
        if isinstance(e, pyast.Name):
            if e.id in fr.env:
                return fr.env[e.id]
            if e.id in ("True", "False"):
                return e.id == "True"
            raise EncodingGap("unbound name " + e.id)
        if isinstance(e, pyast.Attribute):
            o = self.eval(e.value)
            if isinstance(o, ObjRef):
                fields = self.objs[o.idx]
                if e.attr in fields:
                    return fields[e.attr]
                if e.attr in self.props:
                    return self.call_method(o, e.attr, [])
                if e.attr in self.methods:
                    return BoundMethod(o, e.attr)
                raise EncodingGap("unknown attribute " + e.attr)
            return BoundMethod(o, e.attr)
        if isinstance(e, pyast.Call):
            return self.eval_call(e)
        if isinstance(e, pyast.Compare):
            if len(e.ops) != 1:
                raise EncodingGap("chained comparison")
            op = e.ops[0]
            l = self.eval(e.left)
            r = self.eval(e.comparators[0])
            if isinstance(op, (pyast.In, pyast.NotIn)):
                if isinstance(r, SetRef):
                    m = self.member(l, self.deref(r))
                elif isinstance(r, DictRef):
                    m = self.dict_has(r, l)
                else:
                    raise EncodingGap("'in' on " + type(r).__name__)
                return m if isinstance(op, pyast.In) else b_not(m)
            if isinstance(op, (pyast.Eq, pyast.NotEq)):
                v = self.equals(l, r)
                return v if isinstance(op, pyast.Eq) else b_not(v)
            raise EncodingGap("comparison " + type(op).__name__)
        if isinstance(e, pyast.BoolOp):
            vals = [self.truth(self.eval(v)) for v in e.values]
            return b_and(*vals) if isinstance(e.op, pyast.And) else b_or(*vals)
        if isinstance(e, pyast.UnaryOp):
            v = self.eval(e.operand)
            if isinstance(e.op, pyast.USub) and (isinstance(v, int) or is_z3(v)):
                return -v
            if isinstance(e.op, pyast.Not):
                return b_not(self.truth(v))
            raise EncodingGap("unary operator")
        if isinstance(e, pyast.BinOp):
            l = self.eval(e.left)
            r = self.eval(e.right)
            if isinstance(e.op, pyast.BitOr) and isinstance(l, SetRef) and isinstance(r, SetRef):
                return self.alloc_set(self.deref(l) | self.deref(r))
            if isinstance(e.op, pyast.Sub) and isinstance(l, SetRef) and isinstance(r, SetRef):
                return self.alloc_set(self.deref(l) & ~self.deref(r))
            if isinstance(e.op, pyast.BitAnd) and isinstance(l, SetRef) and isinstance(r, SetRef):
                return self.alloc_set(self.deref(l) & self.deref(r))
            if isinstance(e.op, pyast.Add) and isinstance(l, Str) and l.s == "-" and isinstance(r, Name):
                return Name(r.base, r.n + 1)
            if isinstance(e.op, (pyast.Mult, pyast.Add, pyast.Sub)) and all(isinstance(x, int) or is_z3(x) for x in (l, r)):
                return {pyast.Mult: lambda a, b: a * b, pyast.Add: lambda a, b: a + b, pyast.Sub: lambda a, b: a - b}[type(e.op)](l, r)
            raise EncodingGap("binary operator " + type(e.op).__name__)
        if isinstance(e, pyast.IfExp):
            c = self.truth(self.eval(e.test))
            a = self.eval(e.body)
            b = self.eval(e.orelse)
            if c is True:
                return a
            if c is False:
                return b
            return ite(c, a, b)
        if isinstance(e, pyast.Tuple):
            return Tup([self.eval(x) for x in e.elts])
        if isinstance(e, pyast.Set):
            content = self.bv(0)
            for x in e.elts:
                content = content | self.single(self.eval(x))
            return self.alloc_set(content)
        if isinstance(e, pyast.Dict):
            if e.keys:
                raise EncodingGap("non-empty dict literal")
            return self.alloc_dict()
        if isinstance(e, pyast.Subscript):
            v = self.eval(e.value)
            if isinstance(v, DictRef):
                return self.dict_get(v, self.eval(e.slice))
            if isinstance(v, Name):
                sl = e.slice
                if isinstance(sl, pyast.Constant) and sl.value == 0:
                    return Char(v.n >= 1 if not is_z3(v.n) else v.n >= 1)
                if (isinstance(sl, pyast.Slice) and sl.upper is None and sl.step is None
                        and isinstance(sl.lower, pyast.Constant) and sl.lower.value == 1):
                    # dropping the first character of an unsigned name leaves the universe
                    self.check(v.n >= 1 if not is_z3(v.n) else v.n >= 1, "oob-name")
                    return Name(v.base, v.n - 1)
                raise EncodingGap("string subscript other than [0] / [1:]")
            if isinstance(v, Tup) and isinstance(e.slice, pyast.Constant) and isinstance(e.slice.value, int):
                return v.items[e.slice.value]
            raise EncodingGap("subscript on " + type(v).__name__)
        raise EncodingGap("expression " + type(e).__name__)

    def equals(self, l, r):
        if isinstance(l, Char) and isinstance(r, Str):
            return l.is_dash if r.s == "-" else (False if len(r.s) == 1 else False)
        if isinstance(l, Str) and isinstance(r, Char):
            return self.equals(r, l)
        if isinstance(l, Name) and isinstance(r, Name):
            return b_and(eq(l.base, r.base), eq(l.n, r.n))
        if isinstance(l, Tup) and isinstance(r, Tup) and len(l.items) == len(r.items):
            return b_and(*[self.equals(a, b) for a, b in zip(l.items, r.items)])
        if all(isinstance(x, (int, bool)) or is_z3(x) for x in (l, r)):
            return eq(l, r)
        raise EncodingGap(f"== between {type(l).__name__} and {type(r).__name__}")

    def eval_call(self, e):
        f = e.func
        if e.keywords:
            raise EncodingGap("keyword arguments")
        if isinstance(f, pyast.Name):
            if f.id == self.class_name:
                o = self.alloc_obj()
                if "__init__" in self.methods:
                    self.call_method(o, "__init__", [self.eval(a) for a in e.args])
                return o
            if f.id in ("OrderedDict", "dict") and not e.args:
                return self.alloc_dict()
            if f.id == "set" and not e.args:
                return self.alloc_set(self.bv(0))
            if f.id == "set" and len(e.args) == 1:
                v = self.eval(e.args[0])
                if isinstance(v, SetRef):
                    return self.alloc_set(self.deref(v))
            raise EncodingGap("call of " + f.id)
        if isinstance(f, pyast.Attribute):
            o = self.eval(f.value)
            args = [self.eval(a) for a in e.args]
            if isinstance(o, ObjRef):
                return self.call_method(o, f.attr, args)
            if isinstance(o, SetRef):
                if f.attr == "copy" and not args:
                    return self.alloc_set(self.deref(o))
                if f.attr in ("add", "discard", "remove") and len(args) == 1:
                    one = self.single(args[0])
                    cur = self.deref(o)
                    if f.attr == "add":
                        self.store_set(o, cur | one)
                    else:
                        if f.attr == "remove":
                            self.check(self.member(args[0], cur), "KeyError")
                        self.store_set(o, cur & ~one)
                    return None
                if f.attr in ("union",) and len(args) == 1 and isinstance(args[0], SetRef):
                    return self.alloc_set(self.deref(o) | self.deref(args[0]))
                if f.attr == "update" and len(args) == 1 and isinstance(args[0], SetRef):
                    self.store_set(o, self.deref(o) | self.deref(args[0]))
                    return None
                raise EncodingGap("set method " + f.attr)
            if isinstance(o, DictRef):
                if f.attr == "copy" and not args:
                    d = self.alloc_dict()
                    src = self.dicts[o.idx]
                    self.dicts[d.idx].present = list(src.present)
                    self.dicts[d.idx].val = list(src.val)
                    return d
                raise EncodingGap("dict method " + f.attr)
            raise EncodingGap("method call on " + type(o).__name__)
        raise EncodingGap("call form")


def eq_bv(a, b):
    return a == b
