"""Where the code under check lives.  /repo by default; VERIF_REPO points the checks at a scratch
worktree instead (used only by the seeded-mutation runner, never by a registered command)."""
import os

REPO = os.environ.get("VERIF_REPO", "/repo").rstrip("/")
