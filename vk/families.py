"""Enumerated program families shared by the Engine-B properties (C11, C12, C24, ...).

Everything here is *syntax*; all numeric quantities of the generated models stay symbolic in the
solver queries.  The families are deterministic (no randomness) so case ids are stable.
"""
import itertools
import re

REAL_ATOMS = ["a", "b", "c", "2", "0.5", "time", "p", "x", "der(x)", "u", "k"]
BIN = ["+", "-", "*", "/", "^"]
EW = [".+", ".-", ".*", "./", ".^"]
REL = ["<", "<=", ">", ">=", "==", "<>"]
FUN1 = ["sin", "cos", "tan", "exp", "log", "abs"]
FUN2 = ["min", "max"]

HEADER = """model M
  Real a, b, c;
  Real x;
  input Real u;
  parameter Real p = 2.5;
  constant Real k = 3;
"""


def scalar_exprs(tier):
    """Real-valued scalar expression texts over the C11 operator list."""
    out = []
    # every ordered pair of binary operators, both nestings, minimal and explicit parentheses
    for o1, o2 in itertools.product(BIN, BIN):
        out.append(f"(a {o2} b) {o1} c")
        out.append(f"a {o1} (b {o2} c)")
        if not (o1 == "^" and o2 == "^"):
            out.append(f"a {o1} b {o2} c")  # precedence/associativity decided by the parser
    for o in BIN:
        out += [f"-a {o} b", f"-(a {o} b)", f"a {o} (-b)", f"+a {o} b", f"x {o} p", f"der(x) {o} u",
                f"k {o} time", f"2 {o} a", f"a {o} 0.5", f"a {o} 3"]
    for o in EW:
        out += [f"a {o} b", f"(a {o} b) {o} c"]
    for f in FUN1:
        out += [f"{f}(a)", f"{f}(a + b) * c", f"{f}(a) / {f}(b)", f"-{f}(-a)", f"{f}({f}(a) - b)"]
    for f in FUN2:
        out += [f"{f}(a, b)", f"{f}(a + b, c) - a", f"{f}({f}(a, b), c)", f"{f}(a, -b) * 2", f"{f}(a / b, c ^ 2)"]
    for r in REL:
        out += [f"if a {r} b then a else b", f"if a + 1 {r} b * 2 then a - c else b / 2",
                f"if not a {r} b then 1 else c", f"(if a {r} b then a else b) * c"]
    for r1, r2 in itertools.product(["<", ">=", "=="], ["<=", ">", "<>"]):
        out += [f"if a {r1} b and b {r2} c then 1 else 2", f"if a {r1} b or b {r2} c then a else c",
                f"if not (a {r1} b and b {r2} c) then a else b", f"if a {r1} b and not b {r2} c or c {r1} a then x else u"]
    out += ["if a < b then 1 elseif b < c then 2 else 3",
            "if a < b then (if b < c then a else b) else c",
            "if a < b then a elseif a < c then b elseif b < c then c else p",
            "abs(if a > 0 then a else -a)", "a ^ 2", "a ^ 3", "a ^ (-1)", "(a + b) ^ 2", "a ^ 0.5", "2 ^ a",
            "-a ^ 2", "(-a) ^ 2", "a * b / c * p", "a / b / c", "a - b - c", "a / (b * c)", "a - (b - c)"]
    if tier == "thorough":
        ats = ["a", "b", "c", "p", "2", "der(x)"]
        for o1, o2, o3 in itertools.product(BIN, BIN, BIN):
            if (o1, o2) != ("^", "^") and (o2, o3) != ("^", "^"):  # `x ^ y ^ z` is not Modelica (non-associative)
                out.append(f"a {o1} b {o2} c {o3} p")
            out.append(f"(a {o1} (b {o2} c)) {o3} u")
            out.append(f"a {o1} ((b {o2} c) {o3} k)")
        for f, o1, o2 in itertools.product(FUN1 + FUN2, BIN, BIN):
            arg = "a, b" if f in FUN2 else "a"
            if (o1, o2) != ("^", "^"):
                out.append(f"c {o1} {f}({arg}) {o2} x")
            out.append(f"{f}({'a ' + o1 + ' b, c' if f in FUN2 else 'a ' + o1 + ' b'}) {o2} c")
        for r, o in itertools.product(REL, BIN):
            out.append(f"if a {o} b {r} c then a {o} 1 else b")
            out.append(f"(if a {r} b then a else b) {o} (if b {r} c then c else p)")
    seen, res = set(), []
    for e in out:
        if e not in seen:
            seen.add(e)
            res.append(e)
    return res


def batch_model(exprs):
    decl = "".join(f"  Real y{i};\n" for i in range(len(exprs)))
    eqs = "".join(f"  y{i} = {e};\n" for i, e in enumerate(exprs))
    return HEADER + decl + "equation\n" + eqs + "end M;\n"


# ---- structured models (arrays, loops, if-equations, functions, initial equations) -----------
def structured_models(tier):
    """List of (id, text, class).  Literal subscripts/loop bounds enumerate their valid range."""
    ms = []

    def add(i, body_decl, eqs, pre="", init=""):
        t = pre + "model M\n" + body_decl + "equation\n" + eqs + ("initial equation\n" + init if init else "") + "end M;\n"
        ms.append((i, t, "M"))

    V = "  Real v[3];\n  Real w[3];\n  Real a, b;\n  parameter Real q[3] = {1, 2, 3};\n"
    for i in (1, 2, 3):
        add(f"idx1[{i}]", V, f"  a = v[{i}] * 2;\n  w[{i}] = a + q[{i}];\n")
    for lo, hi in [(1, 2), (2, 3), (1, 3), (2, 2)]:
        n = hi - lo + 1
        add(f"slice[{lo}:{hi}]", V + f"  Real z[{n}];\n", f"  z = v[{lo}:{hi}] + w[{lo}:{hi}];\n")
    add("slice[:]", V, "  w = v[:] * 2;\n")
    add("slice-step", V + "  Real z[2];\n", "  z = v[1:2:3] - q[1:2:3];\n")
    add("vec-ops", V, "  w = v + q;\n  v = 2 * w - q * a;\n  b = sum(v);\n")
    add("vec-ew", V, "  w = v .* q;\n  v = w ./ q;\n")
    add("vec-neg-if", V, "  w = if a > b then v else -q;\n")
    M2 = "  Real A[2,3];\n  Real B[2,3];\n  Real r[2];\n  Real s[3];\n  Real a;\n"
    for i, j in itertools.product((1, 2), (1, 2, 3)):
        add(f"idx2[{i},{j}]", M2, f"  a = A[{i},{j}] - B[{i},{j}] * 2;\n")
    add("mat-ops", M2, "  B = A + A;\n  r = A * s;\n  a = r[1] * r[2];\n")
    add("mat-row-col", M2, "  r = A[:,2];\n  s = A[1,:];\n")
    add("mat-transpose", M2 + "  Real C[3,2];\n", "  C = transpose(A);\n")
    for n in (1, 2, 3):
        add(f"for-1d[{n}]", V, f"  for i in 1:{n} loop\n    w[i] = v[i] * q[i] + a;\n  end for;\n")
    for lo, st, hi in [(1, 2, 3), (1, 2, 2), (2, 1, 3), (1, 3, 3)]:
        add(f"for-step[{lo}:{st}:{hi}]", V, f"  for i in {lo}:{st}:{hi} loop\n    w[i] = v[i] + i * a;\n  end for;\n")
    add("for-index-arith", V, "  for i in 1:2 loop\n    w[i] = v[i + 1] - v[i];\n  end for;\n")
    add("for-index-value", V, "  for i in 1:3 loop\n    w[i] = i * v[i];\n  end for;\n")
    add("for-2d", M2, "  for i in 1:2 loop\n    r[i] = A[i,1] + A[i,3] * a;\n  end for;\n")
    add("for-2d-col", M2, "  for j in 1:3 loop\n    s[j] = A[1,j] - A[2,j];\n  end for;\n")
    add("for-two-eq", V, "  for i in 1:3 loop\n    w[i] = v[i] + 1;\n    v[i] = q[i] * a;\n  end for;\n")
    add("for-der", "  Real v[3];\n  Real w[3];\n", "  for i in 1:3 loop\n    der(v[i]) = w[i] - v[i];\n  end for;\n")
    add("der-vec", "  Real v[3];\n  Real w[3];\n", "  der(v) = w - v;\n")
    S = "  Real a, b, c, d;\n  Real x;\n  input Real u;\n  parameter Real p = 2;\n"
    add("ifeq-else", S, "  if a > b then\n    c = a + 1;\n    d = b;\n  else\n    c = b * 2;\n    d = a - u;\n  end if;\n")
    add("ifeq-elseif", S, "  if a > b then\n    c = a;\n  elseif a > p then\n    c = b;\n  else\n    c = u / 2;\n  end if;\n")
    add("ifeq-bool", S, "  if a > b and not b > u or p <= a then\n    der(x) = -x;\n  else\n    der(x) = x * c;\n  end if;\n")
    add("ifeq-nested-expr", S, "  if time > 1 then\n    c = if a > b then a else b;\n  else\n    c = min(a, b);\n  end if;\n")
    add("init", S, "  der(x) = -p * x + u;\n  a = x;\n", init="  x = p * 2;\n  a - b = 1 / p;\n")
    add("init-if", S, "  der(x) = a;\n", init="  x = if p > 1 then p else -p;\n  der(x) = 0;\n")
    F1 = ("function f\n  input Real x;\n  input Real y;\n  output Real z;\nprotected\n  Real t;\nalgorithm\n"
          "  t := x * y;\n  if t > 1 then\n    z := t + x;\n  else\n    z := t - y;\n  end if;\nend f;\n")
    add("fun-if", S, "  c = f(a, b) * 2;\n  d = f(a + 1, f(b, u));\n", pre=F1)
    F2 = ("function g\n  input Real x[3];\n  output Real s;\nalgorithm\n  s := 0;\n  for i in 1:3 loop\n"
          "    s := s + x[i] * i;\n  end for;\nend g;\n")
    add("fun-for", "  Real v[3];\n  Real a;\n", "  a = g(v) - 1;\n", pre=F2)
    F3 = ("function h\n  input Real x;\n  output Real y;\n  output Real z;\nalgorithm\n  y := x * 2;\n"
          "  z := y + x;\n  y := y - 1;\nend h;\n")
    add("fun-two-out", S, "  (c, d) = h(a);\n", pre=F3)
    add("fun-two-out-trunc", S, "  c = h(a + b);\n", pre=F3)
    F4 = ("function sq\n  input Real x;\n  output Real y;\nalgorithm\n  y := x;\n  y := y * y;\n  y := y / 2 - x;\nend sq;\n")
    add("fun-reassign", S, "  c = sq(a) + sq(sq(b));\n", pre=F4)
    F5 = ("function m3\n  input Real x;\n  input Real y;\n  output Real z;\nalgorithm\n  if x > y then\n    z := x;\n"
          "  elseif x > 0 then\n    z := y;\n  else\n    z := 0 - x;\n  end if;\nend m3;\n")
    add("fun-elseif", S, "  c = m3(a, b);\n", pre=F5)
    add("decl-eq", "  Real a = 2 * b;\n  Real b;\n  parameter Real p = 3;\n", "  b = p + time;\n")
    add("nested-comp", "  Real a;\n  N n1;\n  N n2;\n", "  a = n1.y + n2.y;\n  n1.z = a;\n  n2.z = 2;\n",
        pre="model N\n  Real y;\n  Real z;\n  parameter Real g = 4;\nequation\n  y = g * z;\nend N;\n")
    ms += loop_subscript_models(tier)
    ms += fun_loop_models(tier)
    ms += call_site_models(tier)
    ms += matrix_equation_models(tier)
    ms += fun_if_models(tier)
    if tier == "thorough":
        for n, (i, j) in itertools.product((2, 3), itertools.product((1, 2), (1, 2))):
            add(f"idx-comp[{n}][{i},{j}]", f"  Q qq[2];\n  Real a;\n", f"  a = qq[{i}].w[{j}];\n",
                pre=f"model Q\n  Real w[{n}];\nend Q;\n")
        for lo, hi, st in [(1, 3, 2), (3, 1, -1), (2, 3, 1), (3, 3, 1)]:
            cnt = len(range(lo, hi + (1 if st > 0 else -1), st))
            add(f"for-range[{lo}:{st}:{hi}]", V, f"  for i in {lo}:{st}:{hi} loop\n    w[i] = v[i] + i;\n  end for;\n")
    return ms


# ---- for-loops whose subscripts are general integer expressions of the loop variable ----------
# Every subscript is Python-evaluable over (i, n); n is declared `parameter Integer n` = number of
# loop values.  Classes: unit-stride offsets (controls), scaled, reversed, non-affine.
LOOP_SUBSCRIPTS = [
    ("i", "unit"), ("i + 1", "unit"), ("1 + i", "unit"), ("i - 1", "unit"), ("i + 2", "unit"),
    ("2 * i", "scaled"), ("i * 2", "scaled"), ("3 * i", "scaled"), ("2 * i - 1", "scaled"),
    ("2 * i + 1", "scaled"), ("i + i", "scaled"), ("2 * (i - 1) + 1", "scaled"), ("3 * i - 2", "scaled"),
    ("4 - i", "reversed"), ("-i + 4", "reversed"), ("n + 1 - i", "reversed"), ("7 - 2 * i", "reversed"),
    ("2 * n - i", "reversed"),
    ("i * i", "nonaffine"), ("i * i - i + 1", "nonaffine"), ("i * (i + 1)", "nonaffine"),
    ("(n - i) * i + 1", "nonaffine"),
]
LOOP_RANGES = {"quick": ["1:3", "2:3"], "thorough": ["1:3", "1:2", "2:3", "1:4", "1:2:5", "2:2:4"]}
# (a negative step is the separate case for-range[3:-1:1] of structured_models)
LOOP_POSITIONS = {"quick": ["rhs", "lhs", "mat-fixrow", "row-slice", "fun-read", "two"],
                  "thorough": ["rhs", "lhs", "der", "mat-fixrow", "mat-fixcol", "row-slice", "two", "fun-read"]}
# both subscripts of a 2-D array depend on the loop variable: kept to two subscripts (see known findings)
LOOP_DIAG = [("i", "1:3"), ("2 * i", "1:3")]


def range_values(rng):
    p = [int(x) for x in rng.split(":")]
    lo, st, hi = (p[0], 1, p[1]) if len(p) == 2 else p
    return list(range(lo, hi + (1 if st > 0 else -1), st))


def sub_values(sub, loop_vals):
    n = len(loop_vals)
    return [int(eval(sub, {"__builtins__": {}}, {"i": i, "n": n})) for i in loop_vals]


def loop_subscript_model(sub, rng, pos, slack):
    """One model with subscript `sub` at position `pos` inside `for i in rng`.  The indexed array has
    max(subscript)+slack elements (slack 0: an index error of one element is an out-of-bounds error,
    slack > 0: it silently reads a neighbour).  Returns text or None if a subscript would be < 1."""
    iv = range_values(rng)
    sv = sub_values(sub, iv)
    if min(sv) < 1 or len(iv) < 1:
        return None
    n, mi, size = len(iv), max(iv), max(sv) + slack
    loop = lambda body: f"  for i in {rng} loop\n" + "".join(f"    {b}\n" for b in body) + "  end for;\n"
    decl = f"  parameter Integer n = {n};\n  Real a;\n"
    pre = ""
    if pos == "rhs":
        decl += f"  Real v[{size}];\n  Real w[{mi}];\n"
        eqs = loop([f"w[i] = v[{sub}] * 2 + i * a;"])
    elif pos == "lhs":
        decl += f"  Real v[{size}];\n  Real w[{mi}];\n"
        eqs = loop([f"v[{sub}] = w[i] - i;"])
    elif pos == "der":
        decl += f"  Real v[{size}];\n  Real w[{mi}];\n"
        eqs = loop([f"der(v[{sub}]) = w[i] - v[{sub}] * i;"])
    elif pos == "two":
        # the same array under two different subscript expressions in one loop body
        other = f"{mi + 1} - i" if sub != f"{mi + 1} - i" else "2 * i"
        size = max(size, max(sub_values(other, iv)) + slack, mi)
        decl += f"  Real v[{size}];\n  Real w[{mi}];\n  Real z[{mi}];\n"
        eqs = loop([f"w[i] = v[{sub}] - v[{other}];", f"z[i] = v[i] + a * v[{sub}];"])
    elif pos == "mat-fixrow":
        decl += f"  Real A[2,{size}];\n  Real r[{mi}];\n"
        eqs = loop([f"r[i] = A[2,{sub}] * a - A[1,{sub}];"])
    elif pos == "mat-fixcol":
        decl += f"  Real A[{size},2];\n  Real r[{mi}];\n"
        eqs = loop([f"r[i] = A[{sub},2] - A[{sub},1] * i;"])
    elif pos == "row-slice":
        decl += f"  Real A[{size},2];\n  Real B[{mi},2];\n"
        eqs = loop([f"B[i,:] = A[{sub},:] * 2;"])
    elif pos == "mat-diag-col":
        decl += f"  Real A[{mi},{size}];\n  Real r[{mi}];\n"
        eqs = loop([f"r[i] = A[i,{sub}] * a;"])
    elif pos == "mat-diag-row":
        decl += f"  Real A[{size},{mi}];\n  Real r[{mi}];\n"
        eqs = loop([f"r[i] = A[{sub},i] + a;"])
    elif pos == "fun-read":
        sub = re.sub(r"\bn\b", str(n), sub)  # no parameters inside the function: n as a literal
        pre = (f"function g\n  input Real x[{size}];\n  output Real s;\nalgorithm\n  s := 0;\n"
               f"  for i in {rng} loop\n    s := 2 * s + x[{sub}] * i;\n  end for;\nend g;\n")
        decl = f"  Real a;\n  Real v[{size}];\n"
        eqs = "  a = g(v) - 1;\n"
    else:
        raise ValueError(pos)
    return pre + "model M\n" + decl + "equation\n" + eqs + "end M;\n"


def loop_subscript_models(tier):
    ms, seen = [], set()
    for (sub, kind), rng, pos in itertools.product(LOOP_SUBSCRIPTS, LOOP_RANGES[tier], LOOP_POSITIONS[tier]):
        slacks = (0, 2) if (tier == "thorough" or pos == "rhs") else (2,)
        for slack in slacks:
            t = loop_subscript_model(sub, rng, pos, slack)
            if t is None or t in seen:
                continue
            seen.add(t)
            ms.append((f"for-sub[{sub}|{rng}|{pos}|slack{slack}]", t, "M"))
    for (sub, rng), pos in itertools.product(LOOP_DIAG, ("mat-diag-col", "mat-diag-row")):
        ms.append((f"for-sub[{sub}|{rng}|{pos}|slack0]", loop_subscript_model(sub, rng, pos, 0), "M"))
    return ms


# ---- user functions whose for-statement body has several, mutually dependent statements -------
# (name, body statements using outputs a, b, locals t, c and loop index i)
FUN_LOOP_BODIES = [
    ("indep", ["a := 2 * a;", "b := b + 1;"]),
    ("fwd", ["a := 2 * a;", "b := b + a;"]),
    ("bwd", ["b := b + a;", "a := 2 * a;"]),
    ("mutual", ["b := a + i * b;", "a := b - a;"]),
    ("index", ["a := a + i;", "b := 3 * b - a;"]),
    ("three", ["a := a + b;", "b := a - 2 * b;", "c := c + a - b;"]),
    ("swap", ["t := a;", "a := b;", "b := t + i;"]),
    ("twice", ["a := a + b;", "a := a * 2;", "b := b + a;"]),
    ("local-chain", ["t := a + b;", "c := t * 2 - c;", "a := c + i;", "b := b - t;"]),
    ("nonlin", ["a := a * b;", "b := b + a;"]),
    ("if-stmt", ["if a > b then", "  a := a - b;", "else", "  b := b - a;", "end if;"]),
    ("nested", ["for j in 1:2 loop", "  a := a + j * b;", "  b := b - a;", "end for;"]),
]
FUN_LOOP_RANGES = {"quick": ["1:3", "1:2"], "thorough": ["1:2", "1:3", "1:4", "2:2:6"]}
FUN_LOOP_CALLS = {
    "multi": ("  Real x, y, p, q;\n", "  (p, q) = f(x, y);\n"),
    "trunc": ("  Real x, y, p, q;\n", "  p = f(x, y) + q;\n  q = 2 * f(y, x);\n"),
    "nested-arg": ("  Real x, y, p, q;\n", "  (p, q) = f(x + 1, f(y, x));\n"),
    "in-loop": ("  Real x[2], y[2], p[2];\n", "  for k in 1:2 loop\n    p[k] = f(x[k], y[k]) * k;\n  end for;\n"),
}


def fun_loop_model(body, rng, call):
    stm = "".join(f"    {s}\n" for s in body)
    fn = ("function f\n  input Real x;\n  input Real y;\n  output Real a;\n  output Real b;\nprotected\n  Real t;\n  Real c;\n"
          f"algorithm\n  a := x;\n  b := y;\n  t := 1;\n  c := 0;\n  for i in {rng} loop\n{stm}  end for;\n"
          "  b := b + c - t;\nend f;\n")
    decl, eqs = FUN_LOOP_CALLS[call]
    return fn + "model M\n" + decl + "equation\n" + eqs + "end M;\n"


def fun_loop_models(tier):
    ms = []
    for (name, body), rng, call in itertools.product(FUN_LOOP_BODIES, FUN_LOOP_RANGES[tier], FUN_LOOP_CALLS):
        if call == "nested-arg" and (name, rng) != ("fwd", "1:3"):
            continue  # a call with several outputs as an argument: one representative (see known findings)
        if name in ("if-stmt", "nested") and (rng, call) != ("1:2", "multi"):
            continue  # compound statements inside a for-statement: one representative each (see known findings)
        if tier == "quick" and not (call in ("multi", "nested-arg") or (rng == "1:3" and name in ("fwd", "mutual", "swap"))):
            continue
        if name == "nonlin" and len(range_values(rng)) > 2:
            continue  # keep the polynomial degree small enough for the solver
        ms.append((f"fun-loop[{name}|{rng}|{call}]", fun_loop_model(body, rng, call), "M"))
    # array-valued state updated element by element next to a scalar accumulator
    for n in (3,):
        for order in ("elem-first", "acc-first"):
            body = [f"y[i] := y[i] + s;", f"s := s + y[i] * i;"]
            if order == "acc-first":
                body.reverse()
            fa = (f"function fa\n  input Real x[{n}];\n  output Real s;\n  output Real y[{n}];\nalgorithm\n  s := 1;\n  y := x;\n"
                  f"  for i in 1:{n} loop\n" + "".join(f"    {b}\n" for b in body) + "  end for;\nend fa;\n")
            ms.append((f"fun-loop-array[{n}|{order}]",
                       fa + f"model M\n  Real v[{n}];\n  Real w[{n}];\n  Real a;\nequation\n  (a, w) = fa(v);\nend M;\n", "M"))
    return ms


# ---- the same function called at several places (outside loops) on related operands -----------
def call_site_models(tier):
    ms = []

    def add(i, decl, eqs, pre, init=""):
        t = pre + "model M\n" + decl + "equation\n" + eqs + ("initial equation\n" + init if init else "") + "end M;\n"
        ms.append((f"fun-call[{i}]", t, "M"))

    SAT = "function sat\n  input Real u;\n  input Real k;\n  output Real y;\nalgorithm\n  y := k * u / (1 + u * u);\nend sat;\n"
    V = "  Real x[3];\n  Real y[3];\n  Real z;\n  parameter Real g[3] = {1, 2, 3};\n"
    # bare element references of the same arrays: every pair of distinct elements, and a repeated one
    pairs = [(1, 2), (2, 3), (3, 1)] if tier == "quick" else [(i, j) for i in (1, 2, 3) for j in (1, 2, 3) if i != j]
    for i, j in pairs:
        k = 6 - i - j
        add(f"elem[{i},{j}]", V, f"  der(x[{i}]) = -sat(x[{i}], g[{i}]);\n  der(x[{j}]) = -sat(x[{j}], g[{j}]);\n"
            f"  der(x[{k}]) = x[1] - x[3];\n  y = x;\n  z = sat(z, z);\n", SAT)
    add("elem-cross", V, "  y[1] = sat(x[1], g[2]);\n  y[2] = sat(x[2], g[1]);\n  y[3] = sat(x[1], g[1]) + sat(x[2], g[2]);\n"
        "  z = x[3];\n  der(x) = y;\n", SAT)
    add("elem-repeat", V, "  y[1] = sat(x[1], g[1]) + sat(x[1], g[1]);\n  y[2] = sat(x[2], g[1]) * sat(x[1], g[1]);\n"
        "  y[3] = sat(x[3], z);\n  z = sat(x[3], z) + 1;\n  der(x) = y;\n", SAT)
    add("elem-and-loop", V, "  der(x[1]) = -sat(x[1], g[1]);\n  der(x[2]) = -sat(x[2], g[2]);\n  der(x[3]) = sat(x[3], g[3]);\n"
        "  for i in 1:3 loop\n    y[i] = sat(x[i], g[i]);\n  end for;\n  z = sat(z, z) + x[2];\n", SAT)
    add("elem-scalar-mix", V, "  y[1] = sat(x[1], z);\n  y[2] = sat(x[2], z);\n  y[3] = sat(z, x[3]);\n  z = sat(z, x[1]);\n  der(x) = y;\n", SAT)
    add("elem-expr-arg", V, "  y[1] = sat(2 * x[1], g[1]);\n  y[2] = sat(2 * x[2], g[2]);\n  y[3] = sat(x[3] + x[1], g[3]);\n  z = 1;\n  der(x) = y;\n", SAT)
    add("elem-nested-call", V, "  y[1] = sat(sat(x[1], g[1]), g[2]);\n  y[2] = sat(sat(x[2], g[2]), g[1]);\n  y[3] = sat(x[3], g[3]);\n"
        "  z = sat(x[2], g[2]);\n  der(x) = y;\n", SAT)
    add("elem-initial", V, "  der(x) = y;\n  y[1] = sat(x[1], g[1]);\n  y[2] = sat(x[2], g[2]);\n  y[3] = x[3];\n  z = 0;\n", SAT,
        init="  x[1] = sat(x[2], g[2]);\n  x[2] = sat(x[3], g[3]);\n  x[3] = sat(x[3], g[1]);\n")
    add("elem-if", V, "  y[1] = if x[1] > 0 then sat(x[1], g[1]) else sat(x[2], g[2]);\n  if z > 1 then\n    y[2] = sat(x[2], g[3]);\n"
        "  else\n    y[2] = sat(x[3], g[2]);\n  end if;\n  y[3] = sat(x[3], g[3]);\n  z = time;\n  der(x) = y;\n", SAT)
    # 2-D elements / rows, slices of 1-D arrays
    DOT = ("function dot2\n  input Real u[2];\n  input Real v[2];\n  output Real s;\nalgorithm\n  s := u[1] * v[1] + 2 * u[2] * v[2];\nend dot2;\n")
    add("mat-elem", "  Real A[2,2];\n  Real r[4];\n", "  r[1] = sat(A[1,2], A[2,1]);\n  r[2] = sat(A[2,1], A[1,2]);\n"
        "  r[3] = sat(A[1,1], A[2,2]);\n  r[4] = sat(A[2,2], A[1,1]);\n", SAT)
    add("slice", "  Real v[4];\n  Real r[3];\n", "  r[1] = dot2(v[1:2], v[3:4]);\n  r[2] = dot2(v[2:3], v[1:2]);\n  r[3] = dot2(v[3:4], v[2:3]);\n", DOT)
    add("mat-row", "  Real A[3,2];\n  Real r[3];\n", "  r[1] = dot2(A[1,:], A[2,:]);\n  r[2] = dot2(A[2,:], A[3,:]);\n  r[3] = dot2(A[3,:], A[1,:]);\n", DOT)
    # several outputs per call site
    H = "function h\n  input Real x;\n  output Real y;\n  output Real z;\nalgorithm\n  y := x * 2;\n  z := y + x * x;\nend h;\n"
    add("multi-out", "  Real v[3];\n  Real a, b, c, d, e;\n", "  (a, b) = h(v[1]);\n  (c, d) = h(v[2]);\n  e = h(v[3]);\n  der(v[1]) = a;\n  der(v[2]) = c + d;\n  der(v[3]) = e - b;\n", H)
    # components of the same class / of an array of components
    N = "model N\n  Real y;\n  Real z;\nequation\n  der(y) = z;\nend N;\n"
    add("comp", "  N n1;\n  N n2;\n  parameter Real k = 2;\n", "  n1.z = sat(n1.y, k);\n  n2.z = sat(n2.y, k);\n", SAT + N)
    if tier == "thorough":
        add("comp-array", "  N n[2];\n  parameter Real k = 2;\n", "  n[1].z = sat(n[1].y, k);\n  n[2].z = sat(n[2].y, k);\n", SAT + N)
        # two different functions on the same operands, and the same function name reached twice
        SAT2 = SAT.replace("sat", "sat2").replace("k * u", "k + u")
        add("two-functions", V, "  y[1] = sat(x[1], g[1]);\n  y[2] = sat2(x[1], g[1]);\n  y[3] = sat2(x[2], g[1]);\n  z = sat(x[2], g[1]);\n"
            "  der(x) = y;\n", SAT + SAT2)
    return ms


# ---- whole-array equations whose two sides are matrices of the same shape ----------------------
# lhs A[n,m]; operands B, C [n,m], T [m,n], S [m,m], L [n,n], D [n+1,m+1], scalars a, b.
# Square shapes are the interesting ones (shape == reversed shape); 1x1, non-square and
# single-row/column matrices are the neighbouring controls.
MAT_SHAPES = {"quick": [(2, 2), (3, 3), (2, 3)],
              "thorough": [(2, 2), (3, 3), (2, 3), (3, 2), (1, 1), (1, 3), (3, 1), (4, 4)]}
MAT_RHS = ["copy", "neg", "lin", "scal", "ew", "ewdiv", "if", "elseif", "tr", "trtr", "tr-sum", "prod-r", "prod-l",
           "prod-sum", "slice", "slice-step", "fun", "fun-tr"]
# (array constructors `{{a, b}, {c, d}}` with non-constant entries are not in C11's list of forms and are not
#  accepted by the backend: no matrix-literal rhs)
MAT_POSITIONS = {"quick": ["eq", "swap", "der", "init", "decl", "ifeq", "lhs-slice"],
                 "thorough": ["eq", "swap", "lhs-expr", "der", "init", "decl", "ifeq", "lhs-slice", "comp", "two-eq"]}
# quick: every rhs form as a plain equation on 2x2 (representatives on 3x3 and on the non-square control),
# every position on 2x2 representatives
MAT_QUICK_POS_RHS = ["lin", "tr", "prod-r", "fun"]
MAT_QUICK_NONSQUARE_RHS = ["lin", "tr", "prod-r", "if", "fun-tr"]
MAT_QUICK_3X3_RHS = ["copy", "lin", "if", "tr", "tr-sum", "prod-r", "slice", "fun"]


def matrix_rhs(kind, n, m):
    """(expression text, set of operand names it needs, function definitions)."""
    pre = ""
    if kind == "copy":
        e = "B"
    elif kind == "neg":
        e = "-B"
    elif kind == "lin":
        e = "B + 2 * C"
    elif kind == "scal":
        e = "a * B - C * b"
    elif kind == "ew":
        e = "B .* C - B"
    elif kind == "ewdiv":
        e = "B ./ C"
    elif kind == "if":
        e = "if a > b then B else C"
    elif kind == "elseif":
        e = "if a > b then B elseif a > 0 then C else B - C"
    elif kind == "tr":
        e = "transpose(T)"
    elif kind == "trtr":
        e = "transpose(transpose(B))"
    elif kind == "tr-sum":
        e = "transpose(T) + C * a"
    elif kind == "prod-r":
        e = "B * S"
    elif kind == "prod-l":
        e = "L * B"
    elif kind == "prod-sum":
        e = "B * S - L * C"
    elif kind == "slice":
        e = f"D[1:{n},2:{m + 1}]"
    elif kind == "slice-step":
        e = f"D2[1:2:{2 * n - 1},2:2:{2 * m}]"
    elif kind == "fun":
        e = "fm(B, a)"
        pre = (f"function fm\n  input Real X[{n},{m}];\n  input Real k;\n  output Real Y[{n},{m}];\nalgorithm\n"
               "  Y := X + X;\n  Y := Y * k - X;\nend fm;\n")
    elif kind == "fun-tr":
        e = "ft(T)"
        pre = (f"function ft\n  input Real X[{m},{n}];\n  output Real Y[{n},{m}];\nalgorithm\n  Y := transpose(X);\nend ft;\n")
    else:
        raise ValueError(kind)
    need = set(re.findall(r"\b(D2|[BCTSLDab])\b", e))
    return e, need, pre


def matrix_equation_model(n, m, kind, pos):
    rhs, need, pre = matrix_rhs(kind, n, m)
    dims = {"B": (n, m), "C": (n, m), "T": (m, n), "S": (m, m), "L": (n, n), "D": (n + 1, m + 1), "D2": (2 * n, 2 * m)}
    init = ""
    a_decl = f"  Real A[{n},{m}];\n"
    if pos == "eq":
        eqs = f"  A = {rhs};\n"
    elif pos == "swap":
        eqs = f"  ({rhs}) = A;\n" if rhs.startswith("if ") else f"  {rhs} = A;\n"
    elif pos == "lhs-expr":
        need.add("C")
        eqs = f"  2 * A - C = {rhs};\n"
    elif pos == "der":
        eqs = f"  der(A) = {rhs};\n"
    elif pos == "init":
        need.add("C")
        eqs = "  der(A) = C - A;\n"
        init = f"  A = {rhs};\n"
    elif pos == "decl":
        a_decl = f"  Real A[{n},{m}] = {rhs};\n"
        eqs = ""
    elif pos == "ifeq":
        need |= {"C", "a"}
        eqs = f"  if a > 1 then\n    A = {rhs};\n  else\n    A = C;\n  end if;\n"
    elif pos == "lhs-slice":
        a_decl = f"  Real A[{n + 1},{m + 2}];\n"
        eqs = f"  A[2:{n + 1},2:{m + 1}] = {rhs};\n"
    elif pos == "two-eq":
        need |= {"B", "C"}
        eqs = f"  A = {rhs};\n  B = C;\n"
    elif pos == "comp":
        eqs = f"  A = {rhs};\n"
    else:
        raise ValueError(pos)
    decl = a_decl + "".join(f"  Real {k}[{dims[k][0]},{dims[k][1]}];\n" for k in sorted(need) if k in dims)
    decl += "".join(f"  Real {k};\n" for k in sorted(need) if k in "ab")
    body = decl + "equation\n" + eqs + ("initial equation\n" + init if init else "")
    if pos == "comp":
        return pre + "model N\n" + body + "end N;\nmodel M\n  N n1;\n  N n2;\nend M;\n"
    return pre + "model M\n" + body + "end M;\n"


def matrix_equation_models(tier):
    ms, seen = [], set()

    def add(cid, text):
        if text not in seen:
            seen.add(text)
            ms.append((cid, text, "M"))

    for (n, m), kind, pos in itertools.product(MAT_SHAPES[tier], MAT_RHS, MAT_POSITIONS[tier]):
        if tier == "quick":
            if pos != "eq" and not (kind in MAT_QUICK_POS_RHS and (n, m) == (2, 2)):
                continue
            if pos == "eq" and n != m and kind not in MAT_QUICK_NONSQUARE_RHS:
                continue
            if (n, m) == (3, 3) and kind not in MAT_QUICK_3X3_RHS:
                continue
        if (n, m) == (4, 4) and (pos != "eq" or kind == "prod-sum"):
            continue
        if pos == "decl" and kind.startswith("fun") and (n, m, kind) != (2, 2, "fun"):
            continue  # a function call in a declaration binding: one representative (see known findings)
        add(f"mat-eq[{n}x{m}|{kind}|{pos}]", matrix_equation_model(n, m, kind, pos))
    # rows / columns / square sub-blocks of square matrices against vectors and each other
    for n in ((2, 3) if tier == "quick" else (1, 2, 3, 4)):
        D = f"  Real A[{n},{n}];\n  Real B[{n},{n}];\n  Real r[{n}];\n  Real s[{n}];\n"
        ks = ((1, n) if n == 2 else (2,)) if tier == "quick" else range(1, n + 1)
        for k in sorted(set(ks)):
            o = n + 1 - k
            add(f"mat-sq[{n}|read|{k}]", "model M\n" + D + f"equation\n  r = A[{k},:];\n  s = A[:,{k}] * 2;\nend M;\n")
            add(f"mat-sq[{n}|write|{k}]", "model M\n" + D + f"equation\n  A[{k},:] = r;\n  B[:,{k}] = s - r;\nend M;\n")
            add(f"mat-sq[{n}|row-col|{k}]", "model M\n" + D + f"equation\n  A[{k},:] = B[:,{o}];\n  B[:,{k}] = A[{o},:] * 2;\nend M;\n")
            add(f"mat-sq[{n}|row-row|{k}]", "model M\n" + D + f"equation\n  A[{k},:] = B[{o},:] + B[{k},:];\n  A[:,{k}] = B[:,{o}] - s;\nend M;\n")
        if n >= 3:
            for (i, j) in [(1, 2), (2, 1)] + ([(1, 1), (2, 2)] if tier == "thorough" else []):
                add(f"mat-sq[{n}|block|{i},{j}]", "model M\n" + D +
                    f"equation\n  A[{i}:{i + 1},{j}:{j + 1}] = B[{j}:{j + 1},{i}:{i + 1}] + transpose(B[1:2,2:3]);\nend M;\n")
        if n == 2:
            # a row of a matrix combined with a vector: one representative (see known findings)
            add("mat-sq[2|row-plus-vec]", "model M\n" + D + "equation\n  s = A[1,:] + r;\nend M;\n")
        add(f"mat-sq[{n}|vec-prod]", "model M\n" + D + "equation\n  r = A * s;\n  s = transpose(B) * r;\nend M;\n")
        add(f"mat-sq[{n}|for-row]", "model M\n" + D + f"equation\n  for i in 1:{n} loop\n    A[i,:] = B[i,:] * 2 - r[i] * s;\n  end for;\nend M;\n")
        add(f"mat-sq[{n}|for-col]", "model M\n" + D + f"equation\n  for i in 1:{n} loop\n    A[:,i] = B[:,i] + r;\n  end for;\nend M;\n")
    # assignment to single array elements (literal subscripts) in a function body, outside loops:
    # three representatives (see known findings)
    g = lambda dims, body: (f"function g\n  input Real x[{dims}];\n  output Real y[{dims}];\nalgorithm\n  y := x;\n" + body + "end g;\n"
                            f"model M\n  Real v[{dims}];\n  Real w[{dims}];\nequation\n  w = g(v);\nend M;\n")
    add("fun-elem-assign[1d|one]", g("2", "  y[1] := x[2] * 2;\n"))
    add("fun-elem-assign[2d|one]", g("2,2", "  y[1,2] := x[2,1] * 2;\n"))
    add("fun-elem-assign[1d|all]", g("2", "  y[1] := x[2] * 2;\n  y[2] := x[1] - 1;\n"))
    return ms


# ---- user functions with an if-statement: condition form x statement shape x call form ---------
# Conditions over the Real inputs x, y.  Under the 0/1 encoding `or` is a sum, so several of them
# take the values 2, 3, 4 (all "true"), `and` of such sums is a product > 1.
FUN_IF_CONDS = [
    ("rel", "x > 0"), ("or2", "x > 0 or y > 0"), ("or3", "x > 0 or y > 0 or x > y"), ("and2", "x > 0 and y > 0"),
    ("not", "not x > 0"), ("not-or", "not (x > 0 or y > 0)"), ("and-or", "x > 0 and (y > 0 or x > y)"),
    ("or-and", "(x > 0 or y > 0) and (x > 1 or y > 1)"), ("or-not", "x > 0 or not y > 0"), ("or-implied", "x > 1 or x > 0"),
    ("or-same", "x > 0 or x > 0"), ("ne", "x <> y"), ("eq-or", "x == y or x >= y"), ("and-not", "x > 0 and not y > x"),
]
FUN_IF_SHAPES = ["else", "elseif-first", "elseif-second", "elseif-both", "two-targets", "reads-target", "chain", "nested",
                 "cond-reads-target", "cond-after-update", "bool-local", "bool-arg", "after", "guard", "vec-target"]
FUN_IF_CALLS = ["plain", "expr-arg", "nested-call", "two-calls", "in-loop", "in-ifexpr", "init"]
FUN_IF_QUICK_SHAPES = ["else"]
FUN_IF_QUICK_CONDS = ["rel", "or2", "or-and"]


def fun_if_model(cond, shape, call):
    """Text of one model: function f(x, y) -> z [, w] whose body is an if-statement of the given
    shape on condition `cond`, called in the given form.  None if the combination is meaningless."""
    outs, prot, args = ["z"], [], "Real x;|Real y;"
    I = lambda *ls: "".join(f"  {l}\n" for l in ls)
    if shape == "else":
        body = I(f"if {cond} then", "  z := x + y;", "else", "  z := x - 2 * y;", "end if;")
    elif shape == "elseif-first":
        body = I(f"if {cond} then", "  z := x + y;", "elseif y > x then", "  z := 3 * y;", "else", "  z := -1;", "end if;")
    elif shape == "elseif-second":
        body = I("if y > x then", "  z := 3 * y;", f"elseif {cond} then", "  z := x + y;", "else", "  z := -1;", "end if;")
    elif shape == "elseif-both":
        body = I(f"if {cond} then", "  z := x + y;", "elseif x > 1 or y > 1 then", "  z := x - y;",
                 "elseif x > y or y > 1 then", "  z := 2 * x;", "else", "  z := -1;", "end if;")
    elif shape == "two-targets":
        outs = ["z", "w"]
        body = I(f"if {cond} then", "  z := x + y;", "  w := x;", "else", "  z := 1;", "  w := y - x;", "end if;")
    elif shape == "reads-target":
        body = I("z := 2 * x;", f"if {cond} then", "  z := z + y;", "else", "  z := z - y;", "end if;")
    elif shape == "chain":
        prot.append("Real t;")
        body = I(f"if {cond} then", "  t := x + 1;", "  z := t + y;", "else", "  t := y;", "  z := t - x;", "end if;")
    elif shape == "nested":
        body = I(f"if {cond} then", "  if x > y then", "    z := x;", "  else", "    z := y;", "  end if;", "else", "  z := 0 - x;", "end if;")
    elif shape == "cond-reads-target":
        zc = re.sub(r"\bx\b", "z", cond)
        body = I("z := x - y;", f"if {zc} then", "  z := z - 1;", "else", "  z := z + 1;", "end if;")
    elif shape == "cond-after-update":
        outs = ["z", "w"]
        zc = re.sub(r"\bx\b", "z", cond)
        body = I("z := x;", f"if {zc} then", "  z := z - 5;", "  w := 1;", "else", "  z := z + 5;", "  w := 2;", "end if;")
    elif shape == "bool-local":
        prot.append("Boolean c;")
        body = I(f"c := {cond};", "if c then", "  z := x + y;", "else", "  z := x - 2 * y;", "end if;")
    elif shape == "bool-arg":
        args += "|Boolean c;"
        body = I("if c then", "  z := x + y;", "else", "  z := x - 2 * y;", "end if;")
    elif shape == "after":
        prot.append("Real t;")
        body = I(f"if {cond} then", "  z := x + y;", "  t := 1;", "else", "  z := x - 2 * y;", "  t := y;", "end if;", "z := 2 * z + t;")
    elif shape == "guard":
        body = I(f"if {cond} then", "  z := y / x;", "else", "  z := 0;", "end if;")
    elif shape == "vec-target":
        outs = ["z", "w"]
        args += "|Real g[2];"
        prot.append("Real q[2];")
        body = I(f"if {cond} then", "  q := g + g;", "else", "  q := -g;", "end if;", "z := q[1] + x;", "w := q[2] - q[1] * y;")
    else:
        raise ValueError(shape)
    fn = ("function f\n" + "".join(f"  input {a}\n" for a in args.split("|")) + "".join(f"  output Real {o};\n" for o in outs)
          + ("protected\n" if prot else "") + "".join(f"  {p}\n" for p in prot) + "algorithm\n" + body + "end f;\n")
    # the Boolean argument of shape bool-arg is the condition itself, written over the call's operands
    subst = lambda xa, ya: re.sub(r"\b[xy]\b", lambda mo: xa if mo.group(0) == "x" else ya, cond)
    third = {"bool-arg": subst, "vec-target": lambda xa, ya: "h"}.get(shape)
    c = lambda xa, ya: f"f({xa}, {ya}, {third(xa, ya)})" if third else f"f({xa}, {ya})"
    two = len(outs) == 2
    hdecl = "  Real h[2];\n" if shape == "vec-target" else ""
    decl, init = "  Real a, b, r, s;\n" + hdecl, ""
    if call == "plain":
        eqs = f"  (r, s) = {c('a', 'b')};\n" if two else f"  r = {c('a', 'b')};\n"
    elif two and call != "init":
        return None  # a call with several outputs is only usable as the whole rhs (see known findings)
    elif call == "expr-arg":
        eqs = f"  r = {c('(a - 1)', '(2 * b)')} + a;\n"
    elif call == "nested-call":
        eqs = f"  r = {c(c('a', 'b'), 'b')};\n"
    elif call == "two-calls":
        eqs = f"  r = {c('a', 'b')} - {c('b', 'a')};\n  s = {c('a', 'a')};\n"
    elif call == "in-loop":
        decl = "  Real v[3], u[3], r[3];\n" + hdecl
        eqs = "  for k in 1:3 loop\n    r[k] = " + c("v[k]", "u[4 - k]") + " * k;\n  end for;\n"
    elif call == "in-ifexpr":
        eqs = f"  r = if a > b then {c('a', 'b')} else {c('b', 'a')};\n"
    elif call == "init":
        eqs = "  der(r) = a;\n" + ("  der(s) = b;\n" if two else "")
        init = f"  (r, s) = {c('a', 'b')};\n" if two else f"  r = {c('a', 'b')};\n"
    else:
        raise ValueError(call)
    return fn + "model M\n" + decl + "equation\n" + eqs + ("initial equation\n" + init if init else "") + "end M;\n"


def fun_if_models(tier):
    ms, seen = [], set()
    for (cn, cond), shape, call in itertools.product(FUN_IF_CONDS, FUN_IF_SHAPES, FUN_IF_CALLS):
        if shape == "cond-after-update" and (cn, call) != ("rel", "plain"):
            continue  # a condition that reads a variable assigned earlier in the same if-statement: one representative (see known findings)
        if tier == "quick":
            if call == "plain":
                if not (shape in FUN_IF_QUICK_SHAPES or cn in FUN_IF_QUICK_CONDS):
                    continue
            elif (cn, shape) != ("or2", "else"):
                continue
        elif call not in ("plain", "expr-arg") and not (cn in FUN_IF_QUICK_CONDS and shape in FUN_IF_QUICK_SHAPES):
            continue
        t = fun_if_model(cond, shape, call)
        if t is None or t in seen:
            continue
        seen.add(t)
        ms.append((f"fun-if[{cn}|{shape}|{call}]", t, "M"))
    return ms


REPO_MODELS = [("Spring", "Spring"), ("IfElse", "IfElse"), ("Logic", "Logic"), ("BuiltinFunctions", "BuiltinFunctions"),
               ("FunctionCall", "FunctionCall"), ("ForLoop", "ForLoop"), ("Aircraft", "Aircraft"),
               ("Estimator", "Estimator"), ("Attributes", "Attributes"), ("Inheritance", "Sub"),
               ("NestedClasses", "C2"), ("ConnectorHQ", "System"), ("Connector", "Connector"),
               ("DoubleFunctionCall", "FunctionCall"), ("InlineAssignment", "InlineAssignment"),
               ("Simplify", "Simplify"), ("SimplifyLoop", "SimplifyLoop"), ("NegativeAlias", "NegativeAlias"),
               ("Alias", "Alias"), ("SimplifyIfElse", "SimplifyIfElse"), ("ArrayExpand", "Test"),
               ("MatrixExpressions", "MatrixExpressions"), ("ArrayExpressions", "ArrayExpressions"),
               ("StateAnnotator", "StateAnnotator"), ("Exponential", "Exponential"), ("Quad", "Quad"),
               ("SpringSystem", "SpringSystem"), ("DuplicateState", "DuplicateState"), ("ConnectorHQZ", "SystemZ")]
