"""Enumerated program families shared by the Engine-B properties (C11, C12, C24, ...).

Everything here is *syntax*; all numeric quantities of the generated models stay symbolic in the
solver queries.  The families are deterministic (no randomness) so case ids are stable.
"""
import itertools

REAL_ATOMS = ["a", "b", "c", "2", "0.5", "time", "p", "x", "der(x)", "u", "k"]
BIN = ["+", "-", "*", "/", "^"]
EW = [".+", ".-", ".*", "./", ".^"]
REL = ["<", "<=", ">", ">=", "==", "<>"]
FUN1 = ["sin", "cos", "tan", "exp", "log", "abs"]
FUN2 = ["min", "max"]

HEADER = """model M
  Real a, b, c;
  Real x;
  input Real u;
  parameter Real p = 2.5;
  constant Real k = 3;
"""


def scalar_exprs(tier):
    """Real-valued scalar expression texts over the C11 operator list."""
    out = []
    # every ordered pair of binary operators, both nestings, minimal and explicit parentheses
    for o1, o2 in itertools.product(BIN, BIN):
        out.append(f"(a {o2} b) {o1} c")
        out.append(f"a {o1} (b {o2} c)")
        if not (o1 == "^" and o2 == "^"):
            out.append(f"a {o1} b {o2} c")  # precedence/associativity decided by the parser
    for o in BIN:
        out += [f"-a {o} b", f"-(a {o} b)", f"a {o} (-b)", f"+a {o} b", f"x {o} p", f"der(x) {o} u",
                f"k {o} time", f"2 {o} a", f"a {o} 0.5", f"a {o} 3"]
    for o in EW:
        out += [f"a {o} b", f"(a {o} b) {o} c"]
    for f in FUN1:
        out += [f"{f}(a)", f"{f}(a + b) * c", f"{f}(a) / {f}(b)", f"-{f}(-a)", f"{f}({f}(a) - b)"]
    for f in FUN2:
        out += [f"{f}(a, b)", f"{f}(a + b, c) - a", f"{f}({f}(a, b), c)", f"{f}(a, -b) * 2", f"{f}(a / b, c ^ 2)"]
    for r in REL:
        out += [f"if a {r} b then a else b", f"if a + 1 {r} b * 2 then a - c else b / 2",
                f"if not a {r} b then 1 else c", f"(if a {r} b then a else b) * c"]
    for r1, r2 in itertools.product(["<", ">=", "=="], ["<=", ">", "<>"]):
        out += [f"if a {r1} b and b {r2} c then 1 else 2", f"if a {r1} b or b {r2} c then a else c",
                f"if not (a {r1} b and b {r2} c) then a else b", f"if a {r1} b and not b {r2} c or c {r1} a then x else u"]
    out += ["if a < b then 1 elseif b < c then 2 else 3",
            "if a < b then (if b < c then a else b) else c",
            "if a < b then a elseif a < c then b elseif b < c then c else p",
            "abs(if a > 0 then a else -a)", "a ^ 2", "a ^ 3", "a ^ (-1)", "(a + b) ^ 2", "a ^ 0.5", "2 ^ a",
            "-a ^ 2", "(-a) ^ 2", "a * b / c * p", "a / b / c", "a - b - c", "a / (b * c)", "a - (b - c)"]
    if tier == "thorough":
        ats = ["a", "b", "c", "p", "2", "der(x)"]
        for o1, o2, o3 in itertools.product(BIN, BIN, BIN):
            out.append(f"a {o1} b {o2} c {o3} p")
            out.append(f"(a {o1} (b {o2} c)) {o3} u")
            out.append(f"a {o1} ((b {o2} c) {o3} k)")
        for f, o1, o2 in itertools.product(FUN1 + FUN2, BIN, BIN):
            arg = "a, b" if f in FUN2 else "a"
            out.append(f"c {o1} {f}({arg}) {o2} x")
            out.append(f"{f}({'a ' + o1 + ' b, c' if f in FUN2 else 'a ' + o1 + ' b'}) {o2} c")
        for r, o in itertools.product(REL, BIN):
            out.append(f"if a {o} b {r} c then a {o} 1 else b")
            out.append(f"(if a {r} b then a else b) {o} (if b {r} c then c else p)")
    seen, res = set(), []
    for e in out:
        if e not in seen:
            seen.add(e)
            res.append(e)
    return res


def batch_model(exprs):
    decl = "".join(f"  Real y{i};\n" for i in range(len(exprs)))
    eqs = "".join(f"  y{i} = {e};\n" for i, e in enumerate(exprs))
    return HEADER + decl + "equation\n" + eqs + "end M;\n"


# ---- structured models (arrays, loops, if-equations, functions, initial equations) -----------
def structured_models(tier):
    """List of (id, text, class).  Literal subscripts/loop bounds enumerate their valid range."""
    ms = []

    def add(i, body_decl, eqs, pre="", init=""):
        t = pre + "model M\n" + body_decl + "equation\n" + eqs + ("initial equation\n" + init if init else "") + "end M;\n"
        ms.append((i, t, "M"))

    V = "  Real v[3];\n  Real w[3];\n  Real a, b;\n  parameter Real q[3] = {1, 2, 3};\n"
    for i in (1, 2, 3):
        add(f"idx1[{i}]", V, f"  a = v[{i}] * 2;\n  w[{i}] = a + q[{i}];\n")
    for lo, hi in [(1, 2), (2, 3), (1, 3), (2, 2)]:
        n = hi - lo + 1
        add(f"slice[{lo}:{hi}]", V + f"  Real z[{n}];\n", f"  z = v[{lo}:{hi}] + w[{lo}:{hi}];\n")
    add("slice[:]", V, "  w = v[:] * 2;\n")
    add("slice-step", V + "  Real z[2];\n", "  z = v[1:2:3] - q[1:2:3];\n")
    add("vec-ops", V, "  w = v + q;\n  v = 2 * w - q * a;\n  b = sum(v);\n")
    add("vec-ew", V, "  w = v .* q;\n  v = w ./ q;\n")
    add("vec-neg-if", V, "  w = if a > b then v else -q;\n")
    M2 = "  Real A[2,3];\n  Real B[2,3];\n  Real r[2];\n  Real s[3];\n  Real a;\n"
    for i, j in itertools.product((1, 2), (1, 2, 3)):
        add(f"idx2[{i},{j}]", M2, f"  a = A[{i},{j}] - B[{i},{j}] * 2;\n")
    add("mat-ops", M2, "  B = A + A;\n  r = A * s;\n  a = r[1] * r[2];\n")
    add("mat-row-col", M2, "  r = A[:,2];\n  s = A[1,:];\n")
    add("mat-transpose", M2 + "  Real C[3,2];\n", "  C = transpose(A);\n")
    for n in (1, 2, 3):
        add(f"for-1d[{n}]", V, f"  for i in 1:{n} loop\n    w[i] = v[i] * q[i] + a;\n  end for;\n")
    for lo, st, hi in [(1, 2, 3), (1, 2, 2), (2, 1, 3), (1, 3, 3)]:
        add(f"for-step[{lo}:{st}:{hi}]", V, f"  for i in {lo}:{st}:{hi} loop\n    w[i] = v[i] + i * a;\n  end for;\n")
    add("for-index-arith", V, "  for i in 1:2 loop\n    w[i] = v[i + 1] - v[i];\n  end for;\n")
    add("for-index-value", V, "  for i in 1:3 loop\n    w[i] = i * v[i];\n  end for;\n")
    add("for-2d", M2, "  for i in 1:2 loop\n    r[i] = A[i,1] + A[i,3] * a;\n  end for;\n")
    add("for-2d-col", M2, "  for j in 1:3 loop\n    s[j] = A[1,j] - A[2,j];\n  end for;\n")
    add("for-two-eq", V, "  for i in 1:3 loop\n    w[i] = v[i] + 1;\n    v[i] = q[i] * a;\n  end for;\n")
    add("for-der", "  Real v[3];\n  Real w[3];\n", "  for i in 1:3 loop\n    der(v[i]) = w[i] - v[i];\n  end for;\n")
    add("der-vec", "  Real v[3];\n  Real w[3];\n", "  der(v) = w - v;\n")
    S = "  Real a, b, c, d;\n  Real x;\n  input Real u;\n  parameter Real p = 2;\n"
    add("ifeq-else", S, "  if a > b then\n    c = a + 1;\n    d = b;\n  else\n    c = b * 2;\n    d = a - u;\n  end if;\n")
    add("ifeq-elseif", S, "  if a > b then\n    c = a;\n  elseif a > p then\n    c = b;\n  else\n    c = u / 2;\n  end if;\n")
    add("ifeq-bool", S, "  if a > b and not b > u or p <= a then\n    der(x) = -x;\n  else\n    der(x) = x * c;\n  end if;\n")
    add("ifeq-nested-expr", S, "  if time > 1 then\n    c = if a > b then a else b;\n  else\n    c = min(a, b);\n  end if;\n")
    add("init", S, "  der(x) = -p * x + u;\n  a = x;\n", init="  x = p * 2;\n  a - b = 1 / p;\n")
    add("init-if", S, "  der(x) = a;\n", init="  x = if p > 1 then p else -p;\n  der(x) = 0;\n")
    F1 = ("function f\n  input Real x;\n  input Real y;\n  output Real z;\nprotected\n  Real t;\nalgorithm\n"
          "  t := x * y;\n  if t > 1 then\n    z := t + x;\n  else\n    z := t - y;\n  end if;\nend f;\n")
    add("fun-if", S, "  c = f(a, b) * 2;\n  d = f(a + 1, f(b, u));\n", pre=F1)
    F2 = ("function g\n  input Real x[3];\n  output Real s;\nalgorithm\n  s := 0;\n  for i in 1:3 loop\n"
          "    s := s + x[i] * i;\n  end for;\nend g;\n")
    add("fun-for", "  Real v[3];\n  Real a;\n", "  a = g(v) - 1;\n", pre=F2)
    F3 = ("function h\n  input Real x;\n  output Real y;\n  output Real z;\nalgorithm\n  y := x * 2;\n"
          "  z := y + x;\n  y := y - 1;\nend h;\n")
    add("fun-two-out", S, "  (c, d) = h(a);\n", pre=F3)
    add("fun-two-out-trunc", S, "  c = h(a + b);\n", pre=F3)
    F4 = ("function sq\n  input Real x;\n  output Real y;\nalgorithm\n  y := x;\n  y := y * y;\n  y := y / 2 - x;\nend sq;\n")
    add("fun-reassign", S, "  c = sq(a) + sq(sq(b));\n", pre=F4)
    F5 = ("function m3\n  input Real x;\n  input Real y;\n  output Real z;\nalgorithm\n  if x > y then\n    z := x;\n"
          "  elseif x > 0 then\n    z := y;\n  else\n    z := 0 - x;\n  end if;\nend m3;\n")
    add("fun-elseif", S, "  c = m3(a, b);\n", pre=F5)
    add("decl-eq", "  Real a = 2 * b;\n  Real b;\n  parameter Real p = 3;\n", "  b = p + time;\n")
    add("nested-comp", "  Real a;\n  N n1;\n  N n2;\n", "  a = n1.y + n2.y;\n  n1.z = a;\n  n2.z = 2;\n",
        pre="model N\n  Real y;\n  Real z;\n  parameter Real g = 4;\nequation\n  y = g * z;\nend N;\n")
    if tier == "thorough":
        for n, (i, j) in itertools.product((2, 3), itertools.product((1, 2), (1, 2))):
            add(f"idx-comp[{n}][{i},{j}]", f"  Q qq[2];\n  Real a;\n", f"  a = qq[{i}].w[{j}];\n",
                pre=f"model Q\n  Real w[{n}];\nend Q;\n")
        for lo, hi, st in [(1, 3, 2), (3, 1, -1), (2, 3, 1), (3, 3, 1)]:
            cnt = len(range(lo, hi + (1 if st > 0 else -1), st))
            add(f"for-range[{lo}:{st}:{hi}]", V, f"  for i in {lo}:{st}:{hi} loop\n    w[i] = v[i] + i;\n  end for;\n")
    return ms


REPO_MODELS = [("Spring", "Spring"), ("IfElse", "IfElse"), ("Logic", "Logic"), ("BuiltinFunctions", "BuiltinFunctions"),
               ("FunctionCall", "FunctionCall"), ("ForLoop", "ForLoop"), ("Aircraft", "Aircraft"),
               ("Estimator", "Estimator"), ("Attributes", "Attributes"), ("Inheritance", "Sub"),
               ("NestedClasses", "C2"), ("ConnectorHQ", "System"), ("Connector", "Connector"),
               ("DoubleFunctionCall", "FunctionCall"), ("InlineAssignment", "InlineAssignment"),
               ("Simplify", "Simplify"), ("SimplifyLoop", "SimplifyLoop"), ("NegativeAlias", "NegativeAlias"),
               ("Alias", "Alias"), ("SimplifyIfElse", "SimplifyIfElse"), ("ArrayExpand", "Test"),
               ("MatrixExpressions", "MatrixExpressions"), ("ArrayExpressions", "ArrayExpressions"),
               ("StateAnnotator", "StateAnnotator"), ("Exponential", "Exponential"), ("Quad", "Quad"),
               ("SpringSystem", "SpringSystem"), ("DuplicateState", "DuplicateState"), ("ConnectorHQZ", "SystemZ")]
