"""Idioms shared by the CrossHair harnesses (DESIGN.md Appendix A): cuts that keep symbolic values
symbolic until they cross into C code, and that remove formatting / logging / clock from the paths."""
import logging
import os

import casadi as ca

try:
    from crosshair import core as _core
    from crosshair.core import CrossHairValue, deep_realize
    from crosshair.tracers import NoTracing
    HAVE_CH = True
except Exception:  # replay without crosshair
    HAVE_CH = False

    def deep_realize(x):
        return x


def _parse_pin(s):
    out = {}
    for part in (s or "").split(","):
        if "=" in part:
            k, v = part.split("=", 1)
            try:
                out[k.strip()] = int(v)
            except ValueError:
                out[k.strip()] = v.strip()
    return out


PIN = _parse_pin(os.environ.get("VERIF_PIN", ""))


def pin(**kw):
    """Shard precondition: every pinned name must equal its pinned value."""
    for k, v in kw.items():
        if k in PIN and not (v == PIN[k]):
            return False
    return True


def install_format_cut():
    """str.format on a symbolic value realises it (error messages): return a constant instead."""
    if not HAVE_CH:
        return
    prev = _core._PATCH_REGISTRATIONS.get(str.format)

    def _fmt(self, *a, **kw):
        with NoTracing():
            sym = any(isinstance(x, CrossHairValue) for x in a) or any(isinstance(x, CrossHairValue) for x in kw.values())
        if sym:
            return "<fmt>"
        if prev is not None:
            return prev(self, *a, **kw)
        return self.format(*a, **kw)

    _core._PATCH_REGISTRATIONS[str.format] = _fmt


_casadi_wrapped = False


def install_casadi_realizers():
    """SWIG rejects CrossHair's symbolic ints: realise only at the moment a value crosses into C++."""
    global _casadi_wrapped
    if _casadi_wrapped:
        return
    _casadi_wrapped = True
    gi = ca.MX.__getitem__
    ca.MX.__getitem__ = lambda self, k: gi(self, deep_realize(k))
    sym = ca.MX.sym

    def _sym(*a):
        return sym(*[deep_realize(x) for x in a])

    ca.MX.sym = staticmethod(_sym)
    dmi = ca.DM.__getitem__
    ca.DM.__getitem__ = lambda self, k: dmi(self, deep_realize(k))


class NullLogger:
    level = logging.WARNING

    def _n(self, *a, **k):
        pass

    debug = info = warning = error = exception = critical = log = _n

    def setLevel(self, *_):
        pass

    def getEffectiveLevel(self):
        return logging.WARNING

    def isEnabledFor(self, *_):
        return False


def silence(*modules):
    for m in modules:
        for attr in ("logger", "log"):
            if hasattr(m, attr):
                setattr(m, attr, NullLogger())
