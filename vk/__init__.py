"""Verification kit.  Importing it isolates pymoca's on-disk parse cache per process (see bin/check)."""
import os

_BASE = os.environ.get("VERIF_XDG_BASE")


def _repoint():
    if _BASE:
        os.environ["XDG_CACHE_HOME"] = os.path.join(_BASE, str(os.getpid()))


_repoint()
if hasattr(os, "register_at_fork"):
    os.register_at_fork(after_in_child=_repoint)
