"""CrossHair harness for C27: the files of a library are parsed (outside tracing), then merged in a given
order with Tree.extend exactly as tools.compiler.parse_all / casadi.api._compile_model do, and every class is
flattened; the flat models must equal those of file order 0.  All literals (package constants included) are
symbolic."""
import itertools
import pickle

from pymoca import ast, parser, tree
from props.hflat import subst, flat, same
from vk import chstubs
from vk.chstubs import pin, PIN

chstubs.install_format_cut()
chstubs.silence(tree, parser)

LIBS = {
    "pkgconst": ([
        "package P\n  constant Real g = 7001;\n  model M\n    Real x;\n  equation\n    x = g * 7002;\n  end M;\nend P;\n",
        "within P;\nmodel N\n  M m;\n  Real y;\nequation\n  y = m.x + g + 7003;\nend N;\n",
    ], ["P.M", "P.N"]),
    "nested": ([
        "package P\n  package Q\n    constant Real k = 7001;\n  end Q;\nend P;\n",
        "within P.Q;\nmodel R\n  Real r = k * 7002;\nend R;\n",
        "within P;\nmodel S\n  Q.R q;\n  Real s;\nequation\n  s = q.r + Q.k + 7003;\nend S;\n",
    ], ["P.Q.R", "P.S"]),
    "placeholder-only": ([
        "within P;\nmodel A\n  Real a = 7001;\nend A;\n",
        "within P;\nmodel B\n  extends A;\n  Real b = a + 7002;\nend B;\n",
        "model Top\n  P.B pb;\n  Real t = pb.b * 7003;\nend Top;\n",
    ], ["P.A", "P.B", "Top"]),
    "four": ([
        "package P\n  constant Real g = 7001;\n  import SI = P.Sub;\nend P;\n",
        "within P;\npackage Sub\n  constant Real c = 7002;\n  type Len = Real(min = 0);\nend Sub;\n",
        "within P.Sub;\nmodel Leaf\n  Len l = c * 7003;\nend Leaf;\n",
        "within P;\nmodel Use\n  Sub.Leaf lf;\n  Real u;\nequation\n  u = lf.l + g + Sub.c + 7004;\nend Use;\n",
    ], ["P.Sub.Leaf", "P.Use"]),
    "plain": ([
        "model A\n  parameter Real p = 7001;\n  Real x;\nequation\n  x = p;\nend A;\n",
        "model B\n  extends A(p = 7002);\n  Real y = x + 7003;\nend B;\n",
        "model C\n  A a;\n  B b;\nend C;\n",
    ], ["A", "B", "C"]),
}

LIB = PIN.get("lib", "pkgconst")
FILES, NAMES = LIBS[LIB]
PERMS = list(itertools.permutations(range(len(FILES))))
_PARSED = []
for _txt in FILES:  # at import time: ANTLR never runs under tracing
    _t = parser.parse(_txt, bypass_cache=True)
    if _t is None:
        raise ValueError("library file does not parse: " + _txt[:40])
    _PARSED.append(pickle.dumps(_t))


def merged(perm, vals, style):
    """style 0: onto an empty ast.Tree (tools.compiler.parse_all); style 1: onto the first file's tree
    (casadi.api._compile_model)."""
    trees = [subst(pickle.loads(_PARSED[i]), vals) for i in perm]
    if style == 0:
        t = ast.Tree(name="ModelicaTree")
        for x in trees:
            t.extend(x)
    else:
        t = trees[0]
        for x in trees[1:]:
            t.extend(x)
    return t


def flats(perm, vals, style):
    out = []
    for n in NAMES:
        out.append(flat(merged(perm, vals, style), n))
    return out


def order(pi: int, style: int, v1: int, v2: int, v3: int, v4: int) -> int:
    """
    pre: 0 <= pi < len(PERMS) and 0 <= style <= 1 and pin(pi=pi, style=style)
    post: _ == 1
    """
    if "pi" in PIN:
        pi, style = PIN["pi"], PIN["style"]
    vals = [v1, v2, v3, v4]
    a = flats(PERMS[0], vals, style)
    b = flats(PERMS[pi], vals, style)
    for x, y in zip(a, b):
        if not same(x, y):
            return 0
    return 1


def reach_order(pi: int, style: int, v1: int, v2: int, v3: int, v4: int) -> int:
    """
    pre: 0 <= pi < len(PERMS) and 0 <= style <= 1 and pin(pi=pi, style=style)
    post: _ == 0
    """
    return order(pi, style, v1, v2, v3, v4)
