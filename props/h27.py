"""CrossHair harness for C27: the files of a library are parsed (outside tracing), then merged in a given
order with Tree.extend exactly as tools.compiler.parse_all / casadi.api._compile_model do, and every class is
flattened; the flat models must equal those of file order 0.  All literals (package constants included) are
symbolic.

`order` works on trees parsed once at import; `history` parses every file anew at the moment it is merged
(ANTLR inside a NoTracing block), first with one set of literals and then with another one, so that anything
the parser keeps between parses of one process is part of the claim.

LIBS is also the family of the concrete stages of props/c27.py (fresh-process assembly sequences, structural
comparison of the merged trees, directory / library_folders walks of the CasADi API); c27.py reads it from
this file's source with ast.literal_eval, so it must stay a plain literal."""
import contextlib
import itertools
import pickle

from pymoca import ast, parser, tree
from props.hflat import subst, flat, same
from vk import chstubs
from vk.chstubs import pin, PIN

try:
    from crosshair.tracers import NoTracing
except Exception:  # concrete replay without crosshair
    NoTracing = contextlib.nullcontext

chstubs.install_format_cut()
chstubs.silence(tree, parser)

LIBS = {
    "pkgconst": ([
        "package P\n  constant Real g = 7001;\n  model M\n    Real x;\n  equation\n    x = g * 7002;\n  end M;\nend P;\n",
        "within P;\nmodel N\n  M m;\n  Real y;\nequation\n  y = m.x + g + 7003;\nend N;\n",
    ], ["P.M", "P.N"]),
    "nested": ([
        "package P\n  package Q\n    constant Real k = 7001;\n  end Q;\nend P;\n",
        "within P.Q;\nmodel R\n  Real r = k * 7002;\nend R;\n",
        "within P;\nmodel S\n  Q.R q;\n  Real s;\nequation\n  s = q.r + Q.k + 7003;\nend S;\n",
    ], ["P.Q.R", "P.S"]),
    "placeholder-only": ([
        "within P;\nmodel A\n  Real a = 7001;\nend A;\n",
        "within P;\nmodel B\n  extends A;\n  Real b = a + 7002;\nend B;\n",
        "model Top\n  P.B pb;\n  Real t = pb.b * 7003;\nend Top;\n",
    ], ["P.A", "P.B", "Top"]),
    "four": ([
        "package P\n  constant Real g = 7001;\n  import SI = P.Sub;\nend P;\n",
        "within P;\npackage Sub\n  constant Real c = 7002;\n  type Len = Real(min = 0);\nend Sub;\n",
        "within P.Sub;\nmodel Leaf\n  Len l = c * 7003;\nend Leaf;\n",
        "within P;\nmodel Use\n  Sub.Leaf lf;\n  Real u;\nequation\n  u = lf.l + g + Sub.c + 7004;\nend Use;\n",
    ], ["P.Sub.Leaf", "P.Use"]),
    "plain": ([
        "model A\n  parameter Real p = 7001;\n  Real x;\nequation\n  x = p;\nend A;\n",
        "model B\n  extends A(p = 7002);\n  Real y = x + 7003;\nend B;\n",
        "model C\n  A a;\n  B b;\nend C;\n",
    ], ["A", "B", "C"]),
    # -- a package's own file WITHOUT package-level constants: everything a model of the package needs from it
    #    are its import clauses (renamed + unqualified) and a nested package
    "imports-only": ([
        "package Units\n  type Length = Real(nominal = 7001);\n  type Time = Real(nominal = 60);\nend Units;\n",
        "package Plant \"plant library\"\n  import L = Units.Length;\n  import Units.*;\n  package Data\n    constant Real g = 7002;\n  end Data;\nend Plant;\n",
        "within Plant;\nmodel Tank\n  L h(start = 7003);\n  Time tau;\n  parameter Real a = 7004 * Data.g;\nequation\n  der(h) = -a * h;\n  tau = 3;\nend Tank;\n",
    ], ["Plant.Tank"]),
    # -- own file with nothing but a qualified import (single name) and a description string
    "qualified-import": ([
        "package Units\n  type Mass = Real(min = 7001);\n  constant Real u = 7002;\nend Units;\n",
        "package Q \"only an import\"\n  import Units.Mass;\n  import Units.u;\nend Q;\n",
        "within Q;\nmodel Body\n  Mass m(start = 7003);\n  Real w;\nequation\n  w = m * 7004;\nend Body;\n",
    ], ["Q.Body"]),
    # -- own file with nothing but an extends clause: the package itself is flattened (inherited constants)
    "extends-only": ([
        "package Base\n  constant Real g = 7001;\n  constant Real h = g + 7002;\nend Base;\npackage P\n  extends Base;\nend P;\n",
        "within P;\nmodel N\n  Real y = 7003;\nend N;\n",
    ], ["P", "P.N"]),
    # -- three levels of within clauses; every level has its own constant
    "deep": ([
        "package P\n  constant Real i = 7001;\n  package Q\n    constant Real j = 7002;\n    package R\n      constant Real k = 7003;\n    end R;\n  end Q;\nend P;\n",
        "within P.Q.R;\nmodel A\n  Real a = k + j + i;\nend A;\n",
        "within P.Q;\nmodel B\n  R.A ra;\n  Real b = ra.a + j * R.k + 7004;\nend B;\n",
        "within P;\nmodel C\n  Q.B qb;\n  Real c = qb.b + Q.R.k + i;\nend C;\n",
    ], ["P.Q.R.A", "P.Q.B", "P.C"]),
    # -- the same class name at top level and inside the package (the inner one must win in every order)
    "shadow": ([
        "model A\n  Real a = 7001;\nend A;\n",
        "package P\n  constant Real g = 7002;\nend P;\n",
        "within P;\nmodel A\n  Real a2 = g + 7003;\nend A;\n",
        "within P;\nmodel B\n  A x;\n  Real b = x.a2 + 7004;\nend B;\n",
    ], ["A", "P.A", "P.B"]),
    # -- a package nested in a package of the same name (within P.P)
    "same-name": ([
        "package P\n  constant Real g = 7001;\n  package P\n    constant Real k = 7002;\n  end P;\nend P;\n",
        "within P.P;\nmodel M\n  Real m = k * 7003;\nend M;\n",
        "within P;\nmodel N\n  P.M pm;\n  Real n = pm.m + P.k + g + 7004;\nend N;\n",
    ], ["P.P.M", "P.N"]),
    # -- two top-level packages, each with its own file and a within file, using each other
    "two-packages": ([
        "package A\n  constant Real a = 7001;\nend A;\n",
        "package B\n  import A.a;\n  constant Real b = 7002;\nend B;\n",
        "within A;\nmodel MA\n  Real x = a + B.b + 7003;\nend MA;\n",
        "within B;\nmodel MB\n  A.MA ma;\n  Real y = ma.x + a + b + 7004;\nend MB;\n",
    ], ["A.MA", "B.MB"]),
    # -- class prefixes and annotation of the package's own file (concrete stages only)
    "prefixes": ([
        "model Outer\n  Real o = 7001;\nend Outer;\n",
        "final encapsulated partial package P \"doc\"\n  constant Real g = 7002;\n  annotation(version = \"1\");\nend P;\n",
        "within P;\nmodel N\n  Outer q;\n  Real y = g + q.o + 7003;\nend N;\n",
        "within P;\nmodel K\n  Real z = g + 7004;\nend K;\n",
    ], ["P.N", "P.K"]),
}

LIB = PIN.get("lib", "pkgconst")
FILES, NAMES = LIBS[LIB]
PERMS = list(itertools.permutations(range(len(FILES))))
_PARSED = []
for _txt in FILES:  # at import time: ANTLR never runs under tracing
    _t = parser.parse(_txt, bypass_cache=True)
    if _t is None:
        raise ValueError("library file does not parse: " + _txt[:40])
    _PARSED.append(pickle.dumps(_t))


def merged(perm, vals, style):
    """style 0: onto an empty ast.Tree (tools.compiler.parse_all); style 1: onto the first file's tree
    (casadi.api._compile_model)."""
    trees = [subst(pickle.loads(_PARSED[i]), vals) for i in perm]
    if style == 0:
        t = ast.Tree(name="ModelicaTree")
        for x in trees:
            t.extend(x)
    else:
        t = trees[0]
        for x in trees[1:]:
            t.extend(x)
    return t


def flats(perm, vals, style):
    out = []
    for n in NAMES:
        out.append(flat(merged(perm, vals, style), n))
    return out


def order(pi: int, style: int, v1: int, v2: int, v3: int, v4: int) -> int:
    """
    pre: 0 <= pi < len(PERMS) and 0 <= style <= 1 and pin(pi=pi, style=style)
    post: _ == 1
    """
    if "pi" in PIN:
        pi, style = PIN["pi"], PIN["style"]
    vals = [v1, v2, v3, v4]
    a = flats(PERMS[0], vals, style)
    b = flats(PERMS[pi], vals, style)
    for x, y in zip(a, b):
        if not same(x, y):
            return 0
    return 1


def fresh(perm, vals, style):
    """Like merged(), but every file is parsed anew at the moment it is merged (parse and merge interleaved,
    as tools.compiler.parse_all and casadi.api._compile_model do).  ANTLR runs outside tracing."""
    t = ast.Tree(name="ModelicaTree") if style == 0 else None
    for i in perm:
        with NoTracing():
            x = parser.parse(FILES[i], bypass_cache=True)
        x = subst(x, vals)
        if t is None:
            t = x
        else:
            t.extend(x)
    return t


def fresh_flats(perm, vals, style):
    return [flat(fresh(perm, vals, style), n) for n in NAMES]


def history(pi: int, style: int, v1: int, v2: int, v3: int, v4: int, w1: int, w2: int, w3: int, w4: int) -> int:
    """
    pre: 0 <= pi < len(PERMS) and 0 <= style <= 1 and pin(pi=pi, style=style)
    post: _ == 1
    """
    # The library is assembled (order pi) and flattened with literals v; then the same files - same package
    # and class names - are parsed and assembled again with literals w in order 0 and in order pi.  The two
    # must agree with each other and with the trees parsed before anything was merged in this process.
    if "pi" in PIN:
        pi, style = PIN["pi"], PIN["style"]
    vals, wals = [v1, v2, v3, v4], [w1, w2, w3, w4]
    fresh_flats(PERMS[pi], vals, style)
    a = fresh_flats(PERMS[0], wals, style)
    b = fresh_flats(PERMS[pi], wals, style)
    c = flats(PERMS[0], wals, style)
    for x, y, z in zip(a, b, c):
        if not same(x, y) or not same(x, z):
            return 0
    return 1


def reach_order(pi: int, style: int, v1: int, v2: int, v3: int, v4: int) -> int:
    """
    pre: 0 <= pi < len(PERMS) and 0 <= style <= 1 and pin(pi=pi, style=style)
    post: _ == 0
    """
    return order(pi, style, v1, v2, v3, v4)
