"""C20 - the model cache is never used when stale; C21 - an interrupted or in-progress cache write never
breaks later loads (Engine A, CrossHair; props/h20.py).

One step of the real transfer_model / load_model from an arbitrary state: integer modification times of
every Modelica file (model folder, an added file, a library folder and a sub-folder of it) and of the cache
file, which files differ from what the cache was built from (premise: such a file is strictly newer than
the cache), stored vs current version and options (a Boolean option, a string/None option, the library
folder list), cache vs codegen; for C21 what a reader can observe of the cache file (absent / empty /
strict prefix / complete) and which exception the unpickler raises on a damaged file.
Counterexamples are replayed in the real environment: a real folder with os.utime-controlled mtimes (C20),
a real cache file truncated at many offsets (C21), and the unstubbed transfer_model."""
import json
import logging
import os
import re
import shutil
import sys
import tempfile

from vk import chx
from vk.report import Report, std_args

HARNESS = os.path.join(os.path.dirname(os.path.abspath(__file__)), "h20.py")
NAMES = ["m_t", "m_u", "m_l", "m_n", "m_c", "ch_t", "u_present", "u_new", "ch_l", "ch_n", "ver_same", "da_old", "da_new", "rx_old", "rx_new", "lib_old", "lib_new", "codegen", "ver_near"]

T1 = "model T\n  parameter Real p = 2;\n  Real x(start = 1);\n  Real y;\n  L l;\nequation\n  der(x) = -p * x;\n  y = 2 * x + l.v;\nend T;\n"
T2 = T1.replace("-p * x", "-3 * p * x")
L1 = "model L\n  Real v;\n  N n;\nequation\n  v = 1 + n.w;\nend L;\n"
L2 = L1.replace("1 + n.w", "7 + n.w")
N1 = "model N\n  Real w;\nequation\n  w = 10;\nend N;\n"
N2 = N1.replace("w = 10", "w = 20")
U1 = "model U\n  Real q;\nequation\n  q = 5;\nend U;\n"


def _signature(m):
    """Numeric fingerprint of a model: names + residual at a fixed point."""
    import numpy as np
    names = [v.symbol.name() for v in m.states + m.alg_states + m.parameters]
    f = m.dae_residual_function
    args = [1.0] + [np.arange(1, f.numel_in(i) + 1, dtype=float) * 0.37 + i for i in range(1, f.n_in())]
    r = f(*args)
    vals = [round(float(r[k]), 9) for k in range(r.numel())] if f.n_out() else []
    return names, sorted(vals)


def real_stale(a):
    """Replays a `stale` counterexample with real files; -> None if the real tool returns the fresh model,
    else a description."""
    from pymoca.backends.casadi import api as A
    logging.disable(logging.CRITICAL)
    d = tempfile.mkdtemp(prefix="c20_")
    try:
        mdl = os.path.join(d, "mdl")
        libs = [os.path.join(d, "lib"), os.path.join(d, "lib2")]
        os.makedirs(mdl)
        for i, lb in enumerate(libs):
            os.makedirs(os.path.join(lb, "sub"))
            # the two libraries differ (lib2's N gives another constant) so that switching is observable
            open(os.path.join(lb, "L.mo"), "w").write(L1)
            open(os.path.join(lb, "sub", "N.mo"), "w").write(N1 if i == 0 else N1.replace("w = 10", "w = 11"))
        open(os.path.join(mdl, "T.mo"), "w").write(T1)
        if a["u_present"] and not a["u_new"]:
            open(os.path.join(mdl, "U.mo"), "w").write(U1)
        rx = [None, "^a$", "^b$"]
        lf = lambda k: [] if k == 0 else [libs[k - 1]]
        if a["lib_old"] == 0 or a["lib_new"] == 0:
            return "skip: model needs a library"  # T uses L: only library-to-library switches are replayable
        old = {"cache": not a["codegen"], "codegen": bool(a["codegen"]), "detect_aliases": bool(a["da_old"]),
               "eliminable_variable_expression": rx[a["rx_old"]], "library_folders": lf(a["lib_old"])}
        new = dict(old, detect_aliases=bool(a["da_new"]), eliminable_variable_expression=rx[a["rx_new"]], library_folders=lf(a["lib_new"]))
        ver = A.__version__
        if not a["ver_same"]:
            from props import h20 as _h
            A.__version__ = _h._near_version(ver) if a.get("ver_near") else "0.0.other"
        try:
            A.transfer_model(mdl, "T", dict(old))
        finally:
            A.__version__ = ver
        cache = os.path.join(mdl, "T.pymoca_cache")
        base = 1_600_000_000
        os.utime(cache, (base + a["m_c"] / 4.0, base + a["m_c"] / 4.0))  # harness time stamps are quarter seconds
        def put(path, text, mt):
            if text is not None:
                open(path, "w").write(text)
            os.utime(path, (base + mt / 4.0, base + mt / 4.0))
        put(os.path.join(mdl, "T.mo"), T2 if a["ch_t"] else None, a["m_t"])
        if a["u_present"]:
            put(os.path.join(mdl, "U.mo"), U1 if a["u_new"] else None, a["m_u"])
        for lb in libs:
            put(os.path.join(lb, "L.mo"), L2 if a["ch_l"] else None, a["m_l"])
            put(os.path.join(lb, "sub", "N.mo"), (open(os.path.join(lb, "sub", "N.mo")).read().replace("w = 1", "w = 2")) if a["ch_n"] else None, a["m_n"])
        got = A.transfer_model(mdl, "T", dict(new))
        fresh = A._compile_model(mdl, "T", A._merge_default_options(dict(new, expand_mx=True)))
        sg, sf = _signature(got), _signature(fresh)
        if sg != sf:
            return f"transfer_model returned a model with fingerprint {sg}, a fresh compile of the current sources/options gives {sf}"
        return None
    finally:
        logging.disable(logging.NOTSET)
        shutil.rmtree(d, ignore_errors=True)


def real_damaged(codegen=False):
    """Truncate / empty a real cache file at many offsets and call the real transfer_model.
    -> list of (offset, exception) that escaped."""
    from pymoca.backends.casadi import api as A
    logging.disable(logging.CRITICAL)
    d = tempfile.mkdtemp(prefix="c21_")
    bad = []
    n = 0
    try:
        open(os.path.join(d, "T.mo"), "w").write(T1.replace("  L l;\n", "").replace(" + l.v", ""))
        opts = {"cache": True}
        A.transfer_model(d, "T", dict(opts))
        cache = os.path.join(d, "T.pymoca_cache")
        data = open(cache, "rb").read()
        offs = sorted(set([0, 1, 2, 3, 10, 50, 100, len(data) - 1, len(data) - 2, len(data) // 2] + list(range(0, len(data), max(1, len(data) // 40)))))
        for off in offs:
            open(cache, "wb").write(data[:off])
            n += 1
            try:
                m = A.transfer_model(d, "T", dict(opts))
                if not m.states:
                    bad.append((off, "returned a model without states"))
            except Exception as e:
                bad.append((off, f"{type(e).__name__}: {str(e)[:80]}"))
        return n, len(data), bad
    finally:
        logging.disable(logging.NOTSET)
        shutil.rmtree(d, ignore_errors=True)


def real_crash():
    """Interrupt the real save_model (KeyboardInterrupt: no 'except Exception' clean-up runs) after k bytes for a
    range of k, with and without a complete cache of an EARLIER version of the model in place, then call the real
    transfer_model twice more: both must return the model a cache-free compile of the current file gives.
    -> (runs, list of failures)"""
    import pickle as _pickle
    import time
    import types
    from pymoca.backends.casadi import api as A
    logging.disable(logging.CRITICAL)
    bad, runs = [], 0
    base = T1.replace("  L l;\n", "").replace(" + l.v", "")
    priors = {"no-prior-cache": None,
              "prior-cache-same-size-edit": base.replace("y = 2 * x", "y = 5 * x"),
              "prior-cache-variable-added": base.replace("  Real y;\n", "  Real y;\n  Real w;\n").replace("  y = 2 * x", "  w = 4 * x;\n  y = 2 * x")}
    ref_dir = tempfile.mkdtemp(prefix="c21r_")
    try:
        open(os.path.join(ref_dir, "T.mo"), "w").write(base)
        want = _signature(A.transfer_model(ref_dir, "T", {"cache": False}))
    finally:
        shutil.rmtree(ref_dir, ignore_errors=True)
    for prior, old_text in priors.items():
        for mode in ("before-first-byte", "1", "2", "3", "16", "quarter", "mid-dump", "all-but-one", "after-dump-before-close"):
            d = tempfile.mkdtemp(prefix="c21c_")
            try:
                mo = os.path.join(d, "T.mo")
                cache = os.path.join(d, "T.pymoca_cache")
                now = time.time()
                if old_text is not None:
                    open(mo, "w").write(old_text)
                    os.utime(mo, (now - 300, now - 300))
                    A.transfer_model(d, "T", {"cache": True})
                    os.utime(cache, (now - 200, now - 200))
                open(mo, "w").write(base)
                os.utime(mo, (now - 100, now - 100))

                def dump(obj, f, protocol=None, _mode=mode):
                    data = _pickle.dumps(obj, protocol=protocol)
                    k = {"before-first-byte": 0, "quarter": len(data) // 4, "mid-dump": len(data) // 2, "all-but-one": len(data) - 1,
                         "after-dump-before-close": len(data)}.get(_mode)
                    k = int(_mode) if k is None else k
                    if k:
                        f.write(data[:k])
                        f.flush()
                    raise KeyboardInterrupt("writer interrupted")
                A.pickle = types.SimpleNamespace(**{k: getattr(_pickle, k) for k in dir(_pickle) if not k.startswith("__")})
                A.pickle.dump = dump
                try:
                    try:
                        A.transfer_model(d, "T", {"cache": True})
                    except KeyboardInterrupt:
                        pass
                finally:
                    A.pickle = _pickle
                for call in (1, 2):
                    runs += 1
                    try:
                        m = A.transfer_model(d, "T", {"cache": True})
                        if not m.states:
                            bad.append((f"{prior}:{mode}", call, "returned a model without states"))
                        elif _signature(m) != want:
                            bad.append((f"{prior}:{mode}", call, "returned a model that differs from a cache-free compile of the current file"))
                    except Exception as e:
                        bad.append((f"{prior}:{mode}", call, f"{type(e).__name__}: {str(e)[:80]}"))
            finally:
                shutil.rmtree(d, ignore_errors=True)
    logging.disable(logging.NOTSET)
    return runs, bad


def decode(v):
    argtxt = chx.call_args(v.detail) or ""
    toks = re.findall(r"True|False|-?\d+", argtxt)
    return [(x == "True") if x in ("True", "False") else int(x) for x in toks], argtxt


def main_c20(a):
    from props import h20
    rep = Report("C20", a.tier, "model_checking", a.seed)
    spec = []
    for cg in (0, 1):
        for lo in range(3):
            for ln in range(3):
                if lo == ln:
                    spec.append(("stale", f"codegen={cg},lib_old={lo},lib_new={ln}"))
                elif a.tier == "thorough" or (cg == 0 and (lo, ln) in ((1, 2), (0, 1), (2, 0))):
                    spec.append(("stale", f"codegen={cg},lib_old={lo},lib_new={ln}"))
                    spec.append(("stale_other", f"codegen={cg},lib_old={lo},lib_new={ln}"))
    spec.append(("reach_stale", "codegen=0,lib_old=1,lib_new=1"))
    ct = 420 if a.tier == "quick" else 1500
    vs = chx.run(HARNESS, spec, jobs=a.jobs, cond_timeout=ct, path_timeout=60)
    reach = [v for v in vs if v.func.startswith("reach_")]
    vs = [v for v in vs if not v.func.startswith("reach_")]
    n = chx.summarize(rep, vs)
    for v in reach:
        rep.coverage["reachability_witness"] = v.kind == "counterexample"
        if v.kind != "counterexample":
            rep.harness_error(f"reachability twin did not produce a witness: {v.kind} {v.detail[:200]}")
    nreal = 0
    # counterexamples that can be replayed with real files (library-to-library switches) first
    order = sorted(vs, key=lambda v: 0 if ("lib_old=0" not in v.pin and "lib_new=0" not in v.pin) else 1)
    for v in order:
        if v.kind not in ("counterexample", "exception"):
            continue
        args, argtxt = decode(v)
        if len(args) == len(NAMES) - 1:
            args.append(False)
        if len(args) != len(NAMES):
            rep.harness_error(f"cannot decode counterexample {v.func}({argtxt})")
            continue
        pins = dict(kv.split("=") for kv in v.pin.split(","))
        for k, val in pins.items():
            args[NAMES.index(k)] = bool(int(val)) if k == "codegen" else int(val)
        res = getattr(h20, v.func)(*args)
        if res == 1:
            # CrossHair reports one model of the path condition; arguments the failing path never constrained may
            # come out with values that take another path.  Search the neighbourhood (same time stamps, every
            # setting of the flags and option indices) for a concrete failing tuple before giving up.
            import itertools
            found = None
            bidx = [NAMES.index(k) for k in ("ch_t", "u_present", "u_new", "ch_l", "ch_n", "ver_same", "da_old", "da_new", "ver_near")]
            ridx = [NAMES.index(k) for k in ("rx_old", "rx_new")]
            for bits in itertools.product((False, True), repeat=len(bidx)):
                for rx in itertools.product(range(3), repeat=2):
                    cand = list(args)
                    for i, b in zip(bidx, bits):
                        cand[i] = b
                    for i, r in zip(ridx, rx):
                        cand[i] = r
                    f_ = dict(zip(NAMES, cand))
                    mc = f_["m_c"]
                    if (f_["ch_t"] and not f_["m_t"] > mc) or (f_["u_present"] and f_["u_new"] and not f_["m_u"] > mc) or (f_["ch_l"] and not f_["m_l"] > mc) or (f_["ch_n"] and not f_["m_n"] > mc):
                        continue
                    if v.func == "stale_other" and f_["lib_old"] == f_["lib_new"]:
                        continue
                    if getattr(h20, "_stale")(*cand[:-1], v.func == "stale", cand[-1]) != 1:
                        found = cand
                        break
                if found:
                    break
            if not found:
                rep.harness_error(f"counterexample {v.func}({argtxt}) did not reproduce concretely")
                continue
            args = found
        f = dict(zip(NAMES, args))
        only_lib = (f["lib_old"] != f["lib_new"] and not (f["ch_t"] or (f["u_present"] and f["u_new"]) or (f["lib_new"] != 0 and (f["ch_l"] or f["ch_n"])))
                    and f["ver_same"] and f["da_old"] == f["da_new"] and f["rx_old"] == f["rx_new"])
        real = None
        if not f["codegen"]:
            try:
                real = real_stale(f)
            except Exception as e:
                real = f"real replay raised {type(e).__name__}: {e}"
            nreal += 1
        if only_lib and v.func == "stale":
            case = "library_folders-changed-only"
        else:
            changed = [k for k in ("ch_t", "ch_l", "ch_n") if f[k]] + (["added-file"] if f["u_present"] and f["u_new"] else []) + \
                      ([] if f["ver_same"] else ["version"]) + (["bool-option"] if f["da_old"] != f["da_new"] else []) + (["string-option"] if f["rx_old"] != f["rx_new"] else []) + \
                      (["library_folders"] if f["lib_old"] != f["lib_new"] else [])
            case = f"{v.func}:{'codegen' if f['codegen'] else 'cache'}:" + "+".join(changed or ["nothing-changed"])
        if real is None and not f["codegen"]:
            rep.harness_error(f"{case}: harness counterexample {f} is not reproduced with real files and the real transfer_model")
            continue
        if isinstance(real, str) and real.startswith("skip"):
            real = "(not replayable with real files: " + real + "; replayed through the harness)"
        rep.violation(case, f"transfer_model returns the cached model although {case.split(':')[-1]} changed; flags {f}; real environment: {real}",
                      {"function": v.func, "args": args, "flags": f, "real": real})
    cov = rep.coverage
    cov["states"] = max(1, n["confirmed"])
    cov["transitions"] = max(1, len(vs))
    cov["traces_validated_against_impl"] = nreal
    cov["samples"] = [{"function": v.func, "pin": v.pin, "verdict": v.kind, "secs": round(v.secs, 1)} for v in vs][:10]
    cov["exhaustive"] = all(v.kind in ("confirmed",) or (v.kind == "counterexample") for v in vs)
    cov["functions_encoded"] = ["casadi.api.transfer_model, load_model (mtime walk, version check, options check, fall-through to recompilation) executed symbolically by CrossHair"]
    cov["bounds"] = ("one transfer_model step from an arbitrary folder state: T.mo, an optional second (old or newly added) file, a library folder with a file and a sub-folder file; "
                     "all mtimes unbounded integers; version same / other release / same public version with another local label; a Boolean and a string-or-None option old vs new; library_folders in {[], [lib], [lib2]} old vs new; cache and codegen")
    rep.assumptions += ["stubs: os.walk, os.path.getmtime, open, pickle.load (returns a real db written by a real save_model with the symbolic version/options patched in), "
                        "_compile_model -> token, save_model -> recorder, casadi.external -> the cached Function",
                        "premise of the property: a file whose content differs from what the cache was built from is strictly newer than the cache file",
                        "mtime_check=True (the default); deleting files is not in the property's list of events",
                        "mtimes are quarter-second ticks in a window of 10 (every order pattern, and strictly-later-within-the-same-second); ordering compares ticks, int()/float() behave like float seconds"]
    return rep.finish()


def main_c21(a):
    from props import h20
    rep = Report("C21", a.tier, "model_checking", a.seed)
    spec = [("damaged", f"observe={ob},codegen={cg}") for ob in range(4) for cg in (0, 1)] + [("reach_damaged", "observe=3,codegen=0")]
    vs = chx.run(HARNESS, spec, jobs=a.jobs, cond_timeout=420 if a.tier == "quick" else 1200, path_timeout=60)
    reach = [v for v in vs if v.func.startswith("reach_")]
    vs = [v for v in vs if not v.func.startswith("reach_")]
    n = chx.summarize(rep, vs)
    for v in reach:
        rep.coverage["reachability_witness"] = v.kind == "counterexample"
        if v.kind != "counterexample":
            rep.harness_error(f"reachability twin did not produce a witness: {v.kind} {v.detail[:200]}")
    # real environment, always: a real cache file cut at many offsets
    nreal, size, bad = real_damaged()
    for off, what in bad[:5]:
        rep.violation(f"real-truncation:{what.split(':')[0]}", f"real cache file ({size} bytes) truncated to {off} bytes: transfer_model {what}",
                      {"offset": off, "size": size, "what": what, "all": bad[:20]})
    ncrash, cbad = real_crash()
    nreal += ncrash
    for mode, call, what in cbad[:5]:
        rep.violation(f"real-crash:{mode}:{what.split(':')[0]}", f"save_model interrupted ({mode}); transfer_model call #{call} afterwards: {what}", {"mode": mode, "call": call, "what": what, "crash": True})
    for v in vs:
        if v.kind in ("counterexample", "exception"):
            args, argtxt = decode(v)
            if len(args) == 6:
                pins = dict(kv.split("=") for kv in v.pin.split(","))
                args[0], args[4] = int(pins["observe"]), bool(int(pins["codegen"]))
            res = h20.damaged(*args) if len(args) == 6 else None
            if res == 1:
                rep.harness_error(f"counterexample damaged({argtxt}) did not reproduce concretely")
            elif not bad:
                kinds = ["absent", "empty", "prefix", "complete"]
                rep.violation(f"damaged:{kinds[args[0]] if args else '?'}:{h20.EXC[args[1]].__name__ if args else '?'}",
                              f"transfer_model does not fall back to recompilation when the cache file is {kinds[args[0]]} and unpickling raises {h20.EXC[args[1]].__name__} "
                              "(harness-level replay; real truncation of a pickle raises only EOFError/UnpicklingError)", {"args": args})
    cov = rep.coverage
    cov["states"] = max(1, n["confirmed"])
    cov["transitions"] = max(1, len(vs))
    cov["traces_validated_against_impl"] = nreal
    cov["samples"] = [{"function": v.func, "verdict": v.kind, "secs": round(v.secs, 1)} for v in vs] + [{"real_truncation_offsets_tried": nreal, "cache_file_bytes": size, "escaped": bad[:3]}]
    cov["exhaustive"] = all(v.kind == "confirmed" for v in vs)
    cov["functions_encoded"] = ["casadi.api.transfer_model, load_model exception handling and fall-back to recompilation (CrossHair)"]
    cov["bounds"] = ("reader observation in {no file, empty file, strict prefix, complete file} x unpickling exception in {UnpicklingError, EOFError, AttributeError, ImportError, IndexError} "
                     "x cache/codegen x version x mtimes (unbounded ints); real stages: a real cache file truncated at ~50 offsets; the real save_model interrupted after k bytes (k in 0, 1, 2, 3, 16, quarter, half, all but one, all) with no earlier cache / a complete cache of an earlier version of the model (same-size edit, variable added) in place, followed by two real transfer_model calls whose result is compared with a cache-free compile of the current file")
    rep.assumptions += ["crash points and reader/writer interleavings are abstracted to what the reader can observe of the single cache file (absent, empty, strict prefix, complete) "
                        "and to the documented set of exceptions unpickling damaged input raises; byte offsets are exercised only in the real replay",
                        "true two-process interleavings are outside the claim"]
    return rep.finish()


def main(prop):
    a = std_args(prop)
    if a.replay:
        from props import h20
        r = json.load(open(a.replay))["replay"]
        if prop == "C20":
            res = getattr(h20, r.get("function", "stale"))(*r["args"])
        else:
            if r.get("crash"):
                _, bad = real_crash()
                print(bad[:5])
                return 1 if bad else 0
            if "offset" in r:
                _, _, bad = real_damaged()
                print(bad[:5])
                return 1 if bad else 0
            res = h20.damaged(*r["args"])
        print("harness returned", res)
        return 0 if res == 1 else 1
    return main_c20(a) if prop == "C20" else main_c21(a)


if __name__ == "__main__":
    sys.exit(main("C20"))
