"""C19 - cached (and code-generated) models equal fresh compiles (Engine B, cache mode).

Real code: api.transfer_model twice on a scratch folder with cache=True: the first call compiles
(generate, simplify, save_model), the second goes through load_model.  Names, order, Python types,
outputs, delay states and the alias relation are compared concretely; z3 proves the four Functions
of the CachedModel equal to those of the fresh Model for ALL inputs and every parameter-dependent
attribute equal for ALL parameter values.  codegen=True (thorough): names / metadata / attributes
only - numeric agreement of the compiled C behind ca.external is outside the claim.
"""
import os
import shutil
import sys
import tempfile
import traceback

import casadi as ca
import numpy as np
import z3

from pymoca.backends.casadi import api
from vk.report import Collector, EncodingGap, Report, run_parallel, std_args
from vk.smt import equiv, modelio, ops, pipeline
from vk.smt.sx2z3 import sx2z3

PROP = "C19"
ATTRS = ("value", "min", "max", "start", "fixed", "nominal")

MODELS = {
 "param-attrs": """model M
  parameter Real p = 2;
  parameter Real q = 3 * p;
  parameter Real r;
  constant Real c = 4;
  Real x(start = p, min = -q, max = q * 2 + 1, nominal = max(p, 1));
  Real y(start = 1.5, max = r);
  input Real u(min = -p, fixed = true);
  output Real z;
equation
  der(x) = -p * x + u + y;
  y = c * x + q;
  z = y;
end M;
""",
 "aliases": """model M
  parameter Real lo = -1;
  Real x(start = 1);
  Real a(min = lo, max = 5);
  Real b(nominal = 10, start = 2);
  Real d;
  output Real e;
equation
  der(x) = -x + d;
  a = x;
  b = -a;
  d = 2 * b + 1;
  e = d;
end M;
""",
 "delay": """model M
  Real x(start = 1);
  Real y, z;
  input Real dt(fixed = true);
  parameter Real h = 3;
equation
  der(x) = -x;
  y = delay(x, 6 * h);
  z = delay(x * 2, dt + h);
end M;
""",
 "delay-loop": """model M
  Real x[3], y[3], a[3];
  input Real z[3];
  input Real dt(fixed = true);
  parameter Real eps = 0.1;
equation
  for i in 2:3 loop
    x[i] = 5 * z[i] * eps;
    y[i] = delay(3 * a[i] * eps, dt);
  end for;
  a = x;
  x[1] = 1; y[1] = 2;
end M;
""",
 "strings": """model M
  parameter String name = "abc";
  constant String kind = "k";
  parameter Real p = 1;
  parameter Integer n = 3;
  parameter Boolean flag = true;
  Integer k(start = 2);
  Boolean b;
  Real x;
equation
  x = p * n;
  k = 4;
  b = flag;
end M;
""",
 "arrays": """model M
  parameter Real q[3] = {1, 2, 3};
  parameter Real p = 2;
  Real v[3](start = {1, 2, 3}, min = -p);
  output Real w[3];
equation
  der(v) = -v .* q;
  w = 2 * v + p;
end M;
""",
 "ifelse-fun": """function f
  input Real x;
  output Real y;
algorithm
  y := x * x + 1;
end f;
model M
  parameter Real p = 2;
  Real x(start = 1, max = f(p));
  Real y;
initial equation
  x = p;
equation
  der(x) = if x > p then -x else f(x) - y;
  y = min(x, p) * sin(time);
end M;
""",
}
OPTSETS = [
    ("plain", {}),
    ("aliases", {"detect_aliases": True}),
    ("inline", {"replace_parameter_expressions": True, "replace_constant_values": True, "eliminate_constant_assignments": True, "detect_aliases": True}),
    ("expand", {"expand_vectors": True, "detect_aliases": True}),
]


def attr_term(val, psyms, pnames, div, numel):
    """z3 terms (list) of one attribute value (python number, DM, list or MX in the parameters)."""
    if isinstance(val, ca.MX):
        f = ca.Function("a", [ca.veccat(*psyms)], [val])
        _, zo, _ = sx2z3(f, [pnames], div)
        t = zo[0]["dense"]
    else:
        try:
            arr = np.array(ca.DM(val)) if isinstance(val, ca.DM) else np.array(val, dtype=float)
        except Exception:
            return None
        t = [ops.const(float(x)) for x in (arr.flatten(order="F") if arr.ndim else [arr])]
    if len(t) == 1 and numel > 1:
        t = t * numel
    return t


def compare(col, case, text, fresh, cached, codegen):
    cats = ["states", "der_states", "alg_states", "inputs", "parameters", "constants"]
    for cat in cats:
        a = [(v.symbol.name(), tuple(v.symbol.shape), v.python_type, frozenset(v.aliases)) for v in getattr(fresh, cat)]
        b = [(v.symbol.name(), tuple(v.symbol.shape), v.python_type, frozenset(v.aliases)) for v in getattr(cached, cat)]
        col.bump("concrete_comparisons")
        if a != b:
            col.violation(f"{case}:{cat}", f"{cat} differ: fresh {a} cached {b}", {"model_text": text})
            return
    for cat in ["string_parameters", "string_constants"]:
        a = [(v.name, v.value, v.start, v.fixed) for v in getattr(fresh, cat)]
        b = [(v.name, v.value, v.start, v.fixed) for v in getattr(cached, cat)]
        col.bump("concrete_comparisons")
        if a != b:
            col.violation(f"{case}:{cat}", f"{cat} differ: {a} vs {b}", {"model_text": text})
    for what in ["outputs", "delay_states"]:
        col.bump("concrete_comparisons")
        if list(getattr(fresh, what)) != list(getattr(cached, what)):
            col.violation(f"{case}:{what}", f"{what}: fresh {getattr(fresh, what)} cached {getattr(cached, what)}", {"model_text": text})
    ra = sorted((c, tuple(sorted(al))) for c, al in fresh.alias_relation)
    rb = sorted((c, tuple(sorted(al))) for c, al in cached.alias_relation)
    col.bump("concrete_comparisons")
    if ra != rb or any(fresh.alias_relation.canonical_signed(v.symbol.name()) != cached.alias_relation.canonical_signed(v.symbol.name())
                       for v in fresh.states + fresh.alg_states):
        col.violation(f"{case}:alias_relation", f"alias relation differs: {ra} vs {rb}", {"model_text": text})
    # attributes
    div = ops.Divisors()
    pf, pc = fresh._symbols(fresh.parameters), cached._symbols(cached.parameters)
    pnames = [nm for s in pf for nm in modelio.sym_elem_names(s)]
    for cat in ["states", "alg_states", "inputs", "parameters", "constants"]:
        for vf, vc in zip(getattr(fresh, cat), getattr(cached, cat)):
            for attr in ATTRS:
                a, b = getattr(vf, attr), getattr(vc, attr)
                n = vf.symbol.numel()
                ta, tb = attr_term(a, pf, pnames, div, n), attr_term(b, pc, pnames, div, n)
                if ta is None or tb is None:
                    if repr(a) != repr(b):
                        col.violation(f"{case}:{vf.symbol.name()}.{attr}", f"attribute {a!r} vs cached {b!r}", {"model_text": text})
                    continue
                if len(ta) != len(tb):
                    col.violation(f"{case}:{vf.symbol.name()}.{attr}:shape", f"attribute has {len(ta)} vs {len(tb)} elements", {"model_text": text})
                    continue
                if not isinstance(a, ca.MX) and not isinstance(b, ca.MX) and not isinstance(a, (list, np.ndarray, ca.DM)):
                    if type(a) is not type(b) and not (isinstance(a, (int, float)) and isinstance(b, (int, float)) and type(a).__mro__[0].__name__ == '_DefaultValue'):
                        if not (type(a).__name__ == "_DefaultValue" or type(b).__name__ == "_DefaultValue"):
                            col.violation(f"{case}:{vf.symbol.name()}.{attr}:type", f"attribute type {type(a).__name__} vs cached {type(b).__name__}", {"model_text": text})
                for k, (x, y) in enumerate(zip(ta, tb)):
                    col.bump("attribute_elements")
                    if x.get_id() == y.get_id():
                        col.count("unsat")
                        continue
                    r, m = equiv.check(col, div.nonzero() + [x != y])
                    if r == "sat":
                        pt = equiv.point_from_model(m, [x, y])
                        xv, yv = equiv.z3eval(x, _nanpt(pt)), equiv.z3eval(y, _nanpt(pt))
                        if not equiv.close(xv, yv):
                            col.violation(f"{case}:{vf.symbol.name()}.{attr}[{k}]", f"attribute differs at {pt}: fresh {xv} cached {yv}", {"model_text": text})
                        else:
                            col.note_inconclusive(f"{case}:{vf.symbol.name()}.{attr}[{k}] sat did not replay")
                    elif r == "unknown":
                        col.note_inconclusive(f"{case}:{vf.symbol.name()}.{attr}[{k}] unknown")
    if codegen:
        return
    names = modelio.model_in_names(fresh)
    for fname, nm in [("dae_residual", names), ("initial_residual", names), ("variable_metadata", [names[6]]), ("delay_arguments", names)]:
        fa, fb = getattr(fresh, fname + "_function"), getattr(cached, fname + "_function")
        n = pipeline.compare_functions(col, fa, fb, nm, case, text, fname)
        col.bump("function_elements", n)
    # delay arguments reconstructed by load_model (MX expressions on the CachedModel)
    if fresh.delay_states:
        if len(fresh.delay_arguments) != len(cached.delay_arguments):
            col.violation(f"{case}:delay_arguments:count", "number of delay arguments differs", {"model_text": text})
        else:
            gf, gc = modelio.model_groups(fresh), modelio.model_groups(cached)
            for i, (da, db) in enumerate(zip(fresh.delay_arguments, cached.delay_arguments)):
                for which, a, b in (("expr", da.expr, db.expr), ("duration", da.duration, db.duration)):
                    fa = ca.Function("d", [ca.veccat(*g) for g in gf], [ca.MX(a)], {"allow_free": False})
                    fb = ca.Function("d", [ca.veccat(*g) for g in gc], [ca.MX(b)], {"allow_free": False})
                    n = pipeline.compare_functions(col, fa, fb, names, case, text, f"delay_arguments[{i}].{which}")
                    col.bump("function_elements", n)


def _nanpt(pt):
    d = pipeline._Default(pt)
    d["__nan__"] = float("nan")
    d["__inf__"] = float("inf")
    return d


def check(col, mid, text, oname, opts, codegen=False):
    case = f"{mid}|{oname}" + ("|codegen" if codegen else "")
    d = tempfile.mkdtemp(prefix="verif_c19_")
    try:
        with open(os.path.join(d, "M.mo"), "w") as f:
            f.write(text)
        o = dict(opts)
        o["codegen" if codegen else "cache"] = True
        try:
            fresh = api.transfer_model(d, "M", dict(o))
        except Exception as e:
            col.append("unsupported", f"{case}: {type(e).__name__}: {str(e)[-80:]}")
            return
        if isinstance(fresh, api.CachedModel):
            col.harness_error(f"{case}: first transfer_model returned a cached model")
            return
        if not os.path.exists(os.path.join(d, "M.pymoca_cache")):
            col.violation(f"{case}:no-cache-file", "transfer_model(cache) wrote no cache file", {"model_text": text})
            return
        try:
            cached = api.transfer_model(d, "M", dict(o))
        except Exception as e:
            col.violation(f"{case}:load-raises:{type(e).__name__}", f"loading the cache raises {type(e).__name__}: {str(e)[-100:]}", {"model_text": text, "options": o})
            return
        if not isinstance(cached, api.CachedModel):
            col.violation(f"{case}:not-served", "second transfer_model did not use the cache it had just written", {"model_text": text, "options": o})
            return
        compare(col, case, text, fresh, cached, codegen)
        col.bump("programs")
    finally:
        shutil.rmtree(d, ignore_errors=True)


def work(item):
    mid, text, oname, opts, codegen = item
    col = Collector()
    try:
        check(col, mid, text, oname, opts, codegen)
        col.sample({"model": mid, "options": opts, "codegen": codegen}, 2)
    except EncodingGap as g:
        col.append("encoding_gaps", f"{mid}|{oname}: {g}")
    except Exception:
        col.harness_error(f"{mid}|{oname}: " + traceback.format_exc()[-1500:])
    return col


def main():
    args = std_args(PROP)
    import logging
    logging.getLogger("pymoca").setLevel(logging.ERROR)
    rep = Report(PROP, args.tier, "translation_validation", args.seed)
    items = [(mid, text, on, o, False) for mid, text in MODELS.items() for on, o in OPTSETS]
    if args.tier == "thorough":
        items += [(mid, MODELS[mid], "plain", {}, True) for mid in ("param-attrs", "aliases", "strings")]
    for col in run_parallel(work, items, args.jobs):
        rep.merge(col)
    cov = rep.coverage
    cov["disagreements_checked"] = rep.queries.get("sat", 0)
    cov["functions_encoded"] = ["api.transfer_model / save_model / load_model (executed on real files)",
                                "the four Functions of Model and CachedModel (SX DAG -> z3)", "MX attribute expressions rebuilt by load_model"]
    cov["bounds"] = "7 models (parameter-dependent attributes, aliases, delays incl. in loops, strings/Integer/Boolean, arrays, functions) x 4 option sets; all inputs/parameters unbounded reals; codegen: names/metadata only"
    rep.assumptions += ["pickle / CasADi (de)serialisation executed for real, not modelled", "numeric agreement of code-generated shared libraries is outside the claim",
                        "real arithmetic; divisors non-zero"]
    if not cov.get("programs"):
        rep.harness_error("nothing compared")
    return rep.finish()


if __name__ == "__main__":
    sys.exit(main())
