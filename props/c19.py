"""C19 - cached (and code-generated) models equal fresh compiles (Engine B, cache mode).

Real code: api.transfer_model twice on a scratch folder with cache=True: the first call compiles
(generate, simplify, save_model), the second goes through load_model.  Names, order, Python types,
outputs, delay states and the alias relation are compared concretely; z3 proves the four Functions
of the CachedModel equal to those of the fresh Model for ALL inputs and every parameter-dependent
attribute equal for ALL parameter values.  codegen=True: names / metadata / attributes / alias relation
concretely - agreement of the compiled C behind ca.external cannot be decided by the solver (parameter-
dependent attributes of a code-generated model are calls into that C code); attributes and functions
are compared numerically at a fixed point set (incl. NaN, +-inf, +-1e300) as a fallback.

Besides seven hand-written models the family contains three GENERATED classes (see the generator
functions below), each aimed at one region of save_model / load_model:
* delay-pop: delay() models over every population of the symbol categories that save_model indexes
  (0..2 constants x 0..2 parameters x with/without a fixed input), with several delays per model
  whose durations have DIFFERENT true dependency sets (literal, bare constant / parameter / fixed
  input, constant*parameter, parameter+parameter, constant/constant, ...), in both orders, outside
  and inside a for-loop: the index-encoded duration dependencies must decode to the same symbols;
* attr: parameter-dependent attributes built from + - * / only, one "special" expression (affine,
  non-affine but whitelisted such as p1*p2 or p1/p2, or using other opcodes such as p1*p1, 2*p1,
  max) at every (category, attribute) slot, all other attributes affine - this is the region where
  variable_metadata_function decides whether to rebuild itself as A*p+b;
* falsy: String parameters/constants whose value/start/fixed are empty, unset, "0", ... and
  Real/Integer/Boolean variables of every category whose value/min/max/start/nominal/fixed are
  0, 0.0, -0.0, false (values that a truthiness test confuses with "not given");
* alias: an algebraic variable aliased, with either sign and in several spellings, to a partner of every
  category alias detection can make canonical (state, DERIVATIVE of a state, algebraic, input,
  parameter, constant, delay state, vector elements), plus a second alias, with merged (fmin/fmax)
  parameter-dependent bounds; allow_derivative_aliases on/off; the alias relation is compared through
  all of its queries;
* arrpos: unexpanded array variables before/after scalars with parameter-dependent attributes in every
  category (row layout of the metadata function; known finding ROW_CLASS);
* option SEQUENCES: the cache of a folder is written under option set A and the folder is then asked
  for B (one option toggled, documented or not): what comes back must equal a fresh compile under B.
codegen=True runs for a few models in the quick tier too (the C compile costs ~4 s per model): there,
attributes and the four functions are compared numerically at finite AND non-finite points.
"""
import itertools
import os
import shutil
import sqlite3
import sys
import tempfile
import traceback

import casadi as ca
import numpy as np
import z3

from pymoca.backends.casadi import api
from vk.report import Collector, EncodingGap, Report, run_parallel, std_args
from vk.smt import equiv, modelio, ops, pipeline
from vk.smt.sx2z3 import sx2z3

PROP = "C19"
ATTRS = ("value", "min", "max", "start", "fixed", "nominal")
ROW_CLASS = "cached-attr:unexpanded-array-at-or-before-variable"

MODELS = {
 "param-attrs": """model M
  parameter Real p = 2;
  parameter Real q = 3 * p;
  parameter Real r;
  constant Real c = 4;
  Real x(start = p, min = -q, max = q * 2 + 1, nominal = max(p, 1));
  Real y(start = 1.5, max = r);
  input Real u(min = -p, fixed = true);
  output Real z;
equation
  der(x) = -p * x + u + y;
  y = c * x + q;
  z = y;
end M;
""",
 "aliases": """model M
  parameter Real lo = -1;
  Real x(start = 1);
  Real a(min = lo, max = 5);
  Real b(nominal = 10, start = 2);
  Real d;
  output Real e;
equation
  der(x) = -x + d;
  a = x;
  b = -a;
  d = 2 * b + 1;
  e = d;
end M;
""",
 "delay": """model M
  Real x(start = 1);
  Real y, z;
  input Real dt(fixed = true);
  parameter Real h = 3;
equation
  der(x) = -x;
  y = delay(x, 6 * h);
  z = delay(x * 2, dt + h);
end M;
""",
 "delay-loop": """model M
  Real x[3], y[3], a[3];
  input Real z[3];
  input Real dt(fixed = true);
  parameter Real eps = 0.1;
equation
  for i in 2:3 loop
    x[i] = 5 * z[i] * eps;
    y[i] = delay(3 * a[i] * eps, dt);
  end for;
  a = x;
  x[1] = 1; y[1] = 2;
end M;
""",
 "strings": """model M
  parameter String name = "abc";
  constant String kind = "k";
  parameter Real p = 1;
  parameter Integer n = 3;
  parameter Boolean flag = true;
  Integer k(start = 2);
  Boolean b;
  Real x;
equation
  x = p * n;
  k = 4;
  b = flag;
end M;
""",
 "arrays": """model M
  parameter Real q[3] = {1, 2, 3};
  parameter Real p = 2;
  Real v[3](start = {1, 2, 3}, min = -p);
  output Real w[3];
equation
  der(v) = -v .* q;
  w = 2 * v + p;
end M;
""",
 "ifelse-fun": """function f
  input Real x;
  output Real y;
algorithm
  y := x * x + 1;
end f;
model M
  parameter Real p = 2;
  Real x(start = 1, max = f(p));
  Real y;
initial equation
  x = p;
equation
  der(x) = if x > p then -x else f(x) - y;
  y = min(x, p) * sin(time);
end M;
""",
}
OPTSETS = [
    ("plain", {}),
    ("aliases", {"detect_aliases": True}),
    ("inline", {"replace_parameter_expressions": True, "replace_constant_values": True, "eliminate_constant_assignments": True, "detect_aliases": True}),
    ("expand", {"expand_vectors": True, "detect_aliases": True}),
]

# option sets for the generated classes ("pvals" makes attributes numeric MX constants, i.e. the
# MX_INDEPENDENT branch of load_model; it is not used for delay models, see C22 known finding)
O_PLAIN, O_ALIASES, O_INLINE, O_EXPAND = OPTSETS
O_CONSTS = ("consts", {"replace_constant_values": True})
O_PVALS = ("pvals", {"replace_parameter_expressions": True, "replace_parameter_values": True})


def delay_pop_models(tier):
    """{id: text}: delay models over populations of the symbol categories indexed by save_model."""
    out = {}
    for nc, npar, uf in itertools.product((0, 1, 2), (0, 1, 2), (False, True)):
        c, p = [f"c{i + 1}" for i in range(nc)], [f"p{i + 1}" for i in range(npar)]
        pool = [("x", "1.5")]                                   # literal: no dependency at all
        if nc:
            pool.append(("w", c[-1]))                           # bare constant
        if npar:
            pool.append(("2 * x", p[-1]))                       # bare parameter
        if uf:
            pool.append(("w + u", "uf"))                        # bare fixed input
        if nc and npar:
            pool.append((f"{c[0]} * x + {p[0]}", f"{c[0]} * {p[-1]} + 1"))   # constant and parameter
            pool.append(("x", f"{p[0]} / {c[-1]}"))
        if npar >= 2:
            pool.append(("w", "p1 + p2"))
        if nc >= 2:
            pool.append(("x - w", "c1 / c2"))
        if uf and npar:
            pool.append(("x", "uf + p1"))
        if uf and nc:
            pool.append(("w * u", "uf * c1"))
        loop_dur = f"{c[0]} * {p[0]}" if nc and npar else (p[0] if npar else (c[0] if nc else ("uf" if uf else "2.5")))
        for order in ("fwd", "rev"):
            delays = pool if order == "fwd" else pool[::-1]
            decl = [f"  constant Real {n} = {1.5 + i};" for i, n in enumerate(c)]
            decl += [f"  parameter Real {n} = {2 + i};" for i, n in enumerate(p)]
            decl += ["  input Real u;"] + (["  input Real uf(fixed = true);"] if uf else [])
            decl += ["  Real x(start = 1);", "  Real w;", "  Real v[2], z[2];"]
            decl += [f"  Real y{i + 1};" for i in range(len(delays))]
            eqs = ["  der(x) = -x + u;", "  w = 2 * x" + (f" + {c[0]}" if nc else "") + (f" * {p[0]}" if npar else "") + ";"]
            body = [f"  y{i + 1} = delay({e}, {d});" for i, (e, d) in enumerate(delays)]
            loop = ["  for i in 1:2 loop", "    v[i] = i * x;", f"    z[i] = delay(3 * v[i], {loop_dur});", "  end for;"]
            eqs += (body + loop) if order == "fwd" else (loop + body)
            out[f"delay-pop[c={nc},p={npar},uf={int(uf)},{order}]"] = "model M\n" + "\n".join(decl) + "\nequation\n" + "\n".join(eqs) + "\nend M;\n"
    return out


ATTR_SPECIALS = [  # (id, expression, kind)
    ("sum", "p1 + p2 - 1", "affine"), ("scaled", "3 * p1 - p2 / 4", "affine"), ("neg", "-p3", "affine"),
    ("prod", "p1 * p2", "whitelisted-nonaffine"), ("quot", "p1 / p2", "whitelisted-nonaffine"),
    ("prod3", "p1 * p2 * p3", "whitelisted-nonaffine"), ("prodsum", "(p1 + 1) * (p2 - 1)", "whitelisted-nonaffine"),
    ("quotsum", "p3 / (p1 + p2)", "whitelisted-nonaffine"), ("negprod", "p3 - p1 * p2", "whitelisted-nonaffine"),
    ("square", "p1 * p1", "other-opcode"), ("twice", "2 * p1", "other-opcode"), ("inv", "1 / p2", "other-opcode"),
    ("max", "max(p1, p2)", "other-opcode"), ("abs", "abs(p3)", "other-opcode"),
]
ATTR_SLOTS = [  # (category, attribute): where the special expression is put
    ("state", "max"), ("state", "start"), ("state", "nominal"), ("alg", "min"), ("alg", "start"), ("vec", "max"),
    ("input", "max"), ("input", "min"), ("param", "max"), ("param", "value"), ("const", "max"),
]
QUICK_SLOTS = {("state", "max"), ("alg", "start"), ("vec", "max"), ("input", "min"), ("param", "value"), ("const", "max")}


def attr_models(tier):
    """{id: text}: every other attribute is affine in p1..p3 with + - * / only (no 2*p, no min/max)."""
    out = {}
    for (sid, expr, kind), slot in itertools.product(ATTR_SPECIALS, ATTR_SLOTS):
        if tier == "quick" and slot not in QUICK_SLOTS:
            continue
        at = {("state", "min"): "-p2", ("state", "max"): "p1 + p2", ("state", "start"): "p1", ("state", "nominal"): "p1 + 1",
              ("alg", "min"): "p1 - 4", ("alg", "max"): "p3 - p1 / 4", ("alg", "start"): "3 * p2",
              ("vec", "min"): "-p1", ("vec", "max"): "p1 + p3",
              ("input", "min"): "-p1", ("input", "max"): "2.5 * p2",
              ("param", "min"): "p1 - 1", ("param", "max"): "p1 + p2", ("param", "value"): "p2 + 1",
              ("const", "max"): "p2 + p3"}
        at[slot] = expr
        a = lambda c, *names: ", ".join(f"{n} = {at[(c, n)]}" for n in names)
        out[f"attr[{sid}@{slot[0]}.{slot[1]}]"] = f"""model M
  parameter Real p1 = 2;
  parameter Real p2 = 3;
  parameter Real p3 = 5;
  parameter Real q({a("param", "min", "max")}) = {at[("param", "value")]};
  parameter Real r;
  constant Real k({a("const", "max")}) = 1;
  Real x({a("state", "start", "min", "max", "nominal")});
  Real x2(start = 1.5, max = r);
  Real y({a("alg", "min", "max", "start")});
  Real v[2](each max = {at[("vec", "max")]}, each min = {at[("vec", "min")]});
  input Real u({a("input", "min", "max")}, fixed = true);
  input Real u2(max = p3);
  output Real z;
equation
  der(x) = -p1 * x + u + y;
  der(x2) = -x2 + u2 * q;
  y = k * x + p2;
  v[1] = x + r; v[2] = y - x2;
  z = y;
end M;
"""
    return out


def falsy_models(tier):
    """{id: text}: values a truthiness test cannot tell from 'not given'."""
    out = {}
    svalues = [("abc", ' = "abc"'), ("empty", ' = ""'), ("unset", ""), ("zero", ' = "0"'), ("false", ' = "false"'), ("space", ' = " "')]
    for (fid, fixed), (tid, start) in itertools.product([("nofixed", None), ("fixed", "fixed = true"), ("unfixed", "fixed = false")],
                                                        [("nostart", None), ("emptystart", 'start = ""'), ("start", 'start = "s"')]):
        mods = ", ".join(m for m in (fixed, start) if m)
        mods = f"({mods})" if mods else ""
        decl = [f"  {kind} String {kind[0]}_{vid}{mods}{val};" for kind in ("parameter", "constant") for vid, val in svalues
                if not (kind == "constant" and vid == "unset")]
        out[f"falsy-str[{fid},{tid}]"] = "model M\n" + "\n".join(decl) + "\n  parameter Real g = 0.5;\n  Real x(start = 1);\nequation\n  der(x) = -g * x;\nend M;\n"
    for zid, z, b in [("zero", "0", "false"), ("zerof", "0.0", "false"), ("negzero", "-0.0", "false"), ("one", "1", "true")]:
        zi = "0" if zid != "one" else "1"
        out[f"falsy-num[{zid}]"] = f"""model M
  parameter Real r0 = {z};
  parameter Real r1(min = {z}, max = {z}, start = {z}, nominal = {z}, fixed = {b}) = {z};
  parameter Real r2;
  parameter Integer n0 = {zi};
  parameter Integer n1(min = {zi}, max = {zi});
  parameter Boolean b0 = {b};
  parameter Boolean b1(fixed = true) = {b};
  constant Real c0 = {z};
  constant Integer ci = {zi};
  constant Boolean cb = {b};
  Real x(start = {z}, min = {z}, max = {z}, nominal = {z}, fixed = {b});
  Real y(start = {z}, fixed = true);
  Real v[2](each start = {z}, each min = {z});
  Integer k(start = {zi}, min = {zi});
  Boolean b(start = {b});
  input Real u(min = {z}, fixed = {b});
  input Real uf(max = {z}, fixed = true);
equation
  der(x) = -x + u + uf;
  y = r0 + r1 + n0 + r2;
  v[1] = y; v[2] = c0;
  k = n0 + ci;
  b = b0;
end M;
"""
    return out


O_NODER = ("aliases-noder", {"detect_aliases": True, "allow_derivative_aliases": False})
O_ITER = ("aliases-iter", {"detect_aliases": True, "eliminate_constant_assignments": True, "iterative_simplification": True})
O_EXPAND_NODER = ("expand-noder", {"expand_vectors": True, "detect_aliases": True, "allow_derivative_aliases": False})

ALIAS_KINDS = {  # canonical partner of the eliminated algebraic variable a: (expression, category)
    "state": "x", "der": "der(x)", "alg": "g", "input": "u", "param": "p", "const": "c", "delay": "delay(x, hi)",
    "vec-der": "der(xv[2])", "vec-alg": "gv[1]",
}
ALIAS_FORMS = {  # spelling of the alias equation between a and its partner K: (text, sign)
    "eq": "a = {K};", "neg": "a = -({K});", "rev": "{K} = a;", "sum0": "a + {K} = 0;", "diff0": "0 = {K} - a;", "negneg": "-a = -({K});",
}
QUICK_ALIAS_FORMS = ("eq", "neg")


def alias_models(tier):
    """{id: text}: an algebraic variable a aliased (with either sign, in several spellings) to a variable of
    EVERY category that alias detection can make canonical - state, derivative of a state, algebraic
    variable, input, parameter, constant, delay state, element of a vector state derivative / vector
    algebraic variable - followed by a second alias b = +/-a and an output alias, so that alias groups of
    size 2..4 with mixed signs exist.  a carries numeric bounds and b parameter-dependent ones (the merged
    bounds become fmin/fmax expressions of the parameters)."""
    out = {}
    forms = ALIAS_FORMS if tier == "thorough" else {k: ALIAS_FORMS[k] for k in QUICK_ALIAS_FORMS}
    for (kid, K), (fid, form), chain in itertools.product(ALIAS_KINDS.items(), forms.items(), ("pos", "neg")):
        b_eq = "b = a;" if chain == "pos" else "b = -a;"
        out[f"alias[{kid},{fid},{chain}]"] = f"""model M
  parameter Real k = 0.5;
  parameter Real lo;
  parameter Real hi = 4;
  parameter Real p(min = lo) = 2;
  constant Real c = 3;
  input Real u(min = -hi);
  output Real o;
  Real x(start = 1, min = -hi, max = hi);
  Real xv[2](each start = 2);
  Real g(max = 8);
  Real a(min = 0, max = 10, nominal = 2);
  Real b(min = lo, max = hi, start = p);
  Real w;
  Real gv[2](each min = -1);
equation
  der(x) = -k * x + u + g;
  der(xv[1]) = -xv[1] + w;
  der(xv[2]) = xv[1] - k * xv[2];
  g = 2 * x + u * c + p;
  gv[1] = x * xv[1] + 1;
  gv[2] = gv[1] * k - u;
  {form.format(K=K)}
  {b_eq}
  w = b + x * hi;
  o = w;
end M;
"""
    return out


ARRPOS_ATTR = {"plain": "each min = -1", "each": "each max = p2, each min = -1", "perelem": "max = {1, 2} * p1", "perelem-num": "max = {7, 9}, min = -p2"}


def arrpos_models(tier):
    """{id: text}: in every category that carries metadata, an UNEXPANDED array variable next to a scalar whose
    attributes depend on the parameters - array declared before / after the scalar, array attributes
    numeric, uniform parameter-dependent ('each'), or different per element.  (The metadata function has
    one row per scalar ELEMENT; the variables of a category are a list of symbols.)"""
    out = {}
    for cat, (aid, aattr), order in itertools.product(("state", "alg", "input", "param", "const"), ARRPOS_ATTR.items(), ("array-first", "scalar-first")):
        prefix = {"state": "", "alg": "", "input": "input ", "param": "parameter ", "const": "constant "}[cat]
        sval, vval = (" = 1.5", " = {1, 2}") if cat in ("param", "const") else ("", "")
        decls = [f"  {prefix}Real v[2]({aattr}){vval};", f"  {prefix}Real s(max = p1 + p2, min = -p1, nominal = p2){sval};"]
        if order == "scalar-first":
            decls.reverse()
        eqs = {"state": ["  der(s) = -s + x;", "  der(v) = -v;"], "alg": ["  s = 2 * x;", "  v[1] = x + 1;", "  v[2] = 3 * x + s;"]}.get(cat, [])
        out[f"arrpos[{cat},{aid},{order}]"] = ("model M\n  parameter Real p1 = 2;\n  parameter Real p2 = 3;\n  Real x(start = 1, max = p1);\n"
                                              + "\n".join(decls) + "\n  Real y(min = p1 - p2);\nequation\n  der(x) = -x + s * v[1] + v[2];\n  y = x * p1;\n"
                                              + "\n".join(eqs) + ("\n" if eqs else "") + "end M;\n")
    return out


# ---- option sequences on one model folder -------------------------------------------------------
SEQ_MODELS = {
 "seq-chain": """function f
  input Real x;
  output Real y;
algorithm
  y := 2 * x + 1;
end f;
model M
  parameter Real k = 0.5;
  parameter Real q;
  parameter Real r = 2 * k;
  constant Real c = 3;
  constant Real c2 = 4;
  input Real u;
  output Real y;
  Real a;
  Real b(max = q);
  Real d;
  Real v(nominal = 2);
  Real w[2];
  Real x(start = 1.0, min = -q);
equation
  a = 3.0;
  b = a;
  d = b + u;
  y = d;
  v = der(x);
  der(x) = -k * x + d + r * c2 + f(w[2]);
  for i in 1:2 loop
    w[i] = i * x + c;
  end for;
end M;
""",
 "seq-params": """model M
  parameter Real p1 = 2;
  parameter Real p2 = 3 * p1;
  parameter Real p3;
  constant Real c1 = 1.5;
  constant Real c2 = 3;
  input Real u(fixed = true);
  Real x(start = p1, max = p2 * p3);
  Real e;
  Real h(min = p1);
  Real m;
  Real z[3];
  output Real o;
equation
  der(x) = -p2 * x + c2 * u + m;
  e = c1;
  h = e;
  m = -h;
  z[1] = 2 * x + u;
  z[2] = 2 * z[1] + m;
  z[3] = z[2] - z[1] * p3;
  o = z[3];
end M;
""",
}
SEQ_BASE = {"eliminate_constant_assignments": True, "replace_constant_values": True, "detect_aliases": True}
SEQ_TOGGLES = [  # (id, options added to / overriding SEQ_BASE); None removes the key
    ("iter", {"iterative_simplification": True}),          # read by Model.simplify, NOT in the default option table
    ("iter-off", {"iterative_simplification": False}),
    ("stray", {"not_a_pymoca_option": 1}),
    ("expand", {"expand_vectors": True}),
    ("parexpr", {"replace_parameter_expressions": True}),
    ("constexpr", {"replace_constant_expressions": True}),
    ("pvals", {"replace_parameter_expressions": True, "replace_parameter_values": True}),
    ("resolve", {"resolve_parameter_values": True}),
    ("noder", {"allow_derivative_aliases": False}),
    ("factor", {"factor_and_simplify_equations": True}),
    ("elimexpr", {"eliminable_variable_expression": "^[dm]$"}),
    ("noloops", {"unroll_loops": False}),
    ("noinline", {"inline_functions": False}),
    ("nobalance", {"check_balanced": False}),
    ("verbose", {"verbose": True}),
    ("nomtime", {"mtime_check": False}),
    ("no-aliases", {"detect_aliases": False}),
    ("no-elimconst", {"eliminate_constant_assignments": False}),
    ("no-constvals", {"replace_constant_values": False}),
]
QUICK_SEQ = {"seq-chain": None,  # all toggles
             "seq-params": ("iter", "expand", "parexpr", "pvals", "no-aliases", "stray")}


def seq_items(tier):
    """(model id, text, (name A, options A), (name B, options B)): the cache is written under A, then the
    same folder is asked for B (A and B differ in ONE option, in both directions; thorough: also pairs)."""
    items = []
    for mid, text in SEQ_MODELS.items():
        wanted = None if tier == "thorough" else QUICK_SEQ[mid]
        togs = [(t, d) for t, d in SEQ_TOGGLES if wanted is None or t in wanted]
        for tid, delta in togs:
            a, b = ("base", dict(SEQ_BASE)), (f"base+{tid}", dict(SEQ_BASE, **delta))
            items.append((mid, text, a, b))
            items.append((mid, text, b, a))
        if tier == "thorough":
            for (t1, d1), (t2, d2) in itertools.combinations(togs, 2):
                if set(d1) & set(d2):
                    continue
                items.append((mid, text, (f"base+{t1}", dict(SEQ_BASE, **d1)), (f"base+{t2}", dict(SEQ_BASE, **d2))))
    return items


def generated_items(tier):
    items = []
    thorough = tier == "thorough"
    for mid, text in delay_pop_models(tier).items():
        for on, o in [O_PLAIN, O_ALIASES, O_INLINE, O_EXPAND] + ([O_CONSTS] if thorough else []):
            items.append((mid, text, on, o, False))
    for mid, text in attr_models(tier).items():
        for on, o in [O_PLAIN, O_PVALS] + ([O_ALIASES, O_INLINE, O_EXPAND] if thorough else []):
            items.append((mid, text, on, o, False))
    for mid, text in falsy_models(tier).items():
        for on, o in [O_PLAIN, O_INLINE, O_PVALS] + ([O_ALIASES, O_EXPAND] if thorough else []):
            items.append((mid, text, on, o, False))
    for mid, text in alias_models(tier).items():
        for on, o in alias_optsets(mid, tier):
            items.append((mid, text, on, o, False))
    for mid, text in arrpos_models(tier).items():
        for on, o in [O_PLAIN] + ([O_EXPAND, O_PVALS] if thorough else []):
            items.append((mid, text, on, o, False))
    return items


def alias_optsets(mid, tier):
    """Option sets for one alias model.  Vector-element partners only with expand_vectors (without it the
    element equation involves the whole vector symbol, which is another property's subject); the option
    allow_derivative_aliases=False is crossed in wherever a derivative is the partner."""
    kid = mid[len("alias["):].split(",")[0]
    thorough = tier == "thorough"
    if kid.startswith("vec-"):
        return [O_EXPAND] + ([O_EXPAND_NODER] if kid == "vec-der" or thorough else [])
    sets = [O_ALIASES, O_EXPAND]
    if kid == "der" or thorough:
        sets += [O_NODER, O_EXPAND_NODER]
    if thorough:
        sets += [O_INLINE, O_ITER]
    return sets


def attr_term(val, psyms, pnames, div, numel):
    """z3 terms (list) of one attribute value (python number, DM, list or MX in the parameters)."""
    if isinstance(val, ca.MX):
        f = ca.Function("a", [ca.veccat(*psyms)], [val])
        _, zo, _ = sx2z3(f, [pnames], div)
        t = zo[0]["dense"]
    else:
        try:
            arr = np.array(ca.DM(val)) if isinstance(val, ca.DM) else np.array(val, dtype=float)
        except Exception:
            return None
        t = [ops.const(float(x)) for x in (arr.flatten(order="F") if arr.ndim else [arr])]
    if len(t) == 1 and numel > 1:
        t = t * numel
    return t


NAN, INF = float("nan"), float("inf")


def special_points(n):
    """Numeric points for an n-vector: three finite ones, zero, and the non-finite / extreme values at which
    compiled C may legitimately be asked to agree with CasADi's virtual machine: all NaN (pymoca's default
    for a parameter without value), NaN in one position at a time (first 6), +inf, -inf, +-1e300, mixed."""
    pts = [[0.7 + 0.9 * j + 0.31 * i for i in range(n)] for j in range(3)]
    if n == 0:
        return pts[:1]
    fin = pts[1]
    pts += [[0.0] * n, [NAN] * n, [INF] * n, [-INF] * n, [1e300] * n, [-1e300] * n,
            [(-1.0) ** i * 7.5 for i in range(n)], [INF if i % 2 else -INF for i in range(n)]]
    for k in range(min(n, 6)):
        pts.append([NAN if i == k else fin[i] for i in range(n)])
        pts.append([fin[i] if i == k else NAN for i in range(n)])
    return pts


def numeric_attr_mismatch(a, b, pf, pc, numel):
    """None, or (point, fresh values, cached values) where the two attribute values differ numerically."""
    npar = int(sum(s.numel() for s in pf))
    fs = [ca.Function("a", [ca.veccat(*ps)], [ca.MX(val) if isinstance(val, ca.MX) else ca.MX(ca.DM(val))]) for val, ps in ((a, pf), (b, pc))]
    for pt in special_points(npar):
        vals = []
        for f in fs:
            v = f(ca.DM(pt))
            v = [float(x) for x in np.array(ca.densify(ca.DM(v))).flatten(order="F")]
            vals.append(v * numel if len(v) == 1 and numel > 1 else v)
        if len(vals[0]) != len(vals[1]) or any(not equiv.close(x, y) for x, y in zip(*vals)):
            return pt, vals[0], vals[1]
    return None


def numeric_function_mismatch(fa, fb):
    """Codegen fallback (outside the solver claim): call the fresh Function and the compiled one at the
    special points.  Returns (n points, None) or (n, (point, output index, fresh, cached))."""
    if (fa.n_in(), fa.n_out()) != (fb.n_in(), fb.n_out()) or any(fa.size_in(i) != fb.size_in(i) for i in range(fa.n_in())):
        return 0, ("signature", -1, [fa.size_in(i) for i in range(fa.n_in())], [fb.size_in(i) for i in range(fb.n_in())])
    sizes = [fa.size_in(i) for i in range(fa.n_in())]
    total = sum(r * c for r, c in sizes)
    pts = special_points(total)
    # NaN / inf in one input group at a time
    fin = pts[1] if total else []
    off = 0
    for r, c in sizes:
        for bad in (NAN, INF):
            pts.append([bad if off <= i < off + r * c else fin[i] for i in range(total)])
        off += r * c
    for pt in pts:
        args, off = [], 0
        for r, c in sizes:
            args.append(ca.DM(pt[off:off + r * c]).reshape((r, c)) if r * c else ca.DM.zeros(r, c))
            off += r * c
        oa, ob = fa.call(args), fb.call(args)
        for o, (x, y) in enumerate(zip(oa, ob)):
            xv = [float(t) for t in np.array(ca.densify(ca.DM(x))).flatten(order="F")]
            yv = [float(t) for t in np.array(ca.densify(ca.DM(y))).flatten(order="F")]
            if len(xv) != len(yv) or any(not equiv.close(u, v) for u, v in zip(xv, yv)):
                return len(pts), (pt, o, xv, yv)
    return len(pts), None


def compare(col, case, text, fresh, cached, codegen):
    cats = ["states", "der_states", "alg_states", "inputs", "parameters", "constants"]
    for cat in cats:
        a = [(v.symbol.name(), tuple(v.symbol.shape), v.python_type, frozenset(v.aliases)) for v in getattr(fresh, cat)]
        b = [(v.symbol.name(), tuple(v.symbol.shape), v.python_type, frozenset(v.aliases)) for v in getattr(cached, cat)]
        col.bump("concrete_comparisons")
        if a != b:
            col.violation(f"{case}:{cat}", f"{cat} differ: fresh {a} cached {b}", {"model_text": text})
            return
    for cat in ["string_parameters", "string_constants"]:
        a = [(v.name, v.value, v.start, v.fixed) for v in getattr(fresh, cat)]
        b = [(v.name, v.value, v.start, v.fixed) for v in getattr(cached, cat)]
        col.bump("concrete_comparisons")
        if a != b:
            col.violation(f"{case}:{cat}", f"{cat} differ: {a} vs {b}", {"model_text": text})
        # same again with the Python type of every field ('' vs None, False vs 0, ...)
        ta = [(v.name,) + tuple((type(x).__name__, x) for x in (v.value, v.start, v.fixed)) for v in getattr(fresh, cat)]
        tb = [(v.name,) + tuple((type(x).__name__, x) for x in (v.value, v.start, v.fixed)) for v in getattr(cached, cat)]
        col.bump("concrete_comparisons")
        col.bump("string_variables", len(ta))
        if ta != tb:
            col.violation(f"{case}:{cat}:typed", f"{cat} differ in value or field type: {ta} vs {tb}", {"model_text": text})
    for what in ["outputs", "delay_states"]:
        col.bump("concrete_comparisons")
        if list(getattr(fresh, what)) != list(getattr(cached, what)):
            col.violation(f"{case}:{what}", f"{what}: fresh {getattr(fresh, what)} cached {getattr(cached, what)}", {"model_text": text})
    ra = sorted((c, tuple(sorted(al))) for c, al in fresh.alias_relation)
    rb = sorted((c, tuple(sorted(al))) for c, al in cached.alias_relation)
    col.bump("concrete_comparisons")
    if ra != rb or any(fresh.alias_relation.canonical_signed(v.symbol.name()) != cached.alias_relation.canonical_signed(v.symbol.name())
                       for v in fresh.states + fresh.alg_states):
        col.violation(f"{case}:alias_relation", f"alias relation differs: {ra} vs {rb}", {"model_text": text})
    else:
        # the whole observable relation: canonical set, and aliases() / canonical_signed() of EVERY name the
        # two models know (variables of all six categories incl. derivatives, every recorded alias), both signs
        names = set()
        for m in (fresh, cached):
            for cat in cats:
                for v in getattr(m, cat):
                    names.add(v.symbol.name())
                    names.update(x.lstrip("-") for x in v.aliases)
            for c, al in m.alias_relation:
                names.add(c.lstrip("-"))
                names.update(x.lstrip("-") for x in al)
        fa, fb = fresh.alias_relation, cached.alias_relation
        bad = []
        if set(fa.canonical_variables) != set(fb.canonical_variables):
            bad.append(f"canonical variables {sorted(fa.canonical_variables)} vs {sorted(fb.canonical_variables)}")
        for nm in sorted(names):
            for n in (nm, "-" + nm):
                col.bump("alias_queries_compared")
                if set(fa.aliases(n)) != set(fb.aliases(n)):
                    bad.append(f"aliases({n!r}) {sorted(fa.aliases(n))} vs {sorted(fb.aliases(n))}")
                if tuple(fa.canonical_signed(n)) != tuple(fb.canonical_signed(n)):
                    bad.append(f"canonical_signed({n!r}) {fa.canonical_signed(n)} vs {fb.canonical_signed(n)}")
        if bad:
            col.violation(f"{case}:alias_relation:queries", "alias relation differs: " + "; ".join(bad[:6]), {"model_text": text})
    col.bump("alias_groups", len(ra))
    col.bump("alias_groups_with_derivative_canonical", sum(1 for c, _ in ra if c.startswith("der(")))
    # attributes
    div = ops.Divisors()
    pf, pc = fresh._symbols(fresh.parameters), cached._symbols(cached.parameters)
    pnames = [nm for s in pf for nm in modelio.sym_elem_names(s)]
    for cat in ["states", "alg_states", "inputs", "parameters", "constants"]:
        array_before = False
        for idx, (vf, vc) in enumerate(zip(getattr(fresh, cat), getattr(cached, cat))):
            array_before = any(w.symbol.numel() > 1 for w in getattr(fresh, cat)[:idx])
            for attr in ATTRS:
                a, b = getattr(vf, attr), getattr(vc, attr)
                n = vf.symbol.numel()
                # stable class id (known finding) for value mismatches of a variable that comes after an unexpanded
                # array variable of its category, or is one with an element-wise different attribute: the rows of
                # the metadata function are per element, load_model indexes them per variable
                elementwise = n > 1 and isinstance(a, ca.MX) and a.numel() > 1
                vcase = ROW_CLASS if (array_before or elementwise) and isinstance(b, ca.MX) else None
                if codegen and (isinstance(a, ca.MX) or isinstance(b, ca.MX)):
                    # the cached attribute is a call into compiled C (ca.external): nothing to encode.
                    # Fallback outside the solver claim: compare numerically at three parameter points.
                    bad = numeric_attr_mismatch(a, b, pf, pc, n)
                    col.bump("codegen_attributes_compared_numerically")
                    if bad:
                        col.violation(vcase or f"{case}:{vf.symbol.name()}.{attr}:numeric", f"attribute differs at parameters {bad[0]}: fresh {bad[1]} cached {bad[2]}", {"model_text": text})
                    continue
                ta, tb = attr_term(a, pf, pnames, div, n), attr_term(b, pc, pnames, div, n)
                if not isinstance(a, ca.MX) and not isinstance(b, ca.MX):
                    # plain Python values are pickled: the cached one must have exactly the same type
                    col.bump("concrete_comparisons")
                    if type(a).__name__ != type(b).__name__:
                        col.violation(f"{case}:{vf.symbol.name()}.{attr}:pytype", f"attribute {a!r} ({type(a).__name__}) cached as {b!r} ({type(b).__name__})", {"model_text": text})
                if ta is None or tb is None:
                    if repr(a) != repr(b):
                        col.violation(f"{case}:{vf.symbol.name()}.{attr}", f"attribute {a!r} vs cached {b!r}", {"model_text": text})
                    continue
                if len(ta) != len(tb):
                    col.violation(f"{case}:{vf.symbol.name()}.{attr}:shape", f"attribute has {len(ta)} vs {len(tb)} elements", {"model_text": text})
                    continue
                if not isinstance(a, ca.MX) and not isinstance(b, ca.MX) and not isinstance(a, (list, np.ndarray, ca.DM)):
                    if type(a) is not type(b) and not (isinstance(a, (int, float)) and isinstance(b, (int, float)) and type(a).__mro__[0].__name__ == '_DefaultValue'):
                        if not (type(a).__name__ == "_DefaultValue" or type(b).__name__ == "_DefaultValue"):
                            col.violation(f"{case}:{vf.symbol.name()}.{attr}:type", f"attribute type {type(a).__name__} vs cached {type(b).__name__}", {"model_text": text})
                for k, (x, y) in enumerate(zip(ta, tb)):
                    col.bump("attribute_elements")
                    if x.get_id() == y.get_id():
                        col.count("unsat")
                        continue
                    r, m = equiv.check(col, div.nonzero() + [x != y])
                    if r == "sat":
                        pt = equiv.point_from_model(m, [x, y])
                        xv, yv = equiv.z3eval(x, _nanpt(pt)), equiv.z3eval(y, _nanpt(pt))
                        if not equiv.close(xv, yv):
                            col.violation(vcase or f"{case}:{vf.symbol.name()}.{attr}[{k}]", f"{case}: attribute {vf.symbol.name()}.{attr}[{k}] differs at {pt}: fresh {xv} cached {yv}", {"model_text": text})
                            col.bump("row_class_violations", int(bool(vcase)))
                        else:
                            col.note_inconclusive(f"{case}:{vf.symbol.name()}.{attr}[{k}] sat did not replay")
                    elif r == "unknown":
                        col.note_inconclusive(f"{case}:{vf.symbol.name()}.{attr}[{k}] unknown")
    if codegen:
        # compiled C behind ca.external: nothing to encode; numeric fallback at finite AND non-finite points
        for fname in ("dae_residual", "initial_residual", "variable_metadata", "delay_arguments"):
            n, bad = numeric_function_mismatch(getattr(fresh, fname + "_function"), getattr(cached, fname + "_function"))
            col.bump("codegen_function_points", n)
            if bad:
                col.violation(f"{case}:{fname}:numeric", f"{fname} output {bad[1]} differs at {bad[0]}: fresh {bad[2]} compiled {bad[3]}", {"model_text": text})
        return
    names = modelio.model_in_names(fresh)
    for fname, nm in [("dae_residual", names), ("initial_residual", names), ("variable_metadata", [names[6]]), ("delay_arguments", names)]:
        fa, fb = getattr(fresh, fname + "_function"), getattr(cached, fname + "_function")
        n = pipeline.compare_functions(col, fa, fb, nm, case, text, fname)
        col.bump("function_elements", n)
    # delay arguments reconstructed by load_model (MX expressions on the CachedModel)
    if fresh.delay_states:
        if len(fresh.delay_arguments) != len(cached.delay_arguments):
            col.violation(f"{case}:delay_arguments:count", "number of delay arguments differs", {"model_text": text})
        else:
            gf, gc = modelio.model_groups(fresh), modelio.model_groups(cached)
            for i, (da, db) in enumerate(zip(fresh.delay_arguments, cached.delay_arguments)):
                for which, a, b in (("expr", da.expr, db.expr), ("duration", da.duration, db.duration)):
                    fa = ca.Function("d", [ca.veccat(*g) for g in gf], [ca.MX(a)], {"allow_free": False})
                    fb = ca.Function("d", [ca.veccat(*g) for g in gc], [ca.MX(b)], {"allow_free": False})
                    n = pipeline.compare_functions(col, fa, fb, names, case, text, f"delay_arguments[{i}].{which}")
                    col.bump("function_elements", n)


def affine_rebuild_taken(model):
    """True when Model.variable_metadata_function replaced its output by the affine form A*p+b
    (observed on the unexpanded MX Function: only the rebuilt one has the input symbol 'in_var')."""
    keep = model._expand_mx_func
    try:
        model._expand_mx_func = lambda x: x
        i = model.variable_metadata_function.mx_in(0)
        return bool(i.is_symbolic() and i.name() == "in_var")
    except Exception:
        return False
    finally:
        model._expand_mx_func = keep


def _nanpt(pt):
    d = pipeline._Default(pt)
    d["__nan__"] = float("nan")
    d["__inf__"] = float("inf")
    return d


def private_parse_cache():
    """pymoca's parser keeps a sqlite text cache under $XDG_CACHE_HOME that every process on the
    machine shares; under load it raises 'database is locked' (the subject of C02, not of this
    property).  Give each worker process its own cache folder below the run's scratch root."""
    root = os.environ.get("VERIF_C19_SCRATCH")
    if root:
        d = os.path.join(root, f"xdg{os.getpid()}")
        os.makedirs(d, exist_ok=True)
        os.environ["XDG_CACHE_HOME"] = d


def check(col, mid, text, oname, opts, codegen=False):
    case = f"{mid}|{oname}" + ("|codegen" if codegen else "")
    private_parse_cache()
    d = tempfile.mkdtemp(prefix="verif_c19_", dir=os.environ.get("VERIF_C19_SCRATCH"))
    try:
        with open(os.path.join(d, "M.mo"), "w") as f:
            f.write(text)
        o = dict(opts)
        o["codegen" if codegen else "cache"] = True
        try:
            fresh = api.transfer_model(d, "M", dict(o))
        except Exception as e:
            if isinstance(e, sqlite3.Error) or mid not in MODELS:
                # environment trouble, or a generated model (all probed to compile) stopped compiling:
                # neither a pass nor a C19 violation
                col.harness_error(f"{case}: first transfer_model raised {type(e).__name__}: {str(e)[-300:]}")
                return
            col.append("unsupported", f"{case}: {type(e).__name__}: {str(e)[-80:]}")
            return
        if isinstance(fresh, api.CachedModel):
            col.harness_error(f"{case}: first transfer_model returned a cached model")
            return
        if not os.path.exists(os.path.join(d, "M.pymoca_cache")):
            col.violation(f"{case}:no-cache-file", "transfer_model(cache) wrote no cache file", {"model_text": text})
            return
        try:
            cached = api.transfer_model(d, "M", dict(o))
        except Exception as e:
            col.violation(f"{case}:load-raises:{type(e).__name__}", f"loading the cache raises {type(e).__name__}: {str(e)[-100:]}", {"model_text": text, "options": o})
            return
        if not isinstance(cached, api.CachedModel):
            col.violation(f"{case}:not-served", "second transfer_model did not use the cache it had just written", {"model_text": text, "options": o})
            return
        compare(col, case, text, fresh, cached, codegen)
        col.bump("programs")
        col.bump("models_with_delays", int(bool(fresh.delay_states)))
        col.bump("affine_metadata_rebuilds", int(affine_rebuild_taken(fresh)))
    finally:
        shutil.rmtree(d, ignore_errors=True)


def check_sequence(col, mid, text, a, b):
    """One model folder, a history of requests: the cache is written under option set A, then the SAME folder
    is asked for option set B twice.  Whatever the second and third call return when it is a CachedModel
    must equal a fresh compile under B (done in a second, clean folder); the third call must be served."""
    (an, ao), (bn, bo) = a, b
    case = f"seq:{mid}|{an}->{bn}"
    private_parse_cache()
    root = tempfile.mkdtemp(prefix="verif_c19_", dir=os.environ.get("VERIF_C19_SCRATCH"))
    try:
        d, ref = os.path.join(root, "model"), os.path.join(root, "reference")
        for x in (d, ref):
            os.mkdir(x)
            with open(os.path.join(x, "M.mo"), "w") as f:
                f.write(text)
        oa, ob = dict(ao, cache=True), dict(bo, cache=True)
        try:
            reference = api.transfer_model(ref, "M", dict(ob))
            first = api.transfer_model(d, "M", dict(oa))
        except Exception as e:
            col.harness_error(f"{case}: compiling raised {type(e).__name__}: {str(e)[-300:]}")
            return
        if isinstance(reference, api.CachedModel) or isinstance(first, api.CachedModel):
            col.harness_error(f"{case}: a first transfer_model on a clean folder returned a cached model")
            return
        got = []
        for k in (2, 3):
            try:
                got.append(api.transfer_model(d, "M", dict(ob)))
            except Exception as e:
                col.violation(f"{case}:call{k}:raises:{type(e).__name__}", f"request for B on a folder cached under A raises {type(e).__name__}: {str(e)[-100:]}",
                              {"model_text": text, "options_a": oa, "options_b": ob})
                return
        if not isinstance(got[1], api.CachedModel):
            col.violation(f"{case}:call3:not-served", "third transfer_model did not use the cache written by the second", {"model_text": text, "options_a": oa, "options_b": ob})
        for k, m in zip((2, 3), got):
            col.bump("sequence_calls")
            if isinstance(m, api.CachedModel):
                col.bump("sequence_calls_served_from_cache")
                compare(col, f"{case}:call{k}", text, reference, m, False)
        col.bump("programs")
        col.bump("option_sequences")
    finally:
        shutil.rmtree(root, ignore_errors=True)


def work(item):
    col = Collector()
    if item[0] == "SEQ":
        _, mid, text, a, b = item
        try:
            check_sequence(col, mid, text, a, b)
            col.sample({"model": mid, "options_a": a[1], "options_b": b[1]}, 1)
        except EncodingGap as g:
            col.append("encoding_gaps", f"seq:{mid}|{a[0]}->{b[0]}: {g}")
        except Exception:
            col.harness_error(f"seq:{mid}|{a[0]}->{b[0]}: " + traceback.format_exc()[-1500:])
        return col
    mid, text, oname, opts, codegen = item
    try:
        check(col, mid, text, oname, opts, codegen)
        col.sample({"model": mid, "options": opts, "codegen": codegen}, 2)
    except EncodingGap as g:
        col.append("encoding_gaps", f"{mid}|{oname}: {g}")
    except Exception:
        col.harness_error(f"{mid}|{oname}: " + traceback.format_exc()[-1500:])
    return col


def main():
    args = std_args(PROP)
    import logging
    logging.getLogger("pymoca").setLevel(logging.ERROR)
    rep = Report(PROP, args.tier, "translation_validation", args.seed)
    items = [(mid, text, on, o, False) for mid, text in MODELS.items() for on, o in OPTSETS]
    items += generated_items(args.tier)
    seqs = [("SEQ",) + it for it in seq_items(args.tier)]
    items += seqs
    n_gen = {k: len(f(args.tier)) for k, f in (("delay-pop", delay_pop_models), ("attr", attr_models), ("falsy", falsy_models), ("alias", alias_models), ("arrpos", arrpos_models))}
    # code-generated shared libraries (about 4 s of C compilation per model): a few in the quick tier
    am = alias_models("quick")
    cg = [("param-attrs", MODELS["param-attrs"], "plain", {}), ("aliases", MODELS["aliases"]) + O_ALIASES,
          ("alias[alg,eq,pos]", am["alias[alg,eq,pos]"]) + O_ALIASES, ("alias[state,neg,neg]", am["alias[state,neg,neg]"]) + O_ALIASES,
          ("alias[der,eq,neg]", am["alias[der,eq,neg]"]) + O_ALIASES]
    if args.tier == "thorough":
        cg += [(mid, MODELS[mid], "plain", {}) for mid in ("aliases", "strings")]
        gen = dict(delay_pop_models("quick"), **attr_models("quick"), **falsy_models("quick"))
        cg += [(mid, gen[mid], "plain", {}) for mid in
               ("delay-pop[c=1,p=1,uf=0,fwd]", "delay-pop[c=2,p=2,uf=1,rev]", "attr[prod@state.max]", "attr[quot@param.value]",
                "attr[sum@input.min]", "attr[max@state.max]", "attr[abs@alg.start]", "falsy-str[nofixed,nostart]", "falsy-str[fixed,emptystart]", "falsy-num[zero]")]
        cg += [(mid, text) + o for mid, text in am.items() for o in alias_optsets(mid, "quick")[:1] if (mid, o[0]) not in {(c[0], c[2]) for c in cg}]
        cg += [(mid, text, "base+iter", dict(SEQ_BASE, iterative_simplification=True)) for mid, text in SEQ_MODELS.items()]
    n_cg = len(cg)
    items = [c + (True,) for c in cg] + items           # longest first
    scratch = tempfile.mkdtemp(prefix="verif_c19_run_")
    os.environ["VERIF_C19_SCRATCH"] = scratch
    try:
        for col in run_parallel(work, items, args.jobs):
            rep.merge(col)
    finally:
        shutil.rmtree(scratch, ignore_errors=True)
    cov = rep.coverage
    cov["disagreements_checked"] = rep.queries.get("sat", 0)
    cov["functions_encoded"] = ["api.transfer_model / save_model / load_model (executed on real files)",
                                "the four Functions of Model and CachedModel (SX DAG -> z3)", "MX attribute expressions rebuilt by load_model"]
    cov["bounds"] = (
        "7 hand-written models (parameter-dependent attributes, aliases, delays incl. in loops, strings/Integer/Boolean, arrays, "
        "functions) x 4 option sets; "
        f"{n_gen['delay-pop']} generated delay models = {{0,1,2}} constants x {{0,1,2}} parameters x with/without fixed input x 2 orders, "
        "each with 2..11 delay() calls (one inside a 2-iteration for-loop) whose durations are a literal / bare constant / bare parameter / "
        "bare fixed input / constant*parameter / parameter/constant / p1+p2 / c1/c2 / uf+p1 / uf*c1 as far as the population allows, "
        "x 4 option sets (thorough: + replace_constant_values); "
        f"{n_gen['attr']} generated attribute models = {len(ATTR_SPECIALS)} special expressions (3 affine, 6 non-affine with + - * / only, "
        f"5 with other opcodes) x {len(QUICK_SLOTS) if args.tier == 'quick' else len(ATTR_SLOTS)} (category, attribute) slots, all other "
        "attributes affine, x option sets plain and replace_parameter_expressions+values (thorough: + aliases, inline, expand); "
        f"{n_gen['falsy']} generated falsy-value models = 9 String models (value abc/empty/unset/'0'/'false'/' ' for parameter and constant "
        "x fixed unset/true/false x start unset/''/'s') + 4 numeric models (0, 0.0, -0.0, 1 and false/true in value/min/max/start/"
        "nominal/fixed of Real/Integer/Boolean parameters, constants, states, algebraic variables, inputs) x 3 option sets (thorough 5); "
        f"{n_gen['alias']} generated alias models = an algebraic variable aliased to a {'/'.join(ALIAS_KINDS)} partner x "
        f"{len(ALIAS_FORMS) if args.tier == 'thorough' else len(QUICK_ALIAS_FORMS)} spellings/signs of the alias equation ({', '.join(ALIAS_FORMS if args.tier == 'thorough' else QUICK_ALIAS_FORMS)}) "
        "x second alias b = +a / -a, numeric bounds on one alias and parameter-dependent ones on the other, x option sets detect_aliases and "
        "expand_vectors+detect_aliases (vector-element partners: expand only), allow_derivative_aliases=False crossed in for derivative partners "
        "(thorough: for all, + inline, + iterative_simplification); the alias relation is compared through canonical_variables, aliases() and "
        "canonical_signed() of every variable / derivative / alias name in both signs; "
        f"{n_gen['arrpos']} generated array-position models = 5 categories x array attributes {'/'.join(ARRPOS_ATTR)} x array declared before/after a "
        "scalar with parameter-dependent attributes, unexpanded (thorough: + expand, + parameter values); "
        f"{len(seqs)} option SEQUENCES on one model folder ({len(SEQ_MODELS)} models): cache written under option set A, then the same folder asked twice "
        f"for option set B, A and B differing in one of {len(SEQ_TOGGLES)} options (every simplification option, generator options, check_balanced/"
        "verbose/mtime_check, the undocumented iterative_simplification, a stray key) in both directions (quick: all for one model, 6 for the other; "
        "thorough: also all compatible pairs of toggles); every CachedModel returned is compared with a fresh compile under B in a clean folder; "
        f"all inputs/parameters unbounded reals; codegen ({n_cg} models; quick: 5, thorough: + hand-written, generated delay/attr/falsy models, every "
        "alias model and the sequence models with iterative_simplification): names / types / plain attribute values / alias relation concretely, "
        "parameter-dependent attributes and the four compiled functions NUMERICALLY (compiled C cannot be encoded) at 3 finite points, 0, all-NaN, "
        "single-NaN, +-inf, +-1e300 and mixed-sign points"
    )
    rep.assumptions += ["pickle / CasADi (de)serialisation executed for real, not modelled",
                        "the parser's sqlite text cache is private to each worker process (its concurrency is C02's subject)", "numeric agreement of code-generated shared libraries is outside the solver claim (checked at a fixed set of finite and non-finite points only)",
                        "real arithmetic; divisors non-zero"]
    if not cov.get("programs"):
        rep.harness_error("nothing compared")
    return rep.finish()


if __name__ == "__main__":
    sys.exit(main())
