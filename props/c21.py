"""C21 - see props/c20.py (shared harness props/h20.py)."""
import sys

from props.c20 import main

if __name__ == "__main__":
    sys.exit(main("C21"))
