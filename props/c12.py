"""C12 - representation-only options (unroll_loops, inline_functions, expand_mx) do not change
the model's meaning (Engine B).

Real code: generate + Model.simplify under each of the 8 configurations; the four output
Functions of every configuration are expanded to SX, translated to z3 and proved equal to those
of configuration 0 for ALL inputs; variable lists / order / python types / non-symbolic attribute
values are compared concretely.

Second dimension (edit scripts): a Model is a mutable public object, so "the same model handled by
the same sequence of calls" must keep the same four functions under every configuration as well.
For selected models every configuration is driven through the same script of reads of the output
functions and edits through the public Model API (variable attributes, parameter values,
equations, initial equations, delay arguments); at every read point the functions are again
proved equal to configuration 0's by z3.
"""
import itertools
import sys
import traceback

import casadi as ca

from vk.paths import REPO
from vk import families
from vk.report import Collector, EncodingGap, Report, run_parallel, std_args
from vk.smt import modelio, pipeline

PROP = "C12"
CONFIGS = [dict(unroll_loops=u, inline_functions=i, expand_mx=e)
           for u, i, e in itertools.product([True, False], repeat=3)]

DELAY = """model M
  Real x(start = 1);
  Real y;
  Real v[2];
  Real w[2];
  input Real u;
  parameter Real d = 0.5;
equation
  der(x) = -x + delay(y, d);
  y = 2 * x + u;
  for i in 1:2 loop
    w[i] = 3 * d * u;
    v[i] = delay(2 * w[i] * d, d * 2);
  end for;
end M;
"""
ATTR = """function f
  input Real x;
  output Real y;
algorithm
  y := x * x + 1;
end f;
model M
  parameter Real p = 2;
  parameter Real q = 3 * p;
  Real x(start = p, min = -q, max = f(p), nominal = 2 * p + 1);
  Real w[2](each start = q);
equation
  der(x) = f(x) - p;
  for i in 1:2 loop
    w[i] = f(x * i) + q;
  end for;
end M;
"""


def describe(model):
    d = {}
    for cat in ["states", "der_states", "alg_states", "inputs", "constants", "parameters"]:
        d[cat] = [(v.symbol.name(), tuple(v.symbol.shape), v.python_type.__name__,
                   tuple(sorted(getattr(v, "prefixes", []) or [])))
                  for v in getattr(model, cat)]
        d[cat + ":attrs"] = []
        for v in getattr(model, cat):
            row = []
            for a in ["value", "start", "min", "max", "nominal", "fixed"]:
                x = getattr(v, a)
                row.append("<MX>" if isinstance(x, ca.MX) and not x.is_constant() else repr(
                    ca.DM(x) if isinstance(x, ca.MX) else x))
            d[cat + ":attrs"].append(row)
    d["outputs"] = list(model.outputs)
    d["delay_states"] = list(model.delay_states)
    return d


def build(text, cls, cfg):
    m = pipeline.real_generate(text, cls, cfg)
    m.simplify(cfg)
    return m


# ---- edit scripts: reads of the four functions interleaved with edits of the public Model ------
FN = ["dae_residual", "initial_residual", "variable_metadata", "delay_arguments"]


def _first_var(m):
    return (m.states + m.alg_states)[0]


def _param(m):
    if not m.parameters:
        raise Inapplicable("no parameter")
    return m.parameters[0]


class Inapplicable(Exception):
    pass


def op_set_attrs(m, cfg):
    v = _first_var(m)
    v.max, v.min, v.nominal, v.start = 1.5, -2.5, 10.0, 0.25


def op_set_param(m, cfg):
    _param(m).value = 0.7


def op_attr_affine(m, cfg):
    p, v = _param(m).symbol, _first_var(m)
    v.max = 2 * p[0] + 1
    v.nominal = 3 * p[0]


def op_attr_nonaffine(m, cfg):
    p, v = _param(m).symbol, (m.states + m.alg_states)[-1]
    v.min = -(p[0] * p[0])
    v.start = ca.fmax(p[0], 1.0)


def op_scale_eq(m, cfg):
    if not m.equations:
        raise Inapplicable("no equation")
    m.equations[0] = 2.0 * m.equations[0]


def op_append_eq(m, cfg):
    s = _first_var(m).symbol
    m.equations.append(s[0] - 0.5 * m.time)


def op_delete_eq(m, cfg):
    if len(m.equations) < 2:
        raise Inapplicable("fewer than two equations")
    del m.equations[-1]


def op_append_init(m, cfg):
    s = (m.states + m.alg_states)[-1].symbol
    m.initial_equations.append(s[s.numel() - 1] - 0.5)


def op_replace_init(m, cfg):
    if not m.initial_equations:
        raise Inapplicable("no initial equation")
    m.initial_equations[0] = m.initial_equations[0] + m.time


def op_delay(m, cfg):
    if not m.delay_arguments:
        raise Inapplicable("no delay")
    from pymoca.backends.casadi.model import DelayArgument
    a = m.delay_arguments[0]
    m.delay_arguments[0] = DelayArgument(2 * a.expr, a.duration)


def op_simplify(m, cfg):
    m.simplify(cfg)


OPS = {"attrs": op_set_attrs, "param": op_set_param, "attr-affine": op_attr_affine, "attr-nonaffine": op_attr_nonaffine,
       "scale-eq": op_scale_eq, "append-eq": op_append_eq, "delete-eq": op_delete_eq, "append-init": op_append_init,
       "replace-init": op_replace_init, "delay": op_delay, "simplify": op_simplify}
# "read" reads all four functions, "read:<fn>" only one of them (the others are first read after the edit)
SCRIPTS = {
    "attrs": ["read", "attrs", "read"],
    "attrs-unread": ["attrs", "read"],
    "param": ["read", "param", "read"],
    "attr-affine": ["read", "attr-affine", "read"],
    "attr-nonaffine": ["read", "attr-nonaffine", "read"],
    "scale-eq": ["read", "scale-eq", "read"],
    "append-eq": ["read", "append-eq", "read"],
    "delete-eq": ["read", "delete-eq", "read"],
    "append-init": ["read", "append-init", "read"],
    "replace-init": ["read", "replace-init", "read"],
    "delay": ["read", "delay", "read"],
    "partial-read": ["read:variable_metadata", "scale-eq", "append-init", "read", "attrs", "read"],
    "two-rounds": ["read", "attrs", "param", "read", "scale-eq", "append-init", "read"],
}
SCRIPTS_THOROUGH = {
    "resimplify": ["read", "attrs", "scale-eq", "simplify", "read"],
    "edit-all": ["read", "attrs", "attr-nonaffine", "scale-eq", "append-eq", "append-init", "read", "delete-eq", "read"],
}
EDIT_MODELS_QUICK = ("attr-fun", "delay", "init", "for-1d[3]", "fun-if", "ifeq-else", "fun-call[elem-and-loop]",
                     "for-sub[2 * i|1:3|rhs|slack2]")
EDIT_MODELS_THOROUGH = ("init-if", "mat-ops", "fun-call[elem-initial]", "fun-loop[fwd|1:3|multi]")


def run_script(text, cls, cfg, steps):
    """Drive one fresh model through the script; returns [(describe, {fname: Function})] per read."""
    m = build(text, cls, cfg)
    reads = []
    for st in steps:
        if st == "read":
            reads.append((describe(m), {f: getattr(m, f + "_function") for f in FN}))
        elif st.startswith("read:"):
            f = st.split(":", 1)[1]
            reads.append((None, {f: getattr(m, f + "_function")}))
        else:
            OPS[st](m, cfg)
    return m, reads


def work_edit(item):
    cid, text, cls, sname, steps = item
    col = Collector()
    try:
        try:
            base, reads0 = run_script(text, cls, CONFIGS[0], steps)
            names = modelio.model_in_names(base)
        except Inapplicable:
            return col
        except Exception as e:
            col.append("unsupported_edit_scripts", f"{cid}:edit[{sname}]: {type(e).__name__}: {str(e)[:80]}")
            return col
        for cfg in CONFIGS[1:]:
            tag = "u%di%de%d" % (cfg["unroll_loops"], cfg["inline_functions"], cfg["expand_mx"])
            case = f"{cid}:edit[{sname}]:{tag}"
            extra = {"options": cfg, "script": steps}
            try:
                m, reads = run_script(text, cls, cfg, steps)
            except Exception as e:
                col.violation(case + ":raises", f"script {steps} raises {type(e).__name__}: {str(e)[:100]} under {cfg} but not under the "
                              "reference configuration", {"model_text": text, **extra})
                continue
            for r, ((d0, f0s), (d1, f1s)) in enumerate(zip(reads0, reads)):
                if d0 != d1:
                    diff = [k for k in d0 if d0[k] != d1.get(k)]
                    col.violation(f"{case}:read{r}:variables", f"variable lists/metadata differ in {diff} at read {r} of script {steps}",
                                  {"model_text": text, **extra})
                    continue
                for fname, f0 in f0s.items():
                    nm = [names[6]] if fname == "variable_metadata" else names
                    try:
                        n = pipeline.compare_functions(col, f0, f1s[fname], nm, f"{case}:read{r}", text, fname, extra=extra)
                        col.bump("function_elements_compared", n)
                    except EncodingGap as g:
                        col.append("encoding_gaps", f"{case}:read{r}:{fname}: {g}")
            col.bump("edit_script_configurations", 1)
        col.bump("edit_script_runs", 1)
        col.sample({"model": cid, "edit_script": steps, "configs": 8}, limit=2)
    except Exception:
        col.harness_error(f"{cid}:edit[{sname}]: " + traceback.format_exc()[-1500:])
    return col


def edit_items(items, tier):
    scripts = dict(SCRIPTS)
    chosen = [m for m in items if m[0] in EDIT_MODELS_QUICK]
    if tier == "thorough":
        scripts.update(SCRIPTS_THOROUGH)
        rest = [m for m in items if m[0] not in EDIT_MODELS_QUICK]
        chosen += [m for m in rest if m[0].startswith("repo:") or m[0] in EDIT_MODELS_THOROUGH] + rest[::25]
    seen, out = set(), []
    for cid, text, cls in chosen:
        if cid in seen:
            continue
        seen.add(cid)
        out += [(cid, text, cls, sname, steps) for sname, steps in scripts.items()]
    return out


def work(item):
    if len(item) == 5:
        return work_edit(item)
    cid, text, cls = item
    col = Collector()
    try:
        try:
            base = build(text, cls, CONFIGS[0])
            d0 = describe(base)
            names = modelio.model_in_names(base)
            pnames = [names[6]]
            fns0 = {
                "dae_residual": (base.dae_residual_function, names),
                "initial_residual": (base.initial_residual_function, names),
                "variable_metadata": (base.variable_metadata_function, pnames),
                "delay_arguments": (base.delay_arguments_function, names),
            }
        except Exception as e:
            # not compilable under the reference configuration (C11 reports these): outside C12
            col.append("unsupported_models", f"{cid}: {type(e).__name__}")
            col.bump("n_unsupported_models")
            return col
        for cfg in CONFIGS[1:]:
            tag = "u%di%de%d" % (cfg["unroll_loops"], cfg["inline_functions"], cfg["expand_mx"])
            case = f"{cid}:{tag}"
            try:
                m = build(text, cls, cfg)
            except Exception as e:
                col.violation(case + ":raises", f"configuration {cfg} raises {type(e).__name__}: {str(e)[:100]} but the default configuration compiles",
                              {"model_text": text, "options": cfg})
                continue
            d1 = describe(m)
            if d1 != d0:
                diff = [k for k in d0 if d0[k] != d1.get(k)]
                col.violation(case + ":variables", f"variable lists/metadata differ in {diff}",
                              {"model_text": text, "options": cfg, "base": {k: d0[k] for k in diff}, "other": {k: d1[k] for k in diff}})
                continue
            for fname, (f0, nm) in fns0.items():
                f1 = getattr(m, fname + "_function")
                try:
                    n = pipeline.compare_functions(col, f0, f1, nm, case, text, fname, extra={"options": cfg})
                    col.bump("function_elements_compared", n)
                except EncodingGap as g:
                    col.append("encoding_gaps", f"{case}:{fname}: {g}")
            col.bump("configurations", 1)
        col.bump("programs", 1)
        col.sample({"model": cid, "configs": 8})
    except Exception:
        col.harness_error(f"{cid}: " + traceback.format_exc()[-1500:])
    return col


def main():
    args = std_args(PROP)
    rep = Report(PROP, args.tier, "translation_validation", args.seed)
    items = [m for m in families.structured_models(args.tier)
             if m[0].startswith(("for-", "fun-", "ifeq", "init", "vec-", "mat-", "der-"))]
    if args.tier == "quick":
        # the loop-subscript family is crossed with two loop ranges for C11; C12's quick tier keeps one of them
        items = [m for m in items if not (m[0].startswith("for-sub[") and "|1:3|" not in m[0])]
        # of the whole-matrix equation family the quick tier keeps the positions that change the functions' structure
        items = [m for m in items if not (m[0].startswith("mat-eq[") and m[0].split("|")[-1] not in ("eq]", "init]", "ifeq]", "der]"))]
    items += [("delay", DELAY, "M"), ("attr-fun", ATTR, "M")]
    for name, cls in families.REPO_MODELS:
        if name in ("ForLoop", "FunctionCall", "DoubleFunctionCall", "IfElse", "Spring", "Aircraft", "Estimator", "ArrayExpressions", "MatrixExpressions"):
            items.append((f"repo:{name}", open(REPO + f"/test/models/{name}.mo").read(), cls))
    if args.tier == "thorough":
        ex = families.scalar_exprs("quick")
        items += [(f"scalar{i}", families.batch_model(ex[i:i + 12]), "M") for i in range(0, len(ex), 12)]
    eitems = edit_items(items, args.tier)
    for col in run_parallel(work, items + eitems, args.jobs):
        rep.merge(col)
    cov = rep.coverage
    cov["edit_script_items"] = len(eitems)
    cov["disagreements_checked"] = rep.queries.get("sat", 0)
    cov["functions_encoded"] = ["casadi.generator.generate + Model.simplify under 8 option sets",
                                "Model.dae_residual_function, initial_residual_function, variable_metadata_function, delay_arguments_function (SX DAG -> z3)"]
    cov["bounds"] = ("enumerated models with loops (<=3 iterations; thorough <=4 and stepped ranges) incl. scaled/reversed/non-affine loop subscripts "
                     "on vectors, fixed rows/columns and row slices of matrices, function for-statements with mutually dependent statements, "
                     "the same function called at several places on different elements/slices/rows/components (also in initial equations, "
                     "if-branches, next to a loop), whole-matrix equations between equally shaped (square / non-square) matrices incl. transposes, matrix "
                     "products, slices, matrix-valued functions, rows/columns of square matrices inside loops, functions with an if-statement "
                     "(or/and/not conditions whose 0/1 encoding exceeds 1, elseif chains, several targets, nested, Boolean locals and arguments; "
                     "inlined and not inlined), if-equations, delays; all 8 configurations; all inputs unbounded reals. "
                     f"Edit scripts: {len(SCRIPTS) + (len(SCRIPTS_THOROUGH) if args.tier == 'thorough' else 0)} read/edit/read sequences over the public Model API "
                     f"(ops {sorted(OPS)}) on {len({e[0] for e in eitems})} models, every configuration driven through the same script and "
                     "compared with configuration 0 at every read point")
    rep.assumptions += ["CasADi Function.expand() is trusted (expand_mx itself calls it)", "real arithmetic; elementary functions uninterpreted; divisors non-zero",
                        "NaN/inf attribute defaults are compared as opaque constants"]
    if cov.get("configurations", 0) == 0:
        rep.harness_error("no configuration compared")
    if cov.get("edit_script_configurations", 0) == 0:
        rep.harness_error("no edit script compared")
    return rep.finish()


if __name__ == "__main__":
    sys.exit(main())
