"""C12 - representation-only options (unroll_loops, inline_functions, expand_mx) do not change
the model's meaning (Engine B).

Real code: generate + Model.simplify under each of the 8 configurations; the four output
Functions of every configuration are expanded to SX, translated to z3 and proved equal to those
of configuration 0 for ALL inputs; variable lists / order / python types / non-symbolic attribute
values are compared concretely.

Second dimension (edit scripts): a Model is a mutable public object, so "the same model handled by
the same sequence of calls" must keep the same four functions under every configuration as well.
For selected models every configuration is driven through the same script of reads of the output
functions and edits through the public Model API (variable attributes, parameter values,
equations, initial equations, delay arguments); at every read point the functions are again
proved equal to configuration 0's by z3.

Third dimension (other options held fixed): the 8 configurations are layered on top of a fixed setting of
the remaining compiler options (BASES): the defaults for every model, expand_vectors=True for a
selection (quick) / a third of everything (thorough), and in the thorough tier each simplification option
alone and together with expand_vectors on representatives.  Case ids carry the option set as `@<name>`.

Families local to this check (round 3): attributes given by calls of user functions (fun-attr), function
for-statements over general ranges that subscript arrays (fun-range), sums of conditional terms with a
zero branch (guard), one equation per operator (ops), option-sensitive models (opt).
"""
import itertools
import sys
import traceback

import casadi as ca
import numpy as np

from vk.paths import REPO
from vk import families
from vk.report import Collector, EncodingGap, Report, run_parallel, std_args
from vk.smt import modelio, pipeline

PROP = "C12"
CONFIGS = [dict(unroll_loops=u, inline_functions=i, expand_mx=e)
           for u, i, e in itertools.product([True, False], repeat=3)]

DELAY = """model M
  Real x(start = 1);
  Real y;
  Real v[2];
  Real w[2];
  input Real u;
  parameter Real d = 0.5;
equation
  der(x) = -x + delay(y, d);
  y = 2 * x + u;
  for i in 1:2 loop
    w[i] = 3 * d * u;
    v[i] = delay(2 * w[i] * d, d * 2);
  end for;
end M;
"""
ATTR = """function f
  input Real x;
  output Real y;
algorithm
  y := x * x + 1;
end f;
model M
  parameter Real p = 2;
  parameter Real q = 3 * p;
  Real x(start = p, min = -q, max = f(p), nominal = 2 * p + 1);
  Real w[2](each start = q);
equation
  der(x) = f(x) - p;
  for i in 1:2 loop
    w[i] = f(x * i) + q;
  end for;
end M;
"""


# ================================================================================================
# Round-3 families (local to C12; vk/families.py is shared).  All of them are syntax only: every
# numeric quantity stays symbolic in the z3 queries.
# ================================================================================================
def _lines(ls, ind="  "):
    return "".join(f"{ind}{l}\n" for l in ls)


# ---- (A) variable attributes given by CALLS of user functions ----------------------------------
# inline_functions decides whether the metadata expression shows the function body or an opaque
# call node.  Piecewise-linear bodies are the interesting class (zero Hessian, not affine); the affine
# and bilinear bodies are the neighbouring controls.  Function fn(a, lo) -> y.
ATTR_FUNS = [
    ("max", ["y := max(a, lo);"]),
    ("min", ["y := min(a, lo);"]),
    ("abs", ["y := abs(a) + lo;"]),
    ("ifexpr", ["y := if a > lo then a else lo;"]),
    ("ifstmt", ["if a > lo then", "  y := a;", "else", "  y := 2 * lo - a;", "end if;"]),
    ("sat", ["y := min(max(a, -lo), lo);"]),
    ("relu-sum", ["y := max(a, 0) + max(lo, 0);"]),
    ("loop", ["y := a;", "for i in 1:2 loop", "  y := max(y, i * lo);", "end for;"]),
    ("affine", ["y := 2 * a - lo + 1;"]),
    ("bilinear", ["y := a * lo;"]),
]
# position -> overrides of the declaration fragments of the template below ({c} = fn(p, q))
ATTR_POSITIONS = {
    "state-max": {"x": "(max = {c})"},
    "state-min": {"x": "(min = -{c})"},
    "state-start": {"x": "(start = {c})"},
    "state-nominal": {"x": "(nominal = {c})"},
    "alg-max": {"y": "(min = 0.5 * p - q, max = {c})"},
    "input-min": {"u": "(min = {c})"},
    "param-value": {"pdecl": "  parameter Real r = {c};\n", "x": "(max = 2 * r)"},
    "each-start": {"w": "(each start = {c})"},
    "expr-arg": {"x": "(max = fn(2 * p - q, 1))"},
    "nested": {"x": "(max = fn(fn(p, q), q))"},
    "two": {"x": "(min = -fn(q, p), max = fn(p, q))"},
    "in-sum": {"x": "(max = {c} + 2 * q)"},
    "only-attr": {"x": "(max = {c})", "yeq": "3 * x"},  # the function is called from the attribute only
    "no-other": {"x": "(max = {c})", "y": ""},  # no other symbolic metadata in the model
}


def fun_attr_model(body, pos):
    o = {"pdecl": "", "x": "", "y": "(min = 0.5 * p - q)", "u": "", "w": "", "yeq": "fn(3 * x, 0.5)"}
    o.update(ATTR_POSITIONS[pos])
    o = {k: v.replace("{c}", "fn(p, q)") for k, v in o.items()}
    fn = "function fn\n  input Real a;\n  input Real lo;\n  output Real y;\nalgorithm\n" + _lines(body) + "end fn;\n"
    return (fn + "model M\n  parameter Real p = 5;\n  parameter Real q = 1;\n" + o["pdecl"]
            + f"  Real x{o['x']};\n  Real y{o['y']};\n  input Real u{o['u']};\n  Real w[2]{o['w']};\n"
            + f"equation\n  der(x) = -x + y + u;\n  y = {o['yeq']};\n  for i in 1:2 loop\n    w[i] = i * x;\n  end for;\nend M;\n")


def fun_attr_models(tier):
    """quick: every function at position state-max, function max at every position, and a diagonal that pairs
    every other function with one further position; thorough: the full cross product."""
    ms, poss = [], list(ATTR_POSITIONS)
    for k, (fname, body) in enumerate(ATTR_FUNS):
        for pos in poss:
            if pos == "only-attr" and (tier == "quick" or fname != "max"):
                continue  # a function called from a declaration only is rejected: one representative (see known findings, C11)
            diagonal = pos == poss[(3 * k + 1) % len(poss)]
            if tier == "quick" and not (pos == "state-max" or fname == "max" or diagonal):
                continue
            ms.append((f"fun-attr[{fname}|{pos}]", fun_attr_model(body, pos), "M"))
    return ms


# ---- (B) function for-statements over general ranges that subscript arrays with the loop variable
# (families.fun_loop_models has ranges 1:n without array reads; the for-sub "fun-read" position has
# one body).  Function g(c[N], d[N], C[N,2], t) -> p; N = largest subscript + 1 (an off-by-one read
# hits a neighbour silently).  {i} is the loop variable, {r} = lo + hi - i (the mirrored subscript).
FUN_RANGE_RANGES = {"quick": ["1:3", "3:-1:1", "2:3", "1:2:5", "3:-1:2", "2:2"],
                    "thorough": ["1:3", "3:-1:1", "2:3", "1:2:5", "3:-1:2", "2:2", "4:-2:1", "2:2:6", "5:-2:1", "1:4", "4:-1:1", "3:3:9"]}
FUN_RANGE_BODIES = [
    ("horner", ["p := p * t + c[i];"]),
    ("weighted", ["p := p + c[i] * i * t;"]),
    ("two-arrays", ["p := p * d[i] + c[i];"]),
    ("offset", ["p := p * t + c[i + 1];"]),
    ("mirrored", ["p := p * t + c[{r}];"]),
    ("both", ["p := p * c[{r}] + c[i] * t;"]),
    ("mat-row", ["p := p * t + C[i,1] - 2 * C[i,2];"]),
    ("two-stmts", ["s := s + c[i] * p;", "p := p * t + d[i];"]),
    ("local", ["s := c[i] + p;", "p := s * t - d[i];"]),
]
FUN_RANGE_CALLS = {
    "plain": ("  Real a;\n", "  a = g(v, w, A, a) - 1;\n", ""),
    "in-loop": ("  Real z[2];\n  input Real u;\n", "  for k in 1:2 loop\n    z[k] = g(v, w, A, k * u);\n  end for;\n", ""),
    "init": ("  Real a;\n", "  der(a) = g(w, v, A, a);\n", "  a = g(v, w, A, 0.5);\n"),
    "two-calls": ("  Real a, b;\n", "  a = g(v, w, A, b);\n  b = g(w, v, A, a) + g(v, v, A, 2);\n", ""),
}
FUN_RANGE_QUICK_ALL_BODIES = ("3:-1:1", "2:3")
FUN_RANGE_QUICK_ALL_CALLS = ("3:-1:1", "1:2:5")


def fun_range_model(body, rng, call):
    vals = families.range_values(rng)
    r = f"{min(vals) + max(vals)} - i"
    n = max(vals) + 2  # covers i, i + 1 and the mirrored subscript, plus one spare element
    stm = _lines([b.replace("{r}", r) for b in body], "    ")
    fn = (f"function g\n  input Real c[{n}];\n  input Real d[{n}];\n  input Real C[{n},2];\n  input Real t;\n  output Real p;\n"
          f"protected\n  Real s;\nalgorithm\n  p := 0;\n  s := 1;\n  for i in {rng} loop\n{stm}  end for;\n  p := p + s;\nend g;\n")
    decl, eqs, init = FUN_RANGE_CALLS[call]
    return (fn + f"model M\n  Real v[{n}];\n  Real w[{n}];\n  Real A[{n},2];\n" + decl + "equation\n" + eqs
            + ("initial equation\n" + init if init else "") + "end M;\n")


def fun_range_models(tier):
    ms = []
    for (bname, body), rng, call in itertools.product(FUN_RANGE_BODIES, FUN_RANGE_RANGES[tier], FUN_RANGE_CALLS):
        if tier == "quick" and not ((bname == "horner" and (call == "plain" or rng in FUN_RANGE_QUICK_ALL_CALLS))
                                    or (call == "plain" and rng in FUN_RANGE_QUICK_ALL_BODIES)):
            continue
        if tier == "thorough" and call not in ("plain", "in-loop") and bname not in ("horner", "two-stmts"):
            continue
        ms.append((f"fun-range[{bname}|{rng}|{call}]", fun_range_model(body, rng, call), "M"))
    return ms


# ---- (C) sums / products of conditional terms with a zero branch -------------------------------
# SX drops a zero branch (if_else_zero), so these are the expressions whose SX form differs most from
# what was written.  Conditions c1, c2, c3 are unrelated; terms a, b, d.
def _g(c, a):
    return f"(if {c} then {a} else 0)"


GUARD_FORMS = {
    "sum-unrelated": lambda c1, c2, c3, a, b, d: f"{_g(c1, a)} + {_g(c2, b)}",
    "sum-complement": lambda c1, c2, c3, a, b, d: f"{_g(c1, a)} + {_g('not ' + c1, b)}",
    "sum-same": lambda c1, c2, c3, a, b, d: f"{_g(c1, a)} + {_g(c1, b)}",
    "sum-zero-then": lambda c1, c2, c3, a, b, d: f"(if {c1} then 0 else {a}) + (if {c2} then 0 else {b})",
    "sum-mixed": lambda c1, c2, c3, a, b, d: f"{_g(c1, a)} + (if {c2} then 0 else {b})",
    "diff": lambda c1, c2, c3, a, b, d: f"{_g(c1, a)} - {_g(c2, b)}",
    "prod": lambda c1, c2, c3, a, b, d: f"{_g(c1, a)} * {_g(c2, b)}",
    "sum3": lambda c1, c2, c3, a, b, d: f"{_g(c1, a)} + {_g(c2, b)} + {_g(c3, d)}",
    "nested": lambda c1, c2, c3, a, b, d: f"{_g(c1, _g(c2, a))} + {_g(c3, b)}",
    "scaled": lambda c1, c2, c3, a, b, d: f"2 * {_g(c1, a)} + {_g(c2, b)} * {d}",
    "neg": lambda c1, c2, c3, a, b, d: f"-{_g(c1, a)} + {_g(c2, b)}",
    "elseif-zero": lambda c1, c2, c3, a, b, d: f"(if {c1} then {a} elseif {c2} then {b} else 0) + {_g(c3, d)}",
    "genuine": lambda c1, c2, c3, a, b, d: f"(if {c1} then {a} else {b}) + {_g(c2, d)}",
    "and-or": lambda c1, c2, c3, a, b, d: f"{_g(c1 + ' and ' + c2, a)} + {_g(c1 + ' or ' + c3, b)}",
    "max": lambda c1, c2, c3, a, b, d: f"max({_g(c1, a)}, {_g(c2, b)})",
}
GUARD_POSITIONS = ["eq", "loop", "init", "fun", "call"]
GUARD_QUICK_POS_FORMS = ("sum-unrelated", "sum-mixed", "sum3", "nested")
# quick tier, other options at their defaults: every form as a plain equation, one form at every position
GUARD_QUICK_DEFAULT_BASE = lambda cid: cid.endswith("|eq]") or cid.startswith("guard[sum-unrelated|")


def guard_model(form, pos):
    f = GUARD_FORMS[form]
    gain = "function gain\n  input Real a;\n  input Real k;\n  output Real y;\nalgorithm\n  y := k * a + 1;\nend gain;\n"
    S = "  parameter Real k = 2;\n  input Real u;\n  input Real v;\n  Real x;\n  Real y;\n"
    if pos == "eq":
        return "model M\n" + S + f"equation\n  der(x) = {f('u > 1', 'x > 1.2', 'k > 1', '2 * x + 1', 'v', 'y')};\n  y = x * k;\nend M;\n"
    if pos == "call":
        return (gain + "model M\n" + S + f"equation\n  der(x) = {f('u > 1', 'x > 1.2', 'k > 1', 'gain(x, k)', 'v', 'gain(y, 2)')};\n"
                "  y = x * k;\nend M;\n")
    if pos == "init":
        return ("model M\n" + S + "equation\n  der(x) = y - x;\n  y = x * k + u;\ninitial equation\n"
                f"  x = {f('u > 1', 'k > 1', 'v > u', 'k * u + 1', '2', 'v')};\nend M;\n")
    if pos == "loop":
        return ("model M\n  parameter Real k = 2;\n  input Real u[2];\n  Real x[2];\n  Real y;\nequation\n  for i in 1:2 loop\n"
                f"    der(x[i]) = {f('u[i] > 1', 'x[i] > 1.2', 'k > i', 'k * x[i] + 1', 'u[i]', 'i')};\n  end for;\n"
                "  y = if x[1] > 1 then x[2] else u[1];\nend M;\n")
    if pos == "fun":
        fn = ("function f\n  input Real a;\n  input Real b;\n  output Real y;\nalgorithm\n"
              f"  y := {f('a > 1', 'b > 1.2', 'a > b', '2 * a + 1', 'b', 'a * b')};\nend f;\n")
        return fn + "model M\n" + S + "equation\n  der(x) = f(x, u) - v;\n  y = f(u, x * k);\nend M;\n"
    raise ValueError(pos)


def guard_models(tier):
    ms = []
    for form, pos in itertools.product(GUARD_FORMS, GUARD_POSITIONS):
        if tier == "quick" and not (pos == "eq" or form in GUARD_QUICK_POS_FORMS):
            continue
        ms.append((f"guard[{form}|{pos}]", guard_model(form, pos), "M"))
    return ms


# ---- (D) one equation per operator: what the SX -> MX rebuild of expand_vectors + expand_mx sees ----
OP_EXPRS = ["a + b", "a - b", "a * b", "a / b", "a ^ 2", "a ^ 3", "a ^ b", "a ^ 0.5", "2 ^ a", "-a", "a - (-b)", "1 / a",
            "sin(a)", "cos(a)", "tan(a)", "exp(a)", "log(a)", "abs(a)", "sqrt(a)", "min(a, b)", "max(a, b)", "a * a", "a + a",
            "if a < b then a else b", "if a <= b then a else c", "if a > b then 1 else c", "if a >= b then b else 2",
            "if a == b then a else b", "if a <> b then c else b", "if a < b and b < c then a else c",
            "if a < b or b < c then a else c", "if not a < b then a else c", "if a < b then a elseif b < c then b else c",
            "if a < b then (if b < c then a else b) else c", "min(a, b) * max(b, c)", "abs(a - b) / (1 + c * c)"]


def op_models():
    return [(f"ops[{i // 12}]", families.batch_model(OP_EXPRS[i:i + 12]), "M") for i in range(0, len(OP_EXPRS), 12)]


# ---- (E) models on which the simplification options have something to do (thorough tier, every option set) ----
def option_models():
    ms = []

    def add(i, decl, eqs, pre=""):
        ms.append((f"opt[{i}]", pre + "model M\n" + decl + "equation\n" + eqs + "end M;\n", "M"))

    add("const-arr-1d", "  constant Real g[3] = {1, 2, 3};\n  Real x[3];\n", "  x = 2 * g;\n")
    add("const-arr-2d", "  constant Real G[2,2] = {{1, 2}, {3, 4}};\n  Real x[2,2];\n", "  x = 2 * G;\n")
    add("param-arr-1d", "  parameter Real g[3] = {1, 2, 3};\n  Real x[3];\n", "  x = 2 * g;\n")
    add("param-arr-2d", "  parameter Real G[2,2] = {{1, 2}, {3, 4}};\n  Real x[2,2];\n", "  x = 2 * G;\n")
    add("const-fill", "  constant Real G[2,2] = fill(1.5, 2, 2);\n  Real x[2,2];\n", "  x = G + G;\n")
    add("const-assign-loop", "  Real y[2];\n  Real x;\n  Real z;\n", "  for i in 1:2 loop\n    y[i] = i;\n  end for;\n  x = 3;\n  z = x + y[1];\n")
    add("const-assign-vec", "  Real y[2];\n  Real x;\n  Real z;\n", "  y = {1, 2};\n  x = 3;\n  z = x + y[1];\n")
    add("const-assign-scalar", "  Real x;\n  Real z;\n  Real w;\n", "  x = 3;\n  0 = z;\n  w = x + z + time;\n")
    add("dep-values", "  parameter Real p = 2;\n  parameter Real q = 3 * p;\n  constant Real k = 4;\n  constant Real k2 = k * 2;\n"
        "  Real x(max = q, min = -2 * p);\n  Real y(nominal = q + 1);\n", "  x = q * time + k2;\n  der(y) = p * x - k;\n")
    add("dep-params", "  parameter Real p = 2;\n  parameter Real q = 3 * p;\n  parameter Real r = q - p;\n  constant Real k = 4;\n"
        "  Real x(max = q, min = -2 * r);\n  Real y(nominal = q + 1);\n", "  x = q * time + k;\n  der(y) = r * x - k;\n")
    add("alias-chain", "  Real a, b, c;\n  Real v[2], w[2];\n  input Real u;\n", "  a = b;\n  c = -a;\n  b = u * time;\n  v = w;\n"
        "  for i in 1:2 loop\n    w[i] = i * u;\n  end for;\n")
    return ms


# models of the existing families that the quick tier also compiles with the other options fixed
BASE_MODELS_QUICK = ("attr-fun", "delay", "init", "init-if", "for-1d[3]", "for-step[1:2:3]", "for-2d", "for-two-eq", "for-der", "der-vec",
                     "vec-ops", "vec-neg-if", "mat-ops", "mat-transpose", "fun-if", "fun-for", "fun-two-out", "ifeq-else", "ifeq-nested-expr",
                     "fun-call[elem-and-loop]", "fun-call[mat-row]", "for-sub[2 * i|1:3|rhs|slack2]", "for-sub[4 - i|1:3|row-slice|slack2]",
                     "fun-loop[fwd|1:3|multi]", "mat-eq[2x2|prod-r|eq]", "mat-eq[2x2|if|eq]", "mat-sq[2|for-row]")
EDIT_BASE_MODELS_QUICK = ("guard[sum-unrelated|loop]",)
EDIT_BASE_MODELS_THOROUGH = ("for-1d[3]", "attr-fun", "fun-attr[max|state-max]", "fun-range[horner|3:-1:1|in-loop]", "delay")
EDIT_BASE_SCRIPTS = ("attrs", "scale-eq", "append-init", "two-rounds")


def _attr_value(x):
    """Attribute value as numbers (used for the value-replacing option sets, where the same value legitimately
    shows up as 1 / 1.0 / a symbol-free MX depending on where in simplify() it was substituted)."""
    if isinstance(x, ca.MX):
        if ca.symvar(x):
            return "<MX>"
        x = ca.evalf(x)
    try:
        return [round(float(e), 12) for e in np.array(ca.DM(x), dtype=float).flatten(order="F")]
    except Exception:
        return repr(x)


def describe(model, numeric=False):
    d = {}
    for cat in ["states", "der_states", "alg_states", "inputs", "constants", "parameters"]:
        d[cat] = [(v.symbol.name(), tuple(v.symbol.shape), v.python_type.__name__,
                   tuple(sorted(getattr(v, "prefixes", []) or [])))
                  for v in getattr(model, cat)]
        d[cat + ":attrs"] = []
        for v in getattr(model, cat):
            row = []
            for a in ["value", "start", "min", "max", "nominal", "fixed"]:
                x = getattr(v, a)
                if numeric:
                    row.append(repr(_attr_value(x)))
                    continue
                row.append("<MX>" if isinstance(x, ca.MX) and not x.is_constant() else repr(
                    ca.DM(x) if isinstance(x, ca.MX) else x))
            d[cat + ":attrs"].append(row)
    d["outputs"] = list(model.outputs)
    d["delay_states"] = list(model.delay_states)
    return d


def build(text, cls, cfg):
    m = pipeline.real_generate(text, cls, cfg)
    m.simplify(cfg)
    return m


# ---- third dimension: the other (non-representation) compiler options, held fixed ---------------
# "For every model, toggling the representation options ..." includes models compiled with any fixed
# setting of the remaining options; the 8 configurations are layered on top of each base set.
BASES = {
    "": {},
    "ev": {"expand_vectors": True},
}
# thorough tier: the simplification options one at a time, and each together with expand_vectors (whose position inside
# simplify() depends on expand_mx, so every other step sees vectors under one representation and scalars under the other)
_SIMP = {
    "alias": {"detect_aliases": True},
    "rpe": {"replace_parameter_expressions": True, "replace_constant_expressions": True},
    "eca": {"eliminate_constant_assignments": True},
    "rcv": {"replace_constant_values": True, "replace_parameter_values": True},
    "rpv": {"resolve_parameter_values": True},
    "fse": {"factor_and_simplify_equations": True},
    "aff": {"reduce_affine_expression": True},
}
BASES_THOROUGH = dict(_SIMP, **{"ev+" + k: dict(v, expand_vectors=True) for k, v in _SIMP.items()})
BASES.update(BASES_THOROUGH)
# quick tier: one small model for each (option set, model class) on which the thorough tier finds a difference (see known findings)
BASES_QUICK_REPRESENTATIVES = (("opt[const-arr-2d]", "ev+rcv"), ("opt[const-assign-loop]", "ev+eca"), ("fun-attr[max|param-value]", "rpv"))
# under these option sets attribute values are compared as numbers (see _attr_value)
NUMERIC_BASES = set(BASES_THOROUGH)


def with_base(base, cfg):
    return dict(BASES[base], **cfg)


def base_tag(cid, base):
    return f"{cid}@{base}" if base else cid


# ---- edit scripts: reads of the four functions interleaved with edits of the public Model ------
FN = ["dae_residual", "initial_residual", "variable_metadata", "delay_arguments"]


def _first_var(m):
    return (m.states + m.alg_states)[0]


def _param(m):
    if not m.parameters:
        raise Inapplicable("no parameter")
    return m.parameters[0]


class Inapplicable(Exception):
    pass


def op_set_attrs(m, cfg):
    v = _first_var(m)
    v.max, v.min, v.nominal, v.start = 1.5, -2.5, 10.0, 0.25


def op_set_param(m, cfg):
    _param(m).value = 0.7


def op_attr_affine(m, cfg):
    p, v = _param(m).symbol, _first_var(m)
    v.max = 2 * p[0] + 1
    v.nominal = 3 * p[0]


def op_attr_nonaffine(m, cfg):
    p, v = _param(m).symbol, (m.states + m.alg_states)[-1]
    v.min = -(p[0] * p[0])
    v.start = ca.fmax(p[0], 1.0)


def op_scale_eq(m, cfg):
    if not m.equations:
        raise Inapplicable("no equation")
    m.equations[0] = 2.0 * m.equations[0]


def op_append_eq(m, cfg):
    s = _first_var(m).symbol
    m.equations.append(s[0] - 0.5 * m.time)


def op_delete_eq(m, cfg):
    if len(m.equations) < 2:
        raise Inapplicable("fewer than two equations")
    del m.equations[-1]


def op_append_init(m, cfg):
    s = (m.states + m.alg_states)[-1].symbol
    m.initial_equations.append(s[s.numel() - 1] - 0.5)


def op_replace_init(m, cfg):
    if not m.initial_equations:
        raise Inapplicable("no initial equation")
    m.initial_equations[0] = m.initial_equations[0] + m.time


def op_delay(m, cfg):
    if not m.delay_arguments:
        raise Inapplicable("no delay")
    from pymoca.backends.casadi.model import DelayArgument
    a = m.delay_arguments[0]
    m.delay_arguments[0] = DelayArgument(2 * a.expr, a.duration)


def op_simplify(m, cfg):
    m.simplify(cfg)


OPS = {"attrs": op_set_attrs, "param": op_set_param, "attr-affine": op_attr_affine, "attr-nonaffine": op_attr_nonaffine,
       "scale-eq": op_scale_eq, "append-eq": op_append_eq, "delete-eq": op_delete_eq, "append-init": op_append_init,
       "replace-init": op_replace_init, "delay": op_delay, "simplify": op_simplify}
# "read" reads all four functions, "read:<fn>" only one of them (the others are first read after the edit)
SCRIPTS = {
    "attrs": ["read", "attrs", "read"],
    "attrs-unread": ["attrs", "read"],
    "param": ["read", "param", "read"],
    "attr-affine": ["read", "attr-affine", "read"],
    "attr-nonaffine": ["read", "attr-nonaffine", "read"],
    "scale-eq": ["read", "scale-eq", "read"],
    "append-eq": ["read", "append-eq", "read"],
    "delete-eq": ["read", "delete-eq", "read"],
    "append-init": ["read", "append-init", "read"],
    "replace-init": ["read", "replace-init", "read"],
    "delay": ["read", "delay", "read"],
    "partial-read": ["read:variable_metadata", "scale-eq", "append-init", "read", "attrs", "read"],
    "two-rounds": ["read", "attrs", "param", "read", "scale-eq", "append-init", "read"],
}
SCRIPTS_THOROUGH = {
    "resimplify": ["read", "attrs", "scale-eq", "simplify", "read"],
    "edit-all": ["read", "attrs", "attr-nonaffine", "scale-eq", "append-eq", "append-init", "read", "delete-eq", "read"],
}
EDIT_MODELS_QUICK = ("attr-fun", "delay", "init", "for-1d[3]", "fun-if", "ifeq-else", "fun-call[elem-and-loop]",
                     "for-sub[2 * i|1:3|rhs|slack2]")
EDIT_MODELS_THOROUGH = ("init-if", "mat-ops", "fun-call[elem-initial]", "fun-loop[fwd|1:3|multi]")


def run_script(text, cls, cfg, steps):
    """Drive one fresh model through the script; returns [(describe, {fname: Function})] per read."""
    m = build(text, cls, cfg)
    reads = []
    for st in steps:
        if st == "read":
            reads.append((describe(m), {f: getattr(m, f + "_function") for f in FN}))
        elif st.startswith("read:"):
            f = st.split(":", 1)[1]
            reads.append((None, {f: getattr(m, f + "_function")}))
        else:
            OPS[st](m, cfg)
    return m, reads


def work_edit(item):
    cid0, text, cls, bname, sname, steps = item
    cid = base_tag(cid0, bname)
    col = Collector()
    try:
        try:
            base, reads0 = run_script(text, cls, with_base(bname, CONFIGS[0]), steps)
            names = modelio.model_in_names(base)
        except Inapplicable:
            return col
        except Exception as e:
            col.append("unsupported_edit_scripts", f"{cid}:edit[{sname}]: {type(e).__name__}: {str(e)[:80]}")
            return col
        for cfg in CONFIGS[1:]:
            tag = "u%di%de%d" % (cfg["unroll_loops"], cfg["inline_functions"], cfg["expand_mx"])
            case = f"{cid}:edit[{sname}]:{tag}"
            cfg = with_base(bname, cfg)
            extra = {"options": cfg, "script": steps}
            try:
                m, reads = run_script(text, cls, cfg, steps)
            except Exception as e:
                col.violation(case + ":raises", f"script {steps} raises {type(e).__name__}: {' '.join(str(e).split())[:100]} under {cfg} but not under the "
                              "reference configuration", {"model_text": text, **extra})
                continue
            for r, ((d0, f0s), (d1, f1s)) in enumerate(zip(reads0, reads)):
                if d0 != d1:
                    diff = [k for k in d0 if d0[k] != d1.get(k)]
                    col.violation(f"{case}:read{r}:variables", f"variable lists/metadata differ in {diff} at read {r} of script {steps}",
                                  {"model_text": text, **extra})
                    continue
                for fname, f0 in f0s.items():
                    nm = [names[6]] if fname == "variable_metadata" else names
                    try:
                        n = pipeline.compare_functions(col, f0, f1s[fname], nm, f"{case}:read{r}", text, fname, extra=extra)
                        col.bump("function_elements_compared", n)
                    except EncodingGap as g:
                        col.append("encoding_gaps", f"{case}:read{r}:{fname}: {g}")
            col.bump("edit_script_configurations", 1)
        col.bump("edit_script_runs", 1)
        col.sample({"model": cid, "edit_script": steps, "configs": 8}, limit=2)
    except Exception:
        col.harness_error(f"{cid}:edit[{sname}]: " + traceback.format_exc()[-1500:])
    return col


def edit_items(items, tier):
    scripts = dict(SCRIPTS)
    chosen = [m for m in items if m[0] in EDIT_MODELS_QUICK]
    if tier == "thorough":
        scripts.update(SCRIPTS_THOROUGH)
        rest = [m for m in items if m[0] not in EDIT_MODELS_QUICK]
        chosen += [m for m in rest if m[0].startswith("repo:") or m[0] in EDIT_MODELS_THOROUGH] + rest[::25]
    seen, out = set(), []
    for cid, text, cls in chosen:
        if cid in seen:
            continue
        seen.add(cid)
        out += [(cid, text, cls, "", sname, steps) for sname, steps in scripts.items()]
    # the same scripts on models compiled with the other options fixed at non-default values
    for bname in ("ev",):
        names = EDIT_BASE_MODELS_QUICK + (EDIT_BASE_MODELS_THOROUGH if tier == "thorough" else ())
        snames = EDIT_BASE_SCRIPTS if tier == "quick" else tuple(scripts)
        for cid, text, cls in items:
            if cid in names:
                out += [(cid, text, cls, bname, sname, scripts[sname]) for sname in snames]
    return out


def work(item):
    if len(item) == 6:
        return work_edit(item)
    cid0, text, cls, bname = item
    cid = base_tag(cid0, bname)
    col = Collector()
    try:
        try:
            base = build(text, cls, with_base(bname, CONFIGS[0]))
            d0 = describe(base, bname in NUMERIC_BASES)
            names = modelio.model_in_names(base)
            pnames = [names[6]]
            fns0 = {
                "dae_residual": (base.dae_residual_function, names),
                "initial_residual": (base.initial_residual_function, names),
                "variable_metadata": (base.variable_metadata_function, pnames),
                "delay_arguments": (base.delay_arguments_function, names),
            }
        except Exception as e:
            # not compilable under the reference configuration (C11 reports these): outside C12
            col.append("unsupported_models", f"{cid}: {type(e).__name__}")
            col.bump("n_unsupported_models")
            return col
        for cfg in CONFIGS[1:]:
            tag = "u%di%de%d" % (cfg["unroll_loops"], cfg["inline_functions"], cfg["expand_mx"])
            case = f"{cid}:{tag}"
            cfg = with_base(bname, cfg)
            try:
                m = build(text, cls, cfg)
            except Exception as e:
                col.violation(case + ":raises", f"configuration {cfg} raises {type(e).__name__}: {' '.join(str(e).split())[:100]} but the reference configuration (all three options True) compiles",
                              {"model_text": text, "options": cfg})
                continue
            d1 = describe(m, bname in NUMERIC_BASES)
            if d1 != d0:
                diff = [k for k in d0 if d0[k] != d1.get(k)]
                col.violation(case + ":variables", f"variable lists/metadata differ in {diff}",
                              {"model_text": text, "options": cfg, "base": {k: d0[k] for k in diff}, "other": {k: d1[k] for k in diff}})
                continue
            for fname, (f0, nm) in fns0.items():
                f1 = getattr(m, fname + "_function")
                try:
                    n = pipeline.compare_functions(col, f0, f1, nm, case, text, fname, extra={"options": cfg})
                    col.bump("function_elements_compared", n)
                except EncodingGap as g:
                    col.append("encoding_gaps", f"{case}:{fname}: {g}")
            col.bump("configurations", 1)
        col.bump("programs", 1)
        if bname:
            col.bump("programs@" + bname, 1)
        col.sample({"model": cid0, "fixed_options": BASES[bname], "configs": 8})
    except Exception:
        col.harness_error(f"{cid}: " + traceback.format_exc()[-1500:])
    return col


def main():
    args = std_args(PROP)
    rep = Report(PROP, args.tier, "translation_validation", args.seed)
    items = [m for m in families.structured_models(args.tier)
             if m[0].startswith(("for-", "fun-", "ifeq", "init", "vec-", "mat-", "der-"))]
    if args.tier == "quick":
        # the loop-subscript family is crossed with two loop ranges for C11; C12's quick tier keeps one of them
        items = [m for m in items if not (m[0].startswith("for-sub[") and "|1:3|" not in m[0])]
        # of the whole-matrix equation family the quick tier keeps the positions that change the functions' structure
        items = [m for m in items if not (m[0].startswith("mat-eq[") and m[0].split("|")[-1] not in ("eq]", "init]", "ifeq]", "der]"))]
    items += [("delay", DELAY, "M"), ("attr-fun", ATTR, "M")]
    for name, cls in families.REPO_MODELS:
        if name in ("ForLoop", "FunctionCall", "DoubleFunctionCall", "IfElse", "Spring", "Aircraft", "Estimator", "ArrayExpressions", "MatrixExpressions"):
            items.append((f"repo:{name}", open(REPO + f"/test/models/{name}.mo").read(), cls))
    if args.tier == "thorough":
        ex = families.scalar_exprs("quick")
        items += [(f"scalar{i}", families.batch_model(ex[i:i + 12]), "M") for i in range(0, len(ex), 12)]
    new = fun_attr_models(args.tier) + fun_range_models(args.tier) + guard_models(args.tier)
    new_quick = fun_attr_models("quick") + fun_range_models("quick") + guard_models("quick")
    old_ids = {m[0] for m in items}
    items += new
    if args.tier == "thorough":
        items += option_models()
    # every model under the default remaining options; then selected ones with the remaining options fixed otherwise
    pitems = [m + ("",) for m in items if not (args.tier == "quick" and m[0].startswith("guard[") and not GUARD_QUICK_DEFAULT_BASE(m[0]))]
    for bname in (["ev"] if args.tier == "quick" else [b for b in BASES if b]):
        if args.tier == "quick":
            chosen = [m for m in items if m[0] in BASE_MODELS_QUICK or m[0].startswith("repo:")] + op_models()
            chosen += [m for k, m in enumerate(new) if m[0].startswith(("guard[", "fun-range[horner|")) or (m[0].startswith("fun-attr[") and k % 3 == 0)]
        elif bname == "ev":
            old = [m for m in items if m[0] in old_ids]
            chosen = [m for k, m in enumerate(old) if k % 3 == 0 or m[0] in BASE_MODELS_QUICK or m[0].startswith("repo:")] + new + op_models()
            chosen += option_models()
        else:
            chosen = [m for m in items if m[0] in BASE_MODELS_QUICK or m[0].startswith("repo:")] + op_models() + option_models() + new_quick[::3]
        pitems += [m + (bname,) for m in chosen]
    if args.tier == "quick":
        pool = {m[0]: m for m in items + option_models()}
        pitems += [pool[cid] + (bname,) for cid, bname in BASES_QUICK_REPRESENTATIVES]
    eitems = edit_items(items, args.tier)
    for col in run_parallel(work, pitems + eitems, args.jobs):
        rep.merge(col)
    cov = rep.coverage
    cov["edit_script_items"] = len(eitems)
    cov["disagreements_checked"] = rep.queries.get("sat", 0)
    cov["functions_encoded"] = ["casadi.generator.generate + Model.simplify under 8 option sets",
                                "Model.dae_residual_function, initial_residual_function, variable_metadata_function, delay_arguments_function (SX DAG -> z3)"]
    cov["bounds"] = ("enumerated models with loops (<=3 iterations; thorough <=4 and stepped ranges) incl. scaled/reversed/non-affine loop subscripts "
                     "on vectors, fixed rows/columns and row slices of matrices, function for-statements with mutually dependent statements, "
                     "the same function called at several places on different elements/slices/rows/components (also in initial equations, "
                     "if-branches, next to a loop), whole-matrix equations between equally shaped (square / non-square) matrices incl. transposes, matrix "
                     "products, slices, matrix-valued functions, rows/columns of square matrices inside loops, functions with an if-statement "
                     "(or/and/not conditions whose 0/1 encoding exceeds 1, elseif chains, several targets, nested, Boolean locals and arguments; "
                     "inlined and not inlined), if-equations, delays; "
                     f"variable attributes (min/max/start/nominal of states, algebraic variables, inputs, arrays with each; value of a parameter) given by "
                     f"calls of user functions ({len(ATTR_FUNS)} bodies: piecewise linear via max/min/abs/if-expression/if-statement/for-statement, affine and "
                     f"bilinear controls; {len(ATTR_POSITIONS)} attribute positions; quick: every body at one position, one body at every position and a diagonal; "
                     "thorough: full cross); function for-statements that subscript vectors / matrix rows with the loop variable over ranges "
                     f"{FUN_RANGE_RANGES[args.tier]} ({len(FUN_RANGE_BODIES)} bodies incl. Horner, offset and mirrored subscripts, two arrays, two dependent "
                     f"statements; called plainly, inside a for-equation, in an initial equation, twice); sums/differences/products/max of conditional terms "
                     f"with a zero branch ({len(GUARD_FORMS)} forms: unrelated / complementary / equal conditions, zero then- or else-branch, nested, elseif) as "
                     "equation, in a for-equation, initial equation, function body, with function-call terms; "
                     "all 8 configurations; all inputs unbounded reals. "
                     f"Other compiler options held fixed while the three are toggled: defaults for every model; expand_vectors=True for {cov.get('programs@ev', 0)} models "
                     "(all guarded-sum models, one equation per operator of the C11 operator list, representatives of every other family, the repo models)"
                     + (f"; thorough only: each of {sorted(_SIMP)} (detect_aliases, replace_*_expressions, eliminate_constant_assignments, replace_*_values, "
                        "resolve_parameter_values, factor_and_simplify_equations, reduce_affine_expression) alone and together with expand_vectors on the "
                        "representatives, the repo models and models with array-literal constants/parameters, dependent parameter values, constant "
                        "assignments and alias chains" if args.tier == "thorough" else
                        f"; one representative each of the thorough tier's further option sets: {list(BASES_QUICK_REPRESENTATIVES)}") + ". "
                     f"Edit scripts: {len(SCRIPTS) + (len(SCRIPTS_THOROUGH) if args.tier == 'thorough' else 0)} read/edit/read sequences over the public Model API "
                     f"(ops {sorted(OPS)}) on {len({e[0] for e in eitems})} models, every configuration driven through the same script and "
                     "compared with configuration 0 at every read point")
    rep.assumptions += ["CasADi Function.expand() is trusted (expand_mx itself calls it)", "real arithmetic; elementary functions uninterpreted; divisors non-zero",
                        "NaN/inf attribute defaults are compared as opaque constants",
                        "under the thorough-tier simplification option sets attribute values are compared as numbers (1 == 1.0, a symbol-free MX by its "
                        "value); under the default options and expand_vectors they are compared by repr as before"]
    if cov.get("configurations", 0) == 0:
        rep.harness_error("no configuration compared")
    if cov.get("edit_script_configurations", 0) == 0:
        rep.harness_error("no edit script compared")
    return rep.finish()


if __name__ == "__main__":
    sys.exit(main())
