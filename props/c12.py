"""C12 - representation-only options (unroll_loops, inline_functions, expand_mx) do not change
the model's meaning (Engine B).

Real code: generate + Model.simplify under each of the 8 configurations; the four output
Functions of every configuration are expanded to SX, translated to z3 and proved equal to those
of configuration 0 for ALL inputs; variable lists / order / python types / non-symbolic attribute
values are compared concretely.
"""
import itertools
import sys
import traceback

import casadi as ca

from vk.paths import REPO
from vk import families
from vk.report import Collector, EncodingGap, Report, run_parallel, std_args
from vk.smt import modelio, pipeline

PROP = "C12"
CONFIGS = [dict(unroll_loops=u, inline_functions=i, expand_mx=e)
           for u, i, e in itertools.product([True, False], repeat=3)]

DELAY = """model M
  Real x(start = 1);
  Real y;
  Real v[2];
  Real w[2];
  input Real u;
  parameter Real d = 0.5;
equation
  der(x) = -x + delay(y, d);
  y = 2 * x + u;
  for i in 1:2 loop
    w[i] = 3 * d * u;
    v[i] = delay(2 * w[i] * d, d * 2);
  end for;
end M;
"""
ATTR = """function f
  input Real x;
  output Real y;
algorithm
  y := x * x + 1;
end f;
model M
  parameter Real p = 2;
  parameter Real q = 3 * p;
  Real x(start = p, min = -q, max = f(p), nominal = 2 * p + 1);
  Real w[2](each start = q);
equation
  der(x) = f(x) - p;
  for i in 1:2 loop
    w[i] = f(x * i) + q;
  end for;
end M;
"""


def describe(model):
    d = {}
    for cat in ["states", "der_states", "alg_states", "inputs", "constants", "parameters"]:
        d[cat] = [(v.symbol.name(), tuple(v.symbol.shape), v.python_type.__name__,
                   tuple(sorted(getattr(v, "prefixes", []) or [])))
                  for v in getattr(model, cat)]
        d[cat + ":attrs"] = []
        for v in getattr(model, cat):
            row = []
            for a in ["value", "start", "min", "max", "nominal", "fixed"]:
                x = getattr(v, a)
                row.append("<MX>" if isinstance(x, ca.MX) and not x.is_constant() else repr(
                    ca.DM(x) if isinstance(x, ca.MX) else x))
            d[cat + ":attrs"].append(row)
    d["outputs"] = list(model.outputs)
    d["delay_states"] = list(model.delay_states)
    return d


def build(text, cls, cfg):
    m = pipeline.real_generate(text, cls, cfg)
    m.simplify(cfg)
    return m


def work(item):
    cid, text, cls = item
    col = Collector()
    try:
        try:
            base = build(text, cls, CONFIGS[0])
        except Exception as e:
            col.append("unsupported_models", f"{cid}: {type(e).__name__}")
            return col
        d0 = describe(base)
        names = modelio.model_in_names(base)
        pnames = [names[6]]
        fns0 = {
            "dae_residual": (base.dae_residual_function, names),
            "initial_residual": (base.initial_residual_function, names),
            "variable_metadata": (base.variable_metadata_function, pnames),
            "delay_arguments": (base.delay_arguments_function, names),
        }
        for cfg in CONFIGS[1:]:
            tag = "u%di%de%d" % (cfg["unroll_loops"], cfg["inline_functions"], cfg["expand_mx"])
            case = f"{cid}:{tag}"
            try:
                m = build(text, cls, cfg)
            except Exception as e:
                col.violation(case + ":raises", f"configuration {cfg} raises {type(e).__name__}: {str(e)[:100]} but the default configuration compiles",
                              {"model_text": text, "options": cfg})
                continue
            d1 = describe(m)
            if d1 != d0:
                diff = [k for k in d0 if d0[k] != d1.get(k)]
                col.violation(case + ":variables", f"variable lists/metadata differ in {diff}",
                              {"model_text": text, "options": cfg, "base": {k: d0[k] for k in diff}, "other": {k: d1[k] for k in diff}})
                continue
            for fname, (f0, nm) in fns0.items():
                f1 = getattr(m, fname + "_function")
                try:
                    n = pipeline.compare_functions(col, f0, f1, nm, case, text, fname, extra={"options": cfg})
                    col.bump("function_elements_compared", n)
                except EncodingGap as g:
                    col.append("encoding_gaps", f"{case}:{fname}: {g}")
            col.bump("configurations", 1)
        col.bump("programs", 1)
        col.sample({"model": cid, "configs": 8})
    except Exception:
        col.harness_error(f"{cid}: " + traceback.format_exc()[-1500:])
    return col


def main():
    args = std_args(PROP)
    rep = Report(PROP, args.tier, "translation_validation", args.seed)
    items = [m for m in families.structured_models(args.tier)
             if m[0].startswith(("for-", "fun-", "ifeq", "init", "vec-", "mat-", "der-"))]
    items += [("delay", DELAY, "M"), ("attr-fun", ATTR, "M")]
    for name, cls in families.REPO_MODELS:
        if name in ("ForLoop", "FunctionCall", "DoubleFunctionCall", "IfElse", "Spring", "Aircraft", "Estimator", "ArrayExpressions", "MatrixExpressions"):
            items.append((f"repo:{name}", open(REPO + f"/test/models/{name}.mo").read(), cls))
    if args.tier == "thorough":
        ex = families.scalar_exprs("quick")
        items += [(f"scalar{i}", families.batch_model(ex[i:i + 12]), "M") for i in range(0, len(ex), 12)]
    for col in run_parallel(work, items, args.jobs):
        rep.merge(col)
    cov = rep.coverage
    cov["disagreements_checked"] = rep.queries.get("sat", 0)
    cov["functions_encoded"] = ["casadi.generator.generate + Model.simplify under 8 option sets",
                                "Model.dae_residual_function, initial_residual_function, variable_metadata_function, delay_arguments_function (SX DAG -> z3)"]
    cov["bounds"] = "enumerated models with loops (<=3 iterations), function calls, if-equations, delays; all 8 configurations; all inputs unbounded reals"
    rep.assumptions += ["CasADi Function.expand() is trusted (expand_mx itself calls it)", "real arithmetic; elementary functions uninterpreted; divisors non-zero",
                        "NaN/inf attribute defaults are compared as opaque constants"]
    if cov.get("configurations", 0) == 0:
        rep.harness_error("no configuration compared")
    return rep.finish()


if __name__ == "__main__":
    sys.exit(main())
