"""C03 - parsed expressions follow Modelica precedence and literal values (Engine B).

Real code: parser._parse (lexer, generated parser, ASTListener expression handlers), executed
concretely on enumerated texts.  For every expression tree T (depth <= 2 over every operator class;
thorough: depth 3 on representatives) the text print(T) is produced three ways (minimal parentheses
per the Modelica specification grammar, fully parenthesised, redundant parentheses).  The value-level
claim is decided by z3: for ALL values of the variables, meaning(parsed right-hand side) ==
meaning(T).  Literals are compared concretely with their exact values.

Third round (families added in this file, the exprgen printer stays the specification):
  * every text: the literal leaves of the parsed node, left to right, must have exactly the type and
    value of the literal leaves of T (Integer / Real / Boolean are distinct even when equal in value);
  * spacing variants of the same token sequence (no blanks; blanks, newlines and comments between all
    tokens) and the `elseif` spelling of nested if-expressions;
  * the expression in other syntactic positions than an equation right-hand side (initial equation,
    left-hand side, algorithm assignment, declaration binding, start modification, if-equation
    condition);
  * signed powers in context, literal forms as operands, both Boolean literals, argument order of
    asymmetric builtin calls, elseif chains;
  * several literals of equal value and different type in ONE source text (equation / declaration /
    second class), strings with escape sequences at every position, range expressions whose bounds
    are expressions.
"""
import re
import sys
import traceback

import z3

from pymoca import ast, parser
from vk import exprgen
from vk.exprgen import And, Bn, Bool, Call, If, N, Not, Or, Rel, Un, V
from vk.report import Collector, EncodingGap, Report, run_parallel, std_args
from vk.smt import equiv, ops, pipeline
from vk.smt.ast2z3 import Ref

PROP = "C03"
RV, BV = ["a", "b", "c", "d", "e", "f"], ["p", "q", "r", "s"]
BATCH = 60
BASE_MODES = ("min", "full", "redundant")
PLACES = ("initial", "lhs", "alg", "binding", "start", "ifcond")


# ---- texts ------------------------------------------------------------------------------------
TOKEN = re.compile(r"\d+(?:\.\d*)?(?:[eE][+-]?\d+)?|[A-Za-z_]\w*|\.[-+*/^]|<=|>=|<>|==|[-+*/^<>(),]")
WIDE_SEPS = ["  ", "\n      ", " /* c */ ", " // c\n      ", "\t", " /* a + b */ "]


def tokens(s):
    toks = TOKEN.findall(s)
    if "".join(toks) != "".join(s.split()):
        raise ValueError(f"tokeniser does not cover {s!r}")
    return toks


def respace(s, style):
    """Same token sequence, other white space.  tight: no blank unless two word-like tokens would
    fuse, or a number would fuse with the dot of an element-wise operator (`2 .* a` is not `2.*a`).
    wide: blanks, newlines, block and line comments between all tokens."""
    toks = tokens(s)
    out = [toks[0]]
    for k, (prev, tok) in enumerate(zip(toks, toks[1:])):
        if style == "wide":
            out.append(WIDE_SEPS[k % len(WIDE_SEPS)])
        elif (prev[-1].isalnum() or prev[-1] == "_" or prev[0].isdigit()) and (tok[0].isalnum() or tok[0] == "_"):
            out.append(" ")
        elif prev[0].isdigit() and tok[0] == ".":
            out.append(" ")
        out.append(tok)
    return "".join(out)


def text_of(t, mode):
    if mode in BASE_MODES:
        return exprgen.pr(t, mode)
    if mode == "tight":
        return respace(exprgen.pr(t, "min"), "tight")
    if mode == "wide":
        return respace(exprgen.pr(t, "redundant"), "wide")
    if mode == "elseif":   # `else if ...` in the else branch has the same meaning as `elseif ...`
        return exprgen.pr(t, "min").replace(" else if ", " elseif ")
    raise ValueError(mode)


def label(t, mode, text):
    """Case identifier: the text itself for the printer's own modes, else mode + minimal text."""
    return f"{mode}:{text}" if mode in BASE_MODES else f"{mode}:{exprgen.pr(t, 'min')}"


def model_of(texts, kinds, place="eq"):
    ty = lambda k: "Real" if k == "R" else "Boolean"
    decl = "  Real " + ", ".join(RV) + ";\n  Boolean " + ", ".join(BV) + ";\n"
    if place == "binding":
        decl += "".join(f"  {ty(k)} y{i} = {t};\n" for i, (k, t) in enumerate(zip(kinds, texts)))
        return "model M\n" + decl + "end M;\n"
    if place == "start":
        decl += "".join(f"  {ty(k)} y{i}(start = {t});\n" for i, (k, t) in enumerate(zip(kinds, texts)))
        return "model M\n" + decl + "end M;\n"
    decl += "".join(f"  {ty(k)} y{i};\n" for i, k in enumerate(kinds))
    if place == "eq":
        body = "equation\n" + "".join(f"  y{i} = {t};\n" for i, t in enumerate(texts))
    elif place == "initial":
        body = "initial equation\n" + "".join(f"  y{i} = {t};\n" for i, t in enumerate(texts))
    elif place == "lhs":
        body = "equation\n" + "".join(f"  {t} = y{i};\n" for i, t in enumerate(texts))
    elif place == "alg":
        body = "algorithm\n" + "".join(f"  y{i} := {t};\n" for i, t in enumerate(texts))
    elif place == "ifcond":
        body = "equation\n" + "".join(f"  if {t} then\n    a = b;\n  else\n    a = c;\n  end if;\n" for t in texts)
    else:
        raise ValueError(place)
    return "model M\n" + decl + body + "end M;\n"


def modification(sym, name):
    for arg in sym.class_modification.arguments:
        if arg.value.component.name == name:
            return arg.value.modifications[0]
    raise KeyError(name)


def node_at(cls, place, i):
    if place == "eq":
        return cls.equations[i].right
    if place == "initial":
        return cls.initial_equations[i].right
    if place == "lhs":
        return cls.equations[i].left
    if place == "alg":
        return cls.statements[i].right
    if place == "binding":
        return modification(cls.symbols[f"y{i}"], "value")
    if place == "start":
        return modification(cls.symbols[f"y{i}"], "start")
    if place == "ifcond":
        return cls.equations[i].conditions[0]
    raise ValueError(place)


# ---- literal leaves ---------------------------------------------------------------------------
def lit_value(txt):
    """Exact Python value of a Modelica literal text."""
    if txt in ("true", "false"):
        return txt == "true"
    if txt.startswith('"'):
        return txt[1:-1]
    return int(txt) if re.fullmatch(r"[0-9]+", txt) else float(txt)


def tree_leaves(t, out=None):
    """Literal leaves of a specification tree in textual order."""
    out = [] if out is None else out
    k = t[0]
    if k == "num":
        out.append(lit_value(t[1]))
    elif k == "bool":
        out.append(bool(t[1]))
    elif k in ("bin", "rel"):
        tree_leaves(t[2], out), tree_leaves(t[3], out)
    elif k == "un":
        tree_leaves(t[2], out)
    elif k == "call":
        for a in t[2:]:
            tree_leaves(a, out)
    elif k != "var":   # not / and / or / if
        for a in t[1:]:
            tree_leaves(a, out)
    return out


def parsed_leaves(e, out=None):
    """Literal leaves (Primary values) of a parsed node in textual order."""
    out = [] if out is None else out
    if isinstance(e, ast.Primary):
        out.append(e.value)
    elif isinstance(e, ast.Expression):
        for o in e.operands:
            parsed_leaves(o, out)
    elif isinstance(e, ast.IfExpression):
        for c, x in zip(e.conditions, e.expressions):
            parsed_leaves(c, out), parsed_leaves(x, out)
        parsed_leaves(e.expressions[-1], out)
    elif isinstance(e, ast.Array):
        for v in e.values:
            parsed_leaves(v, out)
    elif isinstance(e, ast.Slice):
        parsed_leaves(e.start, out), parsed_leaves(e.step, out), parsed_leaves(e.stop, out)
    elif isinstance(e, list):
        for v in e:
            parsed_leaves(v, out)
    return out


def same_literals(got, want):
    return len(got) == len(want) and all(type(g) is type(w) and g == w and repr(g) == repr(w) for g, w in zip(got, want))


def show(vals):
    return "[" + ", ".join(f"{type(v).__name__} {v!r}" for v in vals) + "]"


# ---- the value-level check --------------------------------------------------------------------
def compare(col, case, node, t, env, ref, one_model, whole_text):
    """z3: meaning(parsed node) == meaning(t) for all values; concretely: same literal leaves."""
    ref.div = ops.Divisors()   # definedness assumption: only the divisors of THIS text, not of its neighbours
    try:
        got = ref.ev(node)
    except EncodingGap as g:
        col.violation(f"{case}:shape", f"parsed tree cannot be evaluated as an expression: {g}", {"model_text": one_model()})
        return
    want = exprgen.meaning(t, env, ref.div)
    if isinstance(got, list):
        col.violation(f"{case}:list", "parsed right-hand side is a list", {"model_text": one_model()})
        return
    gl, wl = parsed_leaves(node), tree_leaves(t)
    if not same_literals(gl, wl):
        col.violation(f"{case}:literals", f"literals of the text are {show(wl)} (type and exact value), the parsed tree holds {show(gl)}",
                      {"model_text": whole_text})   # the other literals of the same text may matter
    if got.get_id() == want.get_id():
        col.count("unsat")
        return
    r, m = equiv.check(col, ref.div.nonzero() + [got != want])
    if r == "unknown":   # a 10 s timeout on a loaded machine is not an answer: ask once more, with more time
        col.queries["unknown"] -= 1
        col.bump("queries_repeated_after_timeout")
        r, m = equiv.check(col, ref.div.nonzero() + [got != want], timeout_ms=90000)
    if r == "sat":
        pt = equiv.point_from_model(m, [got, want])
        conf = None
        for p in equiv.perturbations(pt, 0):
            try:
                gv = equiv.z3eval(got, pipeline._Default(p))
                wv = equiv.z3eval(want, pipeline._Default(p))
            except Exception:
                continue
            if not equiv.close(float(gv), float(wv)):
                conf = {"point": p, "parsed_value": gv, "modelica_value": wv}
                break
        if conf:
            col.violation(case, "the parsed tree evaluates differently from the value Modelica precedence gives the text",
                          {"model_text": one_model(), "detail": conf})
        else:
            col.note_inconclusive(f"{case} sat did not replay")
    elif r == "unknown":
        col.note_inconclusive(f"{case} unknown")


def check_batch(col, batch, place="eq"):
    """batch: list of (kind, tree, mode); every text of the batch is in the same source file."""
    texts = [text_of(t, mode) for _, t, mode in batch]
    if place == "lhs":   # the left-hand side is a simple_expression: an if-expression needs parentheses
        texts = ["(" + s + ")" if t[0] == "if" else s for s, (_, t, _) in zip(texts, batch)]
    kinds = [k for k, _, _ in batch]
    text = model_of(texts, kinds, place)
    tree = parser._parse(text)
    pfx = "" if place == "eq" else place + ":"
    if tree is None:
        if len(batch) == 1:
            col.violation(f"{pfx}{label(batch[0][1], batch[0][2], texts[0])}:syntax-error",
                          "a text valid in the Modelica grammar is rejected by the parser", {"model_text": text})
            return
        for b in batch:
            check_batch(col, [b], place)
        return
    cls = tree.classes["M"]
    ref = Ref(tree, "M")
    env = {n: z3.Real(n) for n in RV + BV}
    for i, (kind, t, mode) in enumerate(batch):
        col.bump("texts")
        col.bump("texts_" + (mode if place == "eq" else "place_" + place))
        case = pfx + label(t, mode, texts[i])
        one = lambda i=i, kind=kind: model_of([texts[i]], [kind], place)
        compare(col, case, node_at(cls, place, i), t, env, ref, one, text)


# ---- range expressions ------------------------------------------------------------------------
def range_cases(tier):
    """(start, step or None, stop): `start : step : stop`; the range operator binds looser than every
    operator of `expr`, so each part may be any non-if expression without parentheses."""
    one, two, a, b, c = N("1"), N("2"), V("a"), V("b"), V("c")
    parts = [one, N("7"), a, Un("-", one), Un("-", a), Bn("+", one, one), Bn("-", a, one), Bn("*", two, a), Bn("/", a, two),
             Bn("^", a, two), Un("-", Bn("^", a, two)), Bn("-", Bn("-", a, b), c), Bn("-", a, Bn("*", b, c)), Call("max", a, b),
             Rel("<", a, b), Or(V("p"), V("q")), And(V("p"), Not(V("q"))), N("1.5"), N("10")]
    out = [(one, two, N("7")), (two, None, N("5")), (N("7"), Un("-", two), one), (N("10"), None, N("12"))]
    n = len(parts)
    stride = 1 if tier == "thorough" else 3
    for i in range(n):
        out.append((parts[i], None, parts[(i + 5) % n]))
        out.append((parts[i], parts[(i + 7) % n], parts[(i + 11) % n]))
    if tier == "thorough":
        for i in range(n):
            for j in range(0, n, stride):
                out.append((parts[i], None, parts[j]))
                out.append((parts[j], parts[i], parts[(i + j) % n]))
    return out


def check_ranges(col, cases, mode, where):
    """where: for (for-index), sub (array subscript), rhs (equation right-hand side)."""
    def rng(c):
        return " : ".join(text_of(p, mode) for p in c if p is not None) if mode != "tight" else \
            ":".join(text_of(p, mode) for p in c if p is not None)
    rtexts = [rng(c) for c in cases]
    head = "model M\n  Real " + ", ".join(RV) + ";\n  Boolean " + ", ".join(BV) + ";\n  Real v[9], w[9];\nequation\n"
    if where == "for":
        body = "".join(f"  for i in {r} loop\n    v[i] = 0;\n  end for;\n" for r in rtexts)
    elif where == "sub":
        body = "".join(f"  v[{r}] = w;\n" for r in rtexts)
    else:
        body = "".join(f"  w = {r};\n" for r in rtexts)
    text = head + body + "end M;\n"
    tree = parser._parse(text)
    if tree is None:
        if len(cases) == 1:
            col.violation(f"range-{where}:{mode}:{rtexts[0]}:syntax-error", "a range expression valid in the Modelica grammar is rejected", {"model_text": text})
            return
        for c in cases:
            check_ranges(col, [c], mode, where)
        return
    cls = tree.classes["M"]
    ref = Ref(tree, "M")
    env = {n: z3.Real(n) for n in RV + BV}
    for i, c in enumerate(cases):
        col.bump("texts")
        col.bump("texts_range")
        eq = cls.equations[i]
        sl = eq.indices[0].expression if where == "for" else eq.left.indices[0][0] if where == "sub" else eq.right
        case = f"range-{where}:{mode}:{rtexts[i]}"
        if not isinstance(sl, ast.Slice):
            col.violation(case + ":shape", f"range expression parsed to {type(sl).__name__}, not a Slice", {"model_text": text})
            continue
        for part, node, t in (("start", sl.start, c[0]), ("step", sl.step, c[1] if c[1] is not None else N("1")), ("stop", sl.stop, c[2])):
            compare(col, f"{case}:{part}", node, t, env, ref, lambda: text, text)


# ---- families ---------------------------------------------------------------------------------
def extra_trees(tier):
    """Operator/literal classes the depth-2 enumeration of exprgen does not reach."""
    a, b, c, p, q = V("a"), V("b"), V("c"), V("p"), V("q")
    res = []
    # signed powers in context: the sign applies to the whole power (and to the whole first term)
    pairs = [(a, b), (a, N("2")), (N("2"), N("2")), (a, N("0.5")), (N("2"), a), (a, N("3"))]
    for sg in ("-", "+"):
        for pw in ("^", ".^"):
            for x, y in (pairs if pw == "^" else pairs[:2]):
                P = Bn(pw, x, y)
                S = Un(sg, P)
                res += [("R", S), ("R", Bn("+", S, c)), ("R", Bn("-", c, S)), ("R", Bn("*", S, c)), ("R", Bn("/", c, S)),
                        ("R", Un(sg, Bn("*", P, c))), ("R", Un(sg, Bn("*", c, P))), ("R", Un(sg, Bn("/", c, P))),
                        ("R", Bn(pw, Un(sg, x), y)), ("R", Bn(pw, x, Un(sg, y))), ("R", Bn("-", Un(sg, P), Bn(pw, c, y))),
                        ("B", Rel("<", S, c)), ("B", Rel(">=", c, S)), ("R", Call("sin", S)), ("R", If(Rel("<", S, c), S, c))]
    # literal forms as operands (lexing of exponents, trailing dots, long integers inside expressions)
    lits = ["0", "1", "10", "1234567890123", "9007199254740993", "1.0", "0.0", "1e3", "1E3", "2.5e-3", "1.5e+3", "12.", "1.e2", "0.5E1"]
    for L in lits:
        n = N(L)
        res += [("R", Bn("-", a, n)), ("R", Bn("-", n, a)), ("R", Bn("*", n, a)), ("R", Bn("/", a, n)), ("R", Un("-", n)),
                ("R", Bn("+", Un("-", n), a)), ("R", Bn(".*", n, a)), ("R", Bn(".-", a, n)), ("R", Bn("^", a, n)), ("R", Bn("^", n, a)),
                ("B", Rel("<=", n, a)), ("B", Rel("<>", a, n)), ("R", Call("max", n, a)), ("R", Bn("-", n, n))]
    # both Boolean literals in every Boolean position
    for v in (True, False):
        B = Bool(v)
        res += [("B", B), ("B", Not(B)), ("B", And(p, B)), ("B", And(B, p)), ("B", Or(B, p)), ("B", Or(p, B)), ("B", Or(And(p, B), q)),
                ("B", And(Not(B), q)), ("R", If(B, a, b)), ("B", If(p, B, Not(B))), ("B", Rel("==", p, B)), ("B", Rel("<>", B, q)),
                ("B", Not(Rel("==", B, q)))]
    # builtin calls: argument order of asymmetric functions, nesting, calls as operands
    res += [("R", Call("atan2", a, b)), ("R", Call("atan2", b, a)), ("R", Call("atan2", Bn("+", a, b), Bn("*", c, a))),
            ("R", Call("atan2", Call("atan2", a, b), c)), ("R", Call("atan2", a, Call("atan2", b, c))), ("R", Call("atan2", Un("-", a), N("2"))),
            ("R", Call("atan2", N("1"), N("2"))), ("R", Call("min", a, b)), ("R", Call("min", Bn("-", a, b), Un("-", c))),
            ("R", Call("max", a, Call("min", b, c))), ("R", Call("max", Call("min", a, b), c)), ("R", Call("abs", Bn("-", a, b))),
            ("R", Un("-", Call("abs", a))), ("R", Call("cos", Un("-", a))), ("R", Call("sqrt", Bn("+", a, N("1")))),
            ("R", Call("exp", Bn("*", Un("-", a), b))), ("R", Call("sin", Call("cos", a))), ("R", Bn("^", Call("sin", a), N("2"))),
            ("R", Un("-", Bn("^", Call("sin", a), N("2")))), ("R", Bn("*", N("2"), Call("atan2", a, b))), ("R", Bn("-", Call("log", a), Call("log", b))),
            ("R", Bn("/", Call("tan", a), Call("atan2", b, c))), ("B", Rel("<", Call("atan2", a, b), Call("atan2", b, a))),
            ("R", If(Rel(">", Call("atan2", a, b), c), Call("min", a, b), Call("max", a, b)))]
    # elseif chains and if-expressions nested in every branch
    c1, c2, c3 = Rel("<", a, b), And(p, Not(q)), Or(Rel(">=", b, c), p)
    res += [("R", If(c1, a, If(c2, b, c))), ("R", If(c1, a, If(c2, b, If(c3, c, V("d"))))), ("R", If(p, If(q, a, b), c)),
            ("R", If(p, If(q, a, b), If(V("r"), c, V("d")))), ("R", If(If(p, q, V("r")), a, b)), ("R", If(c3, Bn("-", a, b), If(c1, Un("-", a), Bn("^", b, N("2"))))),
            ("B", If(c1, p, If(c2, q, Not(p)))), ("R", If(Not(p), a, If(Not(q), b, If(Not(V("r")), c, If(Not(V("s")), V("d"), V("e")))))),
            ("R", Bn("+", If(p, a, If(q, b, c)), V("d"))), ("R", If(p, N("1"), If(q, N("2"), N("3")))), ("R", If(Bool(True), N("1.0"), If(Bool(False), N("1"), N("0"))))]
    if tier == "thorough":   # every ordered pair of operators around a signed operand / a literal
        for o1 in ["+", "-", "*", "/", "^", ".+", ".-", ".*", "./", ".^"]:
            for o2 in ["+", "-", "*", "/", "^"]:
                for L in ("2", "2.", "1e1", "a"):
                    x = V("a") if L == "a" else N(L)
                    res += [("R", Bn(o1, Bn(o2, x, b), c)), ("R", Bn(o1, c, Bn(o2, b, x))), ("R", Un("-", Bn(o1, Bn(o2, x, b), c)))]
    return res


NUM_POOL = ["0", "1", "2", "0.0", "1.0", "1e0", "2.0"]
NUM_SITES = [lambda n: ("R", Bn("+", V("a"), n)), lambda n: ("R", Bn("*", n, V("a"))), lambda n: ("R", n), lambda n: ("R", Un("-", n)),
             lambda n: ("R", Call("max", V("a"), n)), lambda n: ("R", If(Rel("<", V("a"), n), V("b"), n)), lambda n: ("B", Rel("==", V("a"), n))]
BOOL_SITES = [lambda x: ("B", x), lambda x: ("B", And(V("p"), x)), lambda x: ("B", Not(x)), lambda x: ("R", If(x, V("a"), V("b"))),
              lambda x: ("B", Or(x, V("q")))]


def literal_mixes(tier):
    """Batches (one source text each) holding several literals that are equal in value but differ in
    type - true / 1 / 1.0 / 1e0, false / 0 / 0.0 - in every order and at rotating sites."""
    pool = [("n", L) for L in NUM_POOL] + [("b", True), ("b", False)]

    def site(k, lit):
        kind, v = lit
        return NUM_SITES[k % len(NUM_SITES)](N(v)) if kind == "n" else BOOL_SITES[k % len(BOOL_SITES)](Bool(v))

    out = []
    k = 0
    for l1 in pool:
        for l2 in pool:
            reps = range(len(NUM_SITES)) if tier == "thorough" else range(1)
            for r in reps:
                k += 1
                out.append([site(k + r, l1) + ("min",), site(k + 3 + 2 * r, l2) + ("min",)])
    # all of them in one text, forwards and backwards, in three spellings
    for mode in ("min", "redundant", "tight"):
        for order in (pool, pool[::-1], pool[1::2] + pool[::2]):
            out.append([site(i, l) + (mode,) for i, l in enumerate(order)])
    return out


def work(item):
    col = Collector()
    try:
        what = item[0]
        if what == "exprs":
            _, place, batch = item
            check_batch(col, batch, place)
            col.sample({"text": text_of(batch[0][1], batch[0][2]), "mode": batch[0][2], "place": place}, 1)
        elif what == "mixes":
            for batch in item[1]:
                col.bump("literal_mix_texts")
                check_batch(col, batch)
        elif what == "ranges":
            _, mode, where, cases = item
            check_ranges(col, cases, mode, where)
    except Exception:
        col.harness_error(traceback.format_exc()[-1500:])
    return col


# ---- literals, concretely ---------------------------------------------------------------------
NUMBERS = ["0", "7", "42", "123456789012345678901234567890", "9007199254740993", "1.5", "0.1", "12.", "1.e2", "1e3", "1E3",
           "2.5e-3", "1.5e+3", "3.14159265358979323846", "1e308", "4.9e-324", "0.30000000000000004", "1e-400", "00012", "0.5E1",
           "179769313486231570000000000000000000000000000000000000000000000000000000000000000000000000000000000000000000000000000000000000000000000000000000000000000000000000000000000000000000000000000000000000000000000000000000000000000000000000000000000000000000000000000000000000000000000000000000000000000000000000000.0"]
NUMBERS2 = ["1", "10", "9", "1000000000", "2147483647", "2147483648", "4294967296", "9007199254740992", "9223372036854775807", "9223372036854775808",
            "18446744073709551616", "0.0", "1.0", "0e0", "1e0", "1e1", "1E+1", "1E-1", "1.E3", "1.0E+3", "0.1e1", "00.5", "1e22", "1e23",
            "5e-324", "2.2250738585072014e-308", "1.7976931348623157e308", "100000000000000000000.0", "9007199254740993.0", "0.1234567890123456789",
            "123456789.123456789", "1e+00", "1e-0", "0000", "000.000"]
STRINGS = ["abc", "", "a b c", "with , ; ( ) = punctuation", "unicode éü", "tab\there"]
ESCAPED = [('quote \\" inside', 'quote " inside'), ('back\\\\slash', 'back\\slash'), ('nl\\n', 'nl\n')]
STRINGS2 = [" ", "  lead", "trail  ", " both ", "x", "'single'", "// not a comment", "/* not a comment */", "end M;", "1", "1.0", "true", "false",
            "line one\nline two", "\nstarts with newline", "ends with newline\n", "a" * 300, "if x then y else z", "a = b; c := d", "{1, 2}", "abc"]
ESC_CHARS = ['\\"', "\\\\", "\\n", "\\t", "\\'", "\\?", "\\a", "\\b", "\\f", "\\r", "\\v"]
UNESC = {'"': '"', "\\": "\\", "n": "\n", "t": "\t", "'": "'", "?": "?", "a": "\a", "b": "\b", "f": "\f", "r": "\r", "v": "\v"}


def unescape(src):
    return re.sub(r"\\(.)", lambda m: UNESC[m.group(1)], src, flags=re.S)


def escaped_sources():
    """Escape sequences at every position of the literal (the delimiters are not part of it)."""
    out = []
    for e in ESC_CHARS:
        out += [e, e + "tail", "head" + e, "he" + e + "ad", e + e, e + "mid" + e, "x" + e + e, e + " ", " " + e]
    out += ['say \\"yes\\"', '\\"quoted\\" start', '\\\\\\"', '\\"\\\\', 'a\\\\', '\\\\\\\\', 'C:\\\\dir\\\\', '\\"\\"\\"', "mixed \\t\\n\\\\ \\\" end\\\""]
    return out


def string_contexts(srcs):
    n = len(srcs)
    decl = "".join(f"  String s{i};\n" for i in range(n))
    yield "rhs", "model M\n" + decl + "equation\n" + "".join(f'  s{i} = "{s}";\n' for i, s in enumerate(srcs)) + "end M;\n", \
        lambda cls, i: cls.equations[i].right
    yield "binding", "model M\n" + "".join(f'  parameter String s{i} = "{s}";\n' for i, s in enumerate(srcs)) + "end M;\n", \
        lambda cls, i: modification(cls.symbols[f"s{i}"], "value")
    yield "argument", "model M\n" + decl + "equation\n" + "".join(f'  s{i} = f(1, "{s}", true);\n' for i, s in enumerate(srcs)) + "end M;\n", \
        lambda cls, i: cls.equations[i].right.operands[1]


BACKSLASH_END = "string-then-string:escaped-backslash-before-closing-quote"


def string_texts(rep, ctx, items, case_of, fallback=True):
    """All literals of items [(source, exact value)] in ONE text of context ctx; each parsed value must
    be the exact value or, at worst, the raw source characters between the delimiters."""
    _, text, get = [c for c in string_contexts([s for s, _ in items]) if c[0] == ctx][0]
    t = parser._parse(text)
    if t is None and fallback and len(items) > 2:   # find the culprits: each one followed by a plain literal
        for it in items:
            string_texts(rep, ctx, [it, ("next", "next")], case_of)
        return
    rep.coverage["literals"] += len(items)
    for i, (src, want) in enumerate(items):
        if t is None:
            rep.violation(case_of(src) + ":syntax" * (not case_of(src).startswith(BACKSLASH_END)),
                          f"a text with the string literal \"{src[:60]}\" followed by {len(items) - 1 - i} more string literal(s) is rejected",
                          {"model_text": text})
            return
        node = get(t.classes["M"], i)
        v = getattr(node, "value", node)
        if type(v) is not str or (v != want and v != src):
            rep.violation(case_of(src), f"string literal \"{src[:60]}\" parsed to {v!r}; exact value {want!r} (raw text {src!r})",
                          {"model_text": text, "index": i})


def string_family(rep):
    """Plain and escaped string literals, many per source text, in three syntactic contexts.  The exact
    (unescaped) value is asserted on ESCAPED above (open finding: pymoca keeps the raw text); here the
    parsed value must be the exact value or, at worst, the raw characters between the delimiters -
    never anything else (truncated, stripped, merged with a neighbour), and the text must be accepted.
    Literals whose last character is an escaped backslash are known to swallow the closing quote when
    another quote follows in the text (open finding BACKSLASH_END): they are checked alone, and followed
    by a second literal under that one case identifier."""
    plain = [(s, s) for s in STRINGS + STRINGS2]
    esc = [(s, unescape(s)) for s in escaped_sources()]
    tail = [it for it in esc if it[1].endswith("\\")]
    esc = [it for it in esc if not it[1].endswith("\\")]
    for ctx in ("rhs", "binding", "argument"):
        case_of = lambda src, ctx=ctx: f"string-content:{ctx}:{src[:60]}"
        string_texts(rep, ctx, plain, case_of)
        string_texts(rep, ctx, esc, case_of)
        string_texts(rep, ctx, esc[::-1] + plain, case_of)
        for it in tail:
            string_texts(rep, ctx, [it], case_of)
            string_texts(rep, ctx, [it, ("next", "next")], lambda src: BACKSLASH_END if src != "next" else case_of(src), fallback=False)


def decl_literal_family(rep):
    """Literals of equal value and different type in one source text, at declaration sites as well as
    in equations, in both textual orders and across two classes of the same file."""
    pool = ["0", "1", "0.0", "1.0", "true", "false", '"1"']

    def ty(L):
        return "Boolean" if L in ("true", "false") else "String" if L.startswith('"') else "Real"

    layouts = {
        "binding-then-equation": lambda A, B: (f"model M\n  parameter {ty(A)} k = {A};\n  {ty(B)} x;\nequation\n  x = {B};\nend M;\n",
                                               lambda t: [modification(t.classes["M"].symbols["k"], "value"), t.classes["M"].equations[0].right]),
        "start-then-array": lambda A, B: (f"model M\n  {ty(A)} x(start = {A});\n  {ty(B)} v[2] = {{{B}, {B}}};\nend M;\n",
                                          lambda t: [modification(t.classes["M"].symbols["x"], "start"), modification(t.classes["M"].symbols["v"], "value")]),
        "equation-then-public-binding": lambda A, B: (f"model M\n  {ty(A)} x;\nequation\n  x = {A};\npublic\n  {ty(B)} k = {B};\nend M;\n",
                                                      lambda t: [t.classes["M"].equations[0].right, modification(t.classes["M"].symbols["k"], "value")]),
        "two-classes": lambda A, B: (f"model M\n  {ty(A)} x;\nequation\n  x = {A};\nend M;\nmodel N\n  {ty(B)} y = {B};\nend N;\n",
                                     lambda t: [t.classes["M"].equations[0].right, modification(t.classes["N"].symbols["y"], "value")]),
        "initial-equation-then-algorithm": lambda A, B: (f"model M\n  {ty(A)} x;\n  {ty(B)} y;\ninitial equation\n  x = {A};\nalgorithm\n  y := {B};\nend M;\n",
                                                         lambda t: [t.classes["M"].initial_equations[0].right, t.classes["M"].statements[0].right]),
    }
    for name, mk in layouts.items():
        for A in pool:
            for B in pool:
                text, get = mk(A, B)
                rep.coverage["literals"] += 1
                case = f"literal-sites:{name}:{A},{B}"
                t = parser._parse(text)
                if t is None:
                    rep.violation(case + ":syntax", "model with literals at declaration and equation sites rejected", {"model_text": text})
                    continue
                got = parsed_leaves(get(t))
                want = [lit_value(A)] + [lit_value(B)] * (2 if name == "start-then-array" else 1)
                if not same_literals(got, want):
                    rep.violation(case, f"literals of the text are {show(want)} (type and exact value), the parsed tree holds {show(got)}", {"model_text": text})


def literals(rep):
    for txt in NUMBERS + NUMBERS2:
        t = parser._parse(f"model M\n  Real x;\nequation\n  x = {txt};\nend M;\n")
        rep.coverage["literals"] = rep.coverage.get("literals", 0) + 1
        if t is None:
            rep.violation(f"number:{txt[:40]}:syntax", "number literal rejected", {"text": txt})
            continue
        v = t.classes["M"].equations[0].right.value
        want = int(txt) if re.fullmatch(r"[0-9]+", txt) else float(txt)
        if type(v) is not type(want) or v != want:
            rep.violation(f"number:{txt[:40]}", f"literal {txt[:40]} parsed to {v!r} ({type(v).__name__}), exact value {want!r}", {"text": txt})
    for b in ("true", "false"):
        t = parser._parse(f"model M\n  Boolean x;\nequation\n  x = {b};\nend M;\n")
        v = t.classes["M"].equations[0].right.value
        rep.coverage["literals"] += 1
        if v is not (b == "true"):
            rep.violation(f"bool:{b}", f"{b} parsed to {v!r}", {"text": b})
    for s in STRINGS:
        t = parser._parse(f'model M\n  String x;\nequation\n  x = "{s}";\nend M;\n')
        rep.coverage["literals"] += 1
        v = None if t is None else t.classes["M"].equations[0].right.value
        if v != s:
            rep.violation(f"string:{s}", f"string literal parsed to {v!r}", {"text": s})
    for src, want in ESCAPED:
        t = parser._parse(f'model M\n  String x;\nequation\n  x = "{src}";\nend M;\n')
        rep.coverage["literals"] += 1
        v = None if t is None else t.classes["M"].equations[0].right.value
        if v != want:
            rep.violation(f"string-escape:{src}", f"string literal with escape sequence parsed to {v!r}, exact value {want!r}", {"text": src})
    # all number literals in ONE source text (a literal must not depend on its neighbours)
    allnum = NUMBERS + NUMBERS2 + NUMBERS[::-1]
    t = parser._parse("model M\n  Real x;\nequation\n" + "".join(f"  x = {n};\n" for n in allnum) + "end M;\n")
    rep.coverage["literals"] += len(allnum)
    if t is None:
        rep.violation("number:all-in-one-text:syntax", "a model whose equations are the number literals of this check is rejected", {"texts": allnum})
    else:
        got = [e.right.value for e in t.classes["M"].equations]
        want = [lit_value(n) for n in allnum]
        for n, g, w in zip(allnum, got, want):
            if not same_literals([g], [w]):
                rep.violation(f"number-in-context:{n[:40]}", f"literal {n[:40]} parsed to {g!r} ({type(g).__name__}) when other literals share the text, exact value {w!r}", {"text": n})
    string_family(rep)
    decl_literal_family(rep)
    # range expressions a:b and a:b:c (start : step : stop in Modelica)
    t = parser._parse("model M\n  Real v[9];\nequation\n  for i in 1:2:7 loop\n    v[i] = 0;\n  end for;\n  for i in 2:5 loop\n    v[i] = 1;\n  end for;\nend M;\n")
    for k, (a, st, b) in enumerate([(1, 2, 7), (2, 1, 5)]):
        sl = t.classes["M"].equations[k].indices[0].expression
        got = (sl.start.value, sl.step.value, sl.stop.value)
        rep.coverage["literals"] += 1
        if got != (a, st, b):
            rep.violation(f"range:{a}:{st}:{b}", f"range expression start:step:stop = {a}:{st}:{b} parsed as start={got[0]}, step={got[1]}, stop={got[2]}", {"text": f"{a}:{st}:{b}"})


def chunks(items, n):
    return [items[i:i + n] for i in range(0, len(items), n)]


def main():
    args = std_args(PROP)
    rep = Report(PROP, args.tier, "translation_validation", args.seed)
    thorough = args.tier == "thorough"
    ts = exprgen.trees(args.tier)
    xs = extra_trees(args.tier)
    work_items = []
    items = [(k, t, mode) for k, t in ts for mode in BASE_MODES]
    work_items += [("exprs", "eq", b) for b in chunks(items, BATCH)]
    # spacing variants: a stride through the enumeration (prime to the 18 / 13 operand kinds, so every
    # operator pair is reached with varying operands)
    sp = ts[::5] if thorough else ts[::7]
    items = [(k, t, mode) for k, t in sp for mode in ("tight", "wide")]
    items += [(k, t, mode) for k, t in xs for mode in ("min", "redundant", "tight") + (("full", "wide") if thorough else ())]
    items += [(k, t, "elseif") for k, t in ts + xs if " else if " in exprgen.pr(t, "min")]
    work_items += [("exprs", "eq", b) for b in chunks(items, BATCH)]
    # the same expressions in other syntactic positions
    for n, place in enumerate(PLACES):
        sel = ts[n::11 if thorough else 23] + xs[n::1 if thorough else 5]
        items = [(k, t, "min") for k, t in sel if place != "ifcond" or k == "B"]
        work_items += [("exprs", place, b) for b in chunks(items, BATCH)]
    work_items += [("mixes", g) for g in chunks(literal_mixes(args.tier), 12)]
    rc = range_cases(args.tier)
    for mode, where in (("min", "for"), ("redundant", "sub"), ("tight", "rhs")) + ((("min", "sub"), ("wide", "for"), ("full", "rhs")) if thorough else ()):
        work_items += [("ranges", mode, where, c) for c in chunks(rc, 30)]
    for col in run_parallel(work, work_items, args.jobs):
        rep.merge(col)
    literals(rep)
    # canary: the printer must distinguish (a - b) - c from a - (b - c)
    c = Collector()
    env = {n: z3.Real(n) for n in RV}
    d = ops.Divisors()
    t1 = exprgen.Bn("-", exprgen.Bn("-", exprgen.V("a"), exprgen.V("b")), exprgen.V("c"))
    t2 = exprgen.Bn("-", exprgen.V("a"), exprgen.Bn("-", exprgen.V("b"), exprgen.V("c")))
    r, _ = equiv.check(c, [exprgen.meaning(t1, env, d) != exprgen.meaning(t2, env, d)])
    ok = r == "sat" and exprgen.pr(t1) == "a - b - c" and exprgen.pr(t2) == "a - (b - c)"
    # ... the spacing variants keep the token sequence, and the literal comparison separates 1 / 1.0 / true
    ok = ok and respace("a - 2 .* b <= -c", "tight") == "a-2 .*b<=-c" and \
        tokens(re.sub(r"/\*.*?\*/|//[^\n]*", " ", respace("not (a - 1e-3) < b", "wide"))) == tokens("not(a-1e-3)<b")
    ok = ok and not same_literals([1], [True]) and not same_literals([1], [1.0]) and same_literals([1, 2.0, False], [1, 2.0, False])
    ok = ok and tree_leaves(If(Bool(True), N("1"), Bn("+", N("1.0"), N("2")))) == [True, 1, 1.0, 2]
    rep.coverage["canary_detected"] = ok
    if not ok:
        rep.harness_error("canary failed")
    cov = rep.coverage
    cov["programs"] = cov.get("texts", 0)
    cov["disagreements_checked"] = rep.queries.get("sat", 0)
    cov["functions_encoded"] = ["parser._parse + ASTListener expression handlers (executed); parsed ast.Expression trees -> z3 (ast2z3)"]
    cov["bounds"] = ("expression trees of depth <= 2 over + - * / ^ and element-wise forms, unary +/-, six relations, not/and/or, if-then-else, sin/max "
                     "(thorough: depth 3 on representatives), three parenthesisations; plus signed powers in 15 contexts, 14 number-literal forms and both Boolean "
                     "literals as operands, atan2/min/abs/nested calls, elseif chains (both spellings); spacing variants (no blanks / blanks, newlines and "
                     "comments between all tokens) on every 7th tree (thorough: 5th), the added trees without blanks (thorough: also wide and fully parenthesised); the expression as initial-equation rhs, equation lhs, algorithm rhs, "
                     "declaration binding, start modification and if-equation condition, each on every 23rd tree (thorough: 11th); range expressions "
                     "start:stop / start:step:stop whose parts are expressions, as for-index, subscript and rhs; every text also has its literal leaves compared "
                     "by type and exact value; literal mixes: ordered pairs and full sequences of 0/1/2/0.0/1.0/1e0/2.0/true/false in one source text, "
                     "also at declaration sites, in a second class and after the equation section; 21+35 number texts alone and all in one text; plain and "
                     "escaped strings (11 escape sequences x 9 positions) as rhs, binding and call argument; variable values unbounded reals")
    rep.assumptions += ["the text -> parse tree step is executed, not encoded", "pow and sin are uninterpreted; divisors non-zero; Booleans as 0/1 with and=product, or=sum",
                        "for strings with escape sequences outside the three `string-escape:` cases the raw text between the delimiters is accepted besides the exact value "
                        "(the raw storage is the open finding string-escape:*)"]
    return rep.finish()


if __name__ == "__main__":
    sys.exit(main())
