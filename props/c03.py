"""C03 - parsed expressions follow Modelica precedence and literal values (Engine B).

Real code: parser._parse (lexer, generated parser, ASTListener expression handlers), executed
concretely on enumerated texts.  For every expression tree T (depth <= 2 over every operator class;
thorough: depth 3 on representatives) the text print(T) is produced three ways (minimal parentheses
per the Modelica specification grammar, fully parenthesised, redundant parentheses).  The value-level
claim is decided by z3: for ALL values of the variables, meaning(parsed right-hand side) ==
meaning(T).  Literals are compared concretely with their exact values.
"""
import sys
import traceback

import z3

from pymoca import ast, parser
from vk import exprgen
from vk.report import Collector, EncodingGap, Report, run_parallel, std_args
from vk.smt import equiv, ops, pipeline
from vk.smt.ast2z3 import Ref

PROP = "C03"
RV, BV = ["a", "b", "c", "d", "e", "f"], ["p", "q", "r", "s"]
BATCH = 60


def model_of(texts, kinds):
    decl = "  Real " + ", ".join(RV) + ";\n  Boolean " + ", ".join(BV) + ";\n"
    decl += "".join(f"  {'Real' if k == 'R' else 'Boolean'} y{i};\n" for i, k in enumerate(kinds))
    eqs = "".join(f"  y{i} = {t};\n" for i, t in enumerate(texts))
    return "model M\n" + decl + "equation\n" + eqs + "end M;\n"


def check_batch(col, batch):
    """batch: list of (kind, tree, mode)."""
    texts = [exprgen.pr(t, mode) for _, t, mode in batch]
    kinds = [k for k, _, _ in batch]
    text = model_of(texts, kinds)
    tree = parser._parse(text)
    if tree is None:
        if len(batch) == 1:
            col.violation(f"{batch[0][2]}:{texts[0]}:syntax-error", "a text valid in the Modelica grammar is rejected by the parser",
                          {"model_text": text})
            return
        for b in batch:
            check_batch(col, [b])
        return
    cls = tree.classes["M"]
    ref = Ref(tree, "M")
    env = {n: z3.Real(n) for n in RV + BV}
    for i, (kind, t, mode) in enumerate(batch):
        eq = cls.equations[i]
        col.bump("texts")
        try:
            got = ref.ev(eq.right)
        except EncodingGap as g:
            col.violation(f"{mode}:{texts[i]}:shape", f"parsed tree cannot be evaluated as an expression: {g}", {"model_text": model_of([texts[i]], [kind])})
            continue
        want = exprgen.meaning(t, env, ref.div)
        if isinstance(got, list):
            col.violation(f"{mode}:{texts[i]}:list", "parsed right-hand side is a list", {"text": texts[i]})
            continue
        if got.get_id() == want.get_id():
            col.count("unsat")
            continue
        r, m = equiv.check(col, ref.div.nonzero() + [got != want])
        if r == "sat":
            pt = equiv.point_from_model(m, [got, want])
            conf = None
            for p in equiv.perturbations(pt, 0):
                try:
                    gv = equiv.z3eval(got, pipeline._Default(p))
                    wv = equiv.z3eval(want, pipeline._Default(p))
                except Exception:
                    continue
                if not equiv.close(float(gv), float(wv)):
                    conf = {"point": p, "parsed_value": gv, "modelica_value": wv}
                    break
            if conf:
                col.violation(f"{mode}:{texts[i]}", "the parsed tree evaluates differently from the value Modelica precedence gives the text",
                              {"text": texts[i], "model_text": model_of([texts[i]], [kind]), "detail": conf})
            else:
                col.note_inconclusive(f"{mode}:{texts[i]} sat did not replay")
        elif r == "unknown":
            col.note_inconclusive(f"{mode}:{texts[i]} unknown")


def work(batch):
    col = Collector()
    try:
        check_batch(col, batch)
        col.sample({"text": exprgen.pr(batch[0][1], batch[0][2]), "mode": batch[0][2]}, 1)
    except Exception:
        col.harness_error(traceback.format_exc()[-1500:])
    return col


NUMBERS = ["0", "7", "42", "123456789012345678901234567890", "9007199254740993", "1.5", "0.1", "12.", "1.e2", "1e3", "1E3",
           "2.5e-3", "1.5e+3", "3.14159265358979323846", "1e308", "4.9e-324", "0.30000000000000004", "1e-400", "00012", "0.5E1",
           "179769313486231570000000000000000000000000000000000000000000000000000000000000000000000000000000000000000000000000000000000000000000000000000000000000000000000000000000000000000000000000000000000000000000000000000000000000000000000000000000000000000000000000000000000000000000000000000000000000000000000000000.0"]
STRINGS = ["abc", "", "a b c", "with , ; ( ) = punctuation", "unicode éü", "tab\there"]
ESCAPED = [('quote \\" inside', 'quote " inside'), ('back\\\\slash', 'back\\slash'), ('nl\\n', 'nl\n')]


def literals(rep):
    import re
    for txt in NUMBERS:
        t = parser._parse(f"model M\n  Real x;\nequation\n  x = {txt};\nend M;\n")
        rep.coverage["literals"] = rep.coverage.get("literals", 0) + 1
        if t is None:
            rep.violation(f"number:{txt[:40]}:syntax", "number literal rejected", {"text": txt})
            continue
        v = t.classes["M"].equations[0].right.value
        want = int(txt) if re.fullmatch(r"[0-9]+", txt) else float(txt)
        if type(v) is not type(want) or v != want:
            rep.violation(f"number:{txt[:40]}", f"literal {txt[:40]} parsed to {v!r} ({type(v).__name__}), exact value {want!r}", {"text": txt})
    for b in ("true", "false"):
        t = parser._parse(f"model M\n  Boolean x;\nequation\n  x = {b};\nend M;\n")
        v = t.classes["M"].equations[0].right.value
        rep.coverage["literals"] += 1
        if v is not (b == "true"):
            rep.violation(f"bool:{b}", f"{b} parsed to {v!r}", {"text": b})
    for s in STRINGS:
        t = parser._parse(f'model M\n  String x;\nequation\n  x = "{s}";\nend M;\n')
        rep.coverage["literals"] += 1
        v = None if t is None else t.classes["M"].equations[0].right.value
        if v != s:
            rep.violation(f"string:{s}", f"string literal parsed to {v!r}", {"text": s})
    for src, want in ESCAPED:
        t = parser._parse(f'model M\n  String x;\nequation\n  x = "{src}";\nend M;\n')
        rep.coverage["literals"] += 1
        v = None if t is None else t.classes["M"].equations[0].right.value
        if v != want:
            rep.violation(f"string-escape:{src}", f"string literal with escape sequence parsed to {v!r}, exact value {want!r}", {"text": src})
    # range expressions a:b and a:b:c (start : step : stop in Modelica)
    t = parser._parse("model M\n  Real v[9];\nequation\n  for i in 1:2:7 loop\n    v[i] = 0;\n  end for;\n  for i in 2:5 loop\n    v[i] = 1;\n  end for;\nend M;\n")
    for k, (a, st, b) in enumerate([(1, 2, 7), (2, 1, 5)]):
        sl = t.classes["M"].equations[k].indices[0].expression
        got = (sl.start.value, sl.step.value, sl.stop.value)
        rep.coverage["literals"] += 1
        if got != (a, st, b):
            rep.violation(f"range:{a}:{st}:{b}", f"range expression start:step:stop = {a}:{st}:{b} parsed as start={got[0]}, step={got[1]}, stop={got[2]}", {"text": f"{a}:{st}:{b}"})


def main():
    args = std_args(PROP)
    rep = Report(PROP, args.tier, "translation_validation", args.seed)
    ts = exprgen.trees(args.tier)
    items = [(k, t, mode) for k, t in ts for mode in ("min", "full", "redundant")]
    batches = [items[i:i + BATCH] for i in range(0, len(items), BATCH)]
    for col in run_parallel(work, batches, args.jobs):
        rep.merge(col)
    literals(rep)
    # canary: the printer must distinguish (a - b) - c from a - (b - c)
    c = Collector()
    env = {n: z3.Real(n) for n in RV}
    d = ops.Divisors()
    t1 = exprgen.Bn("-", exprgen.Bn("-", exprgen.V("a"), exprgen.V("b")), exprgen.V("c"))
    t2 = exprgen.Bn("-", exprgen.V("a"), exprgen.Bn("-", exprgen.V("b"), exprgen.V("c")))
    r, _ = equiv.check(c, [exprgen.meaning(t1, env, d) != exprgen.meaning(t2, env, d)])
    ok = r == "sat" and exprgen.pr(t1) == "a - b - c" and exprgen.pr(t2) == "a - (b - c)"
    rep.coverage["canary_detected"] = ok
    if not ok:
        rep.harness_error("canary failed")
    cov = rep.coverage
    cov["programs"] = cov.get("texts", 0)
    cov["disagreements_checked"] = rep.queries.get("sat", 0)
    cov["functions_encoded"] = ["parser._parse + ASTListener expression handlers (executed); parsed ast.Expression trees -> z3 (ast2z3)"]
    cov["bounds"] = "expression trees of depth <= 2 over + - * / ^ and element-wise forms, unary +/-, six relations, not/and/or, if-then-else, sin/max (thorough: depth 3 on representatives), three parenthesisations; variable values unbounded reals"
    rep.assumptions += ["the text -> parse tree step is executed, not encoded", "pow and sin are uninterpreted; divisors non-zero; Booleans as 0/1 with and=product, or=sum"]
    return rep.finish()


if __name__ == "__main__":
    sys.exit(main())
