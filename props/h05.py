"""CrossHair harness for C05: a symbolic sequence of flatten / generate requests on ONE parsed tree; every
step must equal the same request on a fresh tree."""
from pymoca.backends.casadi import generator
from props.hflat import LIBS, inst, flat, same, J
from vk import chstubs
from vk.chstubs import pin, PIN

chstubs.install_casadi_realizers()
chstubs.silence(generator)

LIB = PIN.get("lib", "comp")
NAMES = LIBS[LIB][1]
N = len(NAMES)
from props.hflat import tpl
tpl(LIB)  # parse the template at import time: ANTLR must never run under tracing


def gen(t, name):
    try:
        m = generator.generate(t, name, {})
    except Exception as e:
        return ("raise", type(e).__name__)
    sig = []
    for cat in ("states", "der_states", "alg_states", "inputs", "parameters", "constants"):
        sig.append([v.symbol.name() for v in getattr(m, cat)])
    return ("ok", (sig, [str(e) for e in m.equations], [str(e) for e in m.initial_equations]))


def request(t, kind, k):
    name = NAMES[k]
    return gen(t, name) if kind == 1 else flat(t, name)


def seq2(k1: int, k2: int, v1: int, v2: int, v3: int, v4: int) -> int:
    """
    pre: 0 <= k1 < N and 0 <= k2 < N and pin(k1=k1)
    post: _ == 1
    """
    vals = [v1, v2, v3, v4]
    t = inst(LIB, vals)
    for k in (k1, k2):
        if not same(request(t, 0, k), request(inst(LIB, vals), 0, k)):
            return 0
    return 1


def seq3(g1: int, k1: int, g2: int, k2: int, g3: int, k3: int, v1: int, v2: int, v3: int, v4: int) -> int:
    """
    pre: 0 <= k1 < N and 0 <= k2 < N and 0 <= k3 < N and pin(k1=k1, g1=g1) and 0 <= g1 <= 1 and 0 <= g2 <= 1 and 0 <= g3 <= 1
    post: _ == 1
    """
    vals = [v1, v2, v3, v4]
    t = inst(LIB, vals)
    for g, k in ((g1, k1), (g2, k2), (g3, k3)):
        if not same(request(t, g, k), request(inst(LIB, vals), g, k)):
            return 0
    return 1


def reach_seq2(k1: int, k2: int, v1: int, v2: int, v3: int, v4: int) -> int:
    """
    pre: 0 <= k1 < N and 0 <= k2 < N and pin(k1=k1)
    post: _ == 0
    """
    return seq2(k1, k2, v1, v2, v3, v4)
