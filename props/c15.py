"""C15 - simplification keeps regular systems square and self-contained (Engine A, CrossHair).

Real code: generate + Model.simplify/_simplify_once + construction of dae_residual_function and
initial_residual_function.  Symbolic: the Boolean simplification options (6 in quick, 9 in thorough);
enumerated: the square, uniquely solvable model family of C14 (vk/simpfam.py).  Assertion: unknowns minus
residual rows is unchanged by simplify(), simplify() does not raise, and both residual Functions can be
constructed (CasADi refuses free variables, so a reference to an eliminated variable surfaces here)."""
import os
import re
import sys

from vk import chx
from vk.report import Report, std_args

PROP = "C15"
HARNESS = os.path.join(os.path.dirname(os.path.abspath(__file__)), "h15.py")
WHY = {0: "simplify() raised", 2: "a residual Function of the simplified model cannot be constructed (free variable / dangling reference)",
       3: "unknowns minus equations changed"}


def _regular(m):
    """Balanced and structurally/numerically nonsingular in (der_states, alg_states) at a generic point."""
    import casadi as ca
    import numpy as np
    unk = [v.symbol for v in list(m.der_states) + list(m.alg_states)]
    n = sum(u.numel() for u in unk)
    f = m.dae_residual_function
    rows = sum(f.numel_out(k) for k in range(f.n_out()))
    if n != rows or n == 0:
        return False
    eqs = ca.veccat(*m.equations)
    J = ca.jacobian(eqs, ca.veccat(*unk))
    allsyms = ca.symvar(ca.veccat(eqs, ca.vec(J)))
    F = ca.Function("J", allsyms, [J])
    rng = np.random.RandomState(7)
    vals = [rng.uniform(0.5, 1.5, size=s.shape) for s in allsyms]
    Jv = np.array(F(*vals))
    return np.linalg.matrix_rank(Jv, tol=1e-9) == n


def ext_work(item):
    """Concrete stage over the extended C14 families (alias links/cycles, equation orientations, bad scaling)."""
    import logging
    logging.disable(logging.CRITICAL)
    from vk.report import Collector
    from vk.smt import pipeline
    from props import h15
    mid, text, osets = item
    col = Collector()
    try:
        m0 = pipeline.real_generate(text, "S")
        if not _regular(m0):
            col.bump("ext_models_not_square_regular")
            return col
        col.bump("ext_models")
        before = h15.balance(m0)
        for o in osets:
            m = pipeline.real_generate(text, "S", o)
            case = f"ext:{mid}|" + ",".join(f"{k}={v}" for k, v in sorted(o.items()))
            col.bump("ext_pairs")
            try:
                o = dict(o)
                twice = o.pop("_twice", False)
                m.simplify(dict(o))
                if twice:
                    m.simplify(dict(o))
            except Exception as e:
                col.violation(case + ":raises", f"simplify() raises {type(e).__name__}: {str(e)[:100]}", {"model_text": text, "options": o})
                continue
            try:
                after = h15.balance(m)
                m.initial_residual_function
            except Exception as e:
                col.violation(case + ":unbuildable", f"a residual Function of the simplified model cannot be constructed: {str(e)[:120]}", {"model_text": text, "options": o})
                continue
            if after != before:
                col.violation(case + ":balance", f"unknowns minus equations changed from {before} to {after}", {"model_text": text, "options": o})
    except Exception as e:
        import traceback
        col.harness_error(f"ext {mid}: " + traceback.format_exc()[-600:])
    return col


def main():
    a = std_args(PROP)
    from props import h15
    if a.replay:
        import json
        r = json.load(open(a.replay))["replay"]
        res = h15.run(r["model_index"], r["flags"])
        print("harness returned", res, WHY.get(res, "holds"))
        return 0 if res == 1 else 1
    rep = Report(PROP, a.tier, "model_checking", a.seed)
    ids = h15.IDS
    core = ["base", "affine", "ifelse", "deralias", "paramalias", "chain3+-:expr", "chain3--:state", "chain2-:input"]
    spec = []
    if a.tier == "quick":
        for mid in ["base", "affine", "deralias", "chain3+-:expr"]:  # one wave of 16 shards; the other family members run in thorough
            for o3 in (0, 1):
                for o4 in (0, 1):
                    spec.append(("square", f"mi={ids.index(mid)},o3={o3},o4={o4}"))
    else:
        for mid in ids:
            for o3 in (0, 1):
                for o4 in (0, 1):
                    spec.append(("square", f"mi={ids.index(mid)},o3={o3},o4={o4}"))
        for mid in core[:4]:
            for o3 in (0, 1):
                for o4 in (0, 1):
                    for o0 in (0, 1):
                        for o6 in (0, 1):
                            spec.append(("square9", f"mi={ids.index(mid)},o3={o3},o4={o4},o0={o0},o6={o6}"))
    spec.append(("reach_square", f"mi={ids.index('base')},o3=1,o4=0"))
    ct = 300 if a.tier == "quick" else 600
    vs = chx.run(HARNESS, spec, jobs=a.jobs, cond_timeout=ct, path_timeout=60)
    reach = [v for v in vs if v.func.startswith("reach_")]
    vs = [v for v in vs if not v.func.startswith("reach_")]
    n = chx.summarize(rep, vs)
    for v in reach:
        rep.coverage["reachability_witness"] = v.kind == "counterexample"
        if v.kind != "counterexample":
            rep.harness_error(f"reachability twin did not produce a witness: {v.kind} {v.detail[:200]}")
    for v in vs:
        if v.kind in ("counterexample", "exception"):
            argtxt = chx.call_args(v.detail) or ""
            toks = re.findall(r"True|False|-?\d+", argtxt)
            pins = dict(kv.split("=") for kv in v.pin.split(","))
            try:
                flags = [(x == "True") for x in toks[1:]]
                for k, val in pins.items():
                    if k.startswith("o"):
                        flags[int(k[1:])] = bool(int(val))
                if v.func == "square":
                    flags = flags[:6] + [False, False, True]
                mi = int(pins["mi"])
                res = h15.run(mi, flags)
            except Exception as e:
                res, flags, mi = f"{type(e).__name__}: {e}", toks, -1
            if res != 1:
                on = [h15.OPTS[i] for i, b in enumerate(flags) if b and i < len(h15.OPTS)]
                rep.violation(f"{ids[mi]}|" + ",".join(on), f"simplify() on model {ids[mi]} with options {on}: {WHY.get(res, res)}",
                              {"model_index": mi, "model_id": ids[mi], "flags": flags, "model_text": h15.MODELS[mi][1], "crosshair": v.detail})
            else:
                rep.harness_error(f"counterexample {v.func}[{v.pin}]({argtxt}) did not reproduce concretely")
    from vk import simpfam
    from vk.report import run_parallel
    extra = []
    six = [dict(zip(simpfam.SIX, bits)) for bits in __import__("itertools").product((False, True), repeat=6)]
    osets = [{k: (v if k != "eliminable_variable_expression" else "^zz$") for k, v in o.items() if v} for o in six]
    for o in osets:
        if "eliminable_variable_expression" in o:
            o["expand_mx"] = True  # documented precondition of the option (simplify raises without it)
    for nconst in (1, 2, 3):
        for tail in ("der(x) = -k1 * x;", "der(x) = -k1 * x + u;", "der(x) = -x;"):
            ks = [f"k{i}" for i in range(1, nconst + 1)]
            # every algebraic variable is constant-assigned, and further equations follow the last assignment
            for order in ("consts-first", "consts-last", "interleaved"):
                ceqs = [f"  {k} = {i + 2};" for i, k in enumerate(ks)]
                deq = ["  " + tail]
                body = ceqs + deq if order == "consts-first" else (deq + ceqs if order == "consts-last" else ceqs[:1] + deq + ceqs[1:])
                text = "model S\n  input Real u;\n  Real x(start = 1);\n  Real " + ", ".join(ks) + ";\nequation\n" + "\n".join(body) + "\nend S;\n"
                extra.append((f"allconst[{nconst},{order},{tail}]", text, osets))
    # option-specific corners: initial equations / time with the affine reduction, constants given by constants,
    # equations between array elements with unexpanded arrays, time as the other side of an alias, a second pass
    aff = [{"reduce_affine_expression": True}, {"reduce_affine_expression": True, "detect_aliases": True},
           {"reduce_affine_expression": True, "replace_constant_values": True, "replace_parameter_values": True},
           {"reduce_affine_expression": True, "expand_mx": True}]
    for ini in ("", "initial equation\n  x = 2;\n", "initial equation\n  x = 2 + y;\n  der(x) = 0;\n"):
        for tm in ("", " + time", " + 2 * time + p"):
            text = ("model S\n  parameter Real p = 2;\n  constant Real c = 3;\n  Real x(start = 1);\n  Real y;\n" + ini +
                    f"equation\n  der(x) = -x + y{tm};\n  y = c * x + p{tm};\nend S;\n")
            extra.append((f"affine-corners[init={len(ini) > 0 and ini.count(';')},time={tm.strip() or '-'}]", text, aff))
    cv = [{"replace_constant_values": True}, {"replace_constant_values": True, "eliminate_constant_assignments": True},
          {"replace_constant_values": True, "replace_constant_expressions": True}, {"replace_constant_values": True, "detect_aliases": True},
          {"replace_constant_values": True, "replace_parameter_values": True, "replace_parameter_expressions": True}]
    for chain in ("constant Real a = 2;\n  constant Real b = 3 * a;", "constant Real b = 3 * a;\n  constant Real a = 2;",
                  "constant Real a = 2;\n  constant Real b = 3 * a;\n  constant Real d = b + a;", "constant Real a = 2;\n  parameter Real b = 3 * a;"):
        use = "b + a" if "d =" not in chain else "d * b"
        extra.append((f"dependent-constants[{chain.count(';')},{'param' if 'parameter' in chain else 'const'},{chain.index('a = 2') == 14}]",
                      f"model S\n  {chain}\n  Real x;\n  Real z(start = 1);\nequation\n  x = {use};\n  der(z) = -x * z;\nend S;\n", cv))
    va = [{"detect_aliases": True}, {"detect_aliases": True, "expand_vectors": True}, {"detect_aliases": True, "expand_mx": True},
          {"detect_aliases": True, "expand_vectors": True, "_twice": True}, {"expand_vectors": True, "_twice": True},
          {"expand_vectors": True, "detect_aliases": True, "eliminate_constant_assignments": True, "replace_constant_values": True, "_twice": True}]
    for eqs in ("y[1] = x[1];\n  y[2] = 2 * x[2];\n  x[1] = 1;\n  x[2] = 2;", "y = x;\n  x[1] = 1;\n  x[2] = 2;",
                "y[1] = x[2];\n  y[2] = x[1];\n  x = {1, 2};", "y[1] = -x[1];\n  y[2] = x[2] + 1;\n  x = {1, 2};",
                "y[2] = x[2];\n  y[1] = 5;\n  der(x[1]) = -x[1];\n  der(x[2]) = y[1];"):
        extra.append((f"element-equations[{eqs.split(';')[0]}|{len(eqs)}]", "model S\n  Real x[2];\n  Real y[2];\nequation\n  " + eqs + "\nend S;\n", va))
    for eqs in ("y = time;\n  z = 2 * y;", "y = -time;\n  z = y;", "z = y;\n  y = time;", "time = y;\n  z = y + 1;"):
        extra.append((f"time-alias[{eqs.split(';')[0]}]", "model S\n  Real y;\n  Real z;\nequation\n  " + eqs + "\nend S;\n",
                      [{"detect_aliases": True}, {"detect_aliases": True, "expand_mx": True}, {"detect_aliases": True, "eliminate_constant_assignments": True}]))
    # inputs (scalar, array, created by delay) as alias partners and in the affine reduction
    ia = [{"detect_aliases": True}, {"detect_aliases": True, "expand_mx": True}, {"detect_aliases": True, "eliminate_constant_assignments": True},
          {"detect_aliases": True, "expand_vectors": True}, {"detect_aliases": True, "allow_derivative_aliases": False}]
    for eqs in ("y1 = u;\n  y1 = y2;", "y1 = y2;\n  y1 = u;", "u = y1;\n  y2 = y1;", "y1 = -u;\n  y2 = -y1;", "y2 = y1;\n  y1 = u;\n", "y1 = u;\n  y2 = u;"):
        extra.append((f"input-alias[{eqs.replace(chr(10), ' ')}]", "model S\n  input Real u;\n  Real y1;\n  Real y2;\n  Real z(start = 1);\nequation\n  " + eqs + "\n  der(z) = -z + y2;\nend S;\n", ia))
    extra.append(("input-alias[delay]", "model S\n  Real y1;\n  Real y2;\n  Real z(start = 1);\nequation\n  y1 = delay(z, 1);\n  y1 = y2;\n  der(z) = -z + y2;\nend S;\n", ia))
    extra.append(("input-alias[array]", "model S\n  input Real u[2];\n  Real y1[2];\n  Real y2[2];\nequation\n  y1 = u;\n  y1 = y2;\nend S;\n", ia))
    for decl, eq in (("input Real u[2];\n  Real x[2];", "der(x) = -x + u;"), ("input Real u[3];\n  input Real w;\n  Real x[3];", "der(x[1]) = -x[1] + u[1] + w;\n  der(x[2]) = -x[2] + 3 * u[2];\n  der(x[3]) = u[3];"),
                     ("input Real u;\n  Real x[2];", "der(x[1]) = -x[1] + u;\n  der(x[2]) = x[1] + delay(x[2], 1);"),
                     ("Real x[2];\n  Real y[2];", "der(x) = -x + y;\n  y = delay(x, 2);")):
        extra.append((f"affine-inputs[{decl.split(';')[0]}|{len(eq)}]", "model S\n  " + decl + "\nequation\n  " + eq + "\nend S;\n", aff))
    for col in run_parallel(ext_work, simpfam.models_ext(a.tier) + extra, a.jobs):
        rep.merge(col)
    cov = rep.coverage
    cov["states"] = max(1, n["confirmed"])
    cov["transitions"] = max(1, len(vs))
    cov["traces_validated_against_impl"] = sum(1 for v in vs if v.kind in ("counterexample", "exception"))
    cov["samples"] = [{"function": v.func, "pin": v.pin, "model": ids[int(v.pin.split(',')[0].split('=')[1])], "verdict": v.kind, "secs": round(v.secs, 1)} for v in vs][:10]
    cov["exhaustive"] = all(v.kind == "confirmed" for v in vs)
    cov["functions_encoded"] = ["casadi.model.Model.simplify / _simplify_once, dae_residual_function, initial_residual_function (executed symbolically by CrossHair; option flags symbolic)"]
    cov["bounds"] = ("quick: 4 models (base, affine, deralias, chain3+-) x all 2^6 settings of (eliminate_constant_assignments, replace_constant_values, replace_parameter_expressions, detect_aliases, "
                     "eliminable_variable_expression, factor_and_simplify_equations); thorough: all 47 family models x 2^6, and 4 models x 2^9 adding "
                     "(replace_parameter_values, expand_mx, allow_derivative_aliases)")
    cov["bounds"] += ("; concrete supplementary stage: every model of the extended C14 families (alias links and cycles, 15 equation orientations, badly scaled affine systems) and of a family where every algebraic variable is constant-assigned with further equations before/after, that is "
                      "balanced and has a nonsingular Jacobian at a generic point, under the option sets C14 uses for it; 22 option-specific corner models: "
                      "reduce_affine_expression with 0/1/2 initial equations and time in the equations, constants and parameters given by other constants with replace_constant_values, "
                      "equations between array elements with unexpanded / expanded arrays, time as the other side of an alias equation, a second simplify pass with expand_vectors; 12 models with inputs (scalar, array, delay-made) as alias partners and in the affine reduction")
    rep.assumptions += ["the model family is square and uniquely solvable by construction (vk/simpfam.py)",
                        "an exception from simplify() counts as a failure of C15 (no option set in the family raises on the unchanged tree)",
                        "values are realised at the CasADi boundary"]
    return rep.finish()


if __name__ == "__main__":
    sys.exit(main())
