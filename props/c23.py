"""C23 - out-of-range array subscripts are rejected, never reinterpreted (Engine A, CrossHair).

Real code: generate -> Generator.get_component / get_indexed_symbol / get_integer with the subscript
literals replaced by CrossHair symbolic integers (unbounded for scalar subscripts; a window around
the valid range for slices and loop ranges, which numpy.arange / Python slicing realise).

Extended family (second half of props/h23.py): subscript expressions of the loop variable (descending, strided,
offset), stepped loop ranges, loops over either dimension of a matrix / of an array-of-components member / over a
scalar, for-statements in functions, strided and matrix slices, degenerate shapes, shapes that can never be valid,
subscripts computed from Integer parameters, der(x[i]).  Third round: subscripted references reached through hierarchical
names with unsubscripted levels (a.x[..], b.a.x[..], q[..].s, a.W[..,..], q[..].a.x[..]; loop-dependent, constant and slice
subscripts) and other observation points (the value of a symbol attribute, of a parameter / constant binding, of a
declaration equation, of a component modification; further expression contexts; initial equations).  After a counterexample in one of these shards the shard's
window is swept concretely and every failing argument tuple is reported under its own (stable) case id."""
import json
import os
import re
import sys

from vk import chx
from vk.report import Report, std_args

PROP = "C23"
HARNESS = os.path.join(os.path.dirname(os.path.abspath(__file__)), "h23.py")


def replay_call(func, args):
    """Re-run the harness function concretely (no CrossHair) -> returns value or exception."""
    import importlib
    h = importlib.import_module("props.h23")
    try:
        return getattr(h, func)(*args)
    except Exception as e:  # the harness itself never raises on the unchanged tree
        return repr(e)


# extended-family functions ALL of whose arguments have a finite window: a concrete sweep of a shard is exhaustive
BOUNDED = {"forexpr", "forstep", "formix", "forscalar", "forfunc", "slice3n", "mslice", "forhier", "hslice", "attr", "attrslice", "ctx"}


def windowed_sweep(rep, v, swept):
    """Extended-family functions have a finite window (props/h23.py WINDOWED): after a counterexample the shard's
    window is swept concretely (no CrossHair) and EVERY failing argument tuple is reported, so that the case ids
    are stable (they do not depend on the witness z3 happened to pick).  -> True when something was reported."""
    import importlib
    h = importlib.import_module("props.h23")
    if v.func not in h.WINDOWED:
        return False
    pinned = {k: val for k, val in chstubs_parse_pin(v.pin).items() if k != "f"}
    key = (v.func, tuple(sorted(pinned.items())))
    if key in swept:
        return True
    swept.add(key)
    bad = h.sweep(v.func, pinned)
    for args, res in bad:
        rep.violation(f"{v.func}({', '.join(map(str, args))})",
                      f"subscript case {v.func}{tuple(args)} [{h.describe(v.func, args)}]: real generate() does not reject / select correctly (harness returned {res})",
                      {"function": v.func, "args": list(args), "model_fragment": h.describe(v.func, args), "crosshair": v.detail})
    return bool(bad)


def chstubs_parse_pin(pin):
    from vk.chstubs import _parse_pin
    return _parse_pin(pin)


def main():
    a = std_args(PROP)
    rep = Report(PROP, a.tier, "model_checking", a.seed)
    thorough = a.tier == "thorough"
    spec = [("vec", f"n={n}") for n in (1, 2, 3)] + [("mat", ""), ("scalar", ""), ("nested", ""), ("lhs", "")]
    spec += [("slice2", f"n={n},a={x}") for n in (1, 2, 3) for x in range(-3, n + 4)]
    spec += [("forloop", f"n={n},a={x}") for n in (2, 3) for x in range(-2, n + 3)]
    spec += [("reach_vec", "n=2")]
    if thorough:
        spec += [("slice3", "")]
    # -- extended family (see the second half of props/h23.py); the pin's f=<function> only selects which templates
    #    the shard parses.  Symbolically executed (traced) shards first, they are the long ones.
    ext = [("mcolon", ""), ("derv", ""), ("psub", "kind=0"), ("reject", "")]
    ext += [("matn", f"sh={k}") for k in ((0, 1, 2, 3) if thorough else (0,))]
    # window families: every literal is forked to a concrete value (Python range / numpy.arange / CasADi constants
    # need real integers), generate() then runs untraced
    ext += [("mslice", f"pos={p},s={s}") for p in (0, 1) for s in ((0, 1, 2, 3) if thorough else (0, 2))]
    ext += [("slice3n", f"n={n}") for n in ((1, 2, 3, 4) if thorough else (3, 4))]
    ext += [("forexpr", f"n={n}") for n in ((1, 2, 3, 4) if thorough else (1, 2, 3))]
    ext += [("forstep", f"n={n}") for n in ((2, 3, 4) if thorough else (2, 3))]
    ext += [("formix", f"nest={ne},pos={p}") for ne in (0, 1) for p in (0, 1)]
    ext += [("forscalar", ""), ("forfunc", "")]
    ext += [("psub", f"kind={k}") for k in ((1, 2, 3, 4, 5, 6) if thorough else (1, 4, 6))]
    # third round: hierarchical names (hsub is traced in the thorough tier: constant subscripts over all integers) ...
    ext = ([("hsub", f"g={g}") for g in range(6)] if thorough else []) + ext
    ext += [] if thorough else [("hsub", "win=1")]
    #     (quick: one shard per group with the variant dimension capped; thorough: one shard per group and variant)
    ext += [("forhier", f"g={g},ek={ek}") for g in range(6) for ek in range(5)] if thorough else [("forhier", f"g={g},ekmax=1") for g in range(6)]
    ext += [("hslice", f"s={s}") for s in ((0, 1, 2, 3) if thorough else (0, 2))]
    # ... and subscripted references as attribute / binding / modification values and in other expression contexts
    ext += [("attr", f"g={g},form={fo}") for g in range(4) for fo in range(3)] if thorough else [("attr", f"g={g},formmax=1") for g in range(4)]
    ext += [("attrslice", f"src={src},s={s}") for src in ((0, 3) if thorough else (0,)) for s in ((0, 1, 2) if thorough else (0, 2))]
    ext += [("ctx", "")]
    spec = [(f, (f"f={f}," + pin).rstrip(",")) for f, pin in ext] + spec
    ct = 150 if a.tier == "quick" else 600
    vs = chx.run(HARNESS, spec, jobs=a.jobs, cond_timeout=ct, path_timeout=30)
    reach = [v for v in vs if v.func.startswith("reach_")]
    vs = [v for v in vs if not v.func.startswith("reach_")]
    n = chx.summarize(rep, vs)
    for v in reach:
        rep.coverage["reachability_witness"] = v.kind in ("counterexample",)
        if v.kind != "counterexample":
            rep.harness_error(f"reachability twin {v.func} did not produce a witness: {v.kind}")
    swept = set()
    for v in vs:
        if v.kind in ("counterexample", "exception") and windowed_sweep(rep, v, swept):
            continue
        if v.kind in ("counterexample", "exception"):
            argtxt = chx.call_args(v.detail) or ""
            try:
                args = [int(x) for x in re.findall(r"-?\d+", argtxt)]
            except Exception:
                args = []
            res = replay_call(v.func, args)
            if res != 1:
                rep.violation(f"{v.func}({', '.join(map(str, args))})",
                              f"subscript case {v.func}{tuple(args)}: real generate() does not reject / select correctly (harness returned {res})",
                              {"function": v.func, "args": args, "crosshair": v.detail})
            else:
                rep.harness_error(f"counterexample {v.func}({argtxt}) did not reproduce concretely")
    cov = rep.coverage
    cov["states"] = max(1, n["confirmed"])
    cov["transitions"] = max(1, len(vs))
    cov["traces_validated_against_impl"] = sum(1 for v in vs if v.kind in ("counterexample", "exception"))
    cov["samples"] = [{"function": v.func, "pin": v.pin, "verdict": v.kind, "secs": round(v.secs, 1)} for v in vs][:12]
    # a shard that ended in a counterexample was cut short by CrossHair, but a bounded shard was then swept completely
    cov["exhaustive"] = all(v.kind == "confirmed" or (v.kind == "counterexample" and v.func in BOUNDED and any(k[0] == v.func for k in swept)) for v in vs)
    cov["shard_seconds"] = {f"{v.func}[{v.pin}]": round(v.secs, 1) for v in vs}
    cov["shards_swept_concretely"] = sorted(f"{f}{dict(p)}" for f, p in swept)
    cov["functions_encoded"] = ["casadi.generator.generate -> Generator.get_component, get_indexed_symbol, get_integer (symbolically executed by CrossHair)"]
    cov["bounds"] = ("scalar subscripts x[i], A[i,j] (2x3; 1x1" + ("; 1x3, 3x1, 2x2" if thorough else "") + "), q[i].w[j], s[i], lhs x[i], der(x[i]), x[k] with k an Integer parameter, "
                     "A[:,r], A[r,:], s[i,j], x[i,j], A[i,j,i]: ALL integers (unbounded); slices a:b window [-3, n+3], n in 1..3; strided slices a:s:b, s in 1..3, window [-1, n+2]x[-1, n+4], "
                     + ("n in 1..4 (plus size 5, window [-2, 7])" if thorough else "n in 3..4")
                     + "; matrix slices A[a:s:b, r], A[r, a:s:b] on 2x3, a in [0, d+1], b in [0, d+2], r in [0, 4], "
                     + ("s in 1..3 and unstrided" if thorough else "s = 2 and unstrided")
                     + "; slices / several subscripts on a scalar and too many subscripts (7 shapes, slice bounds in [-2, 4]); "
                     "subscripts computed from an Integer parameter k in 0..5 and a literal d in 0..4: " + ("x[k+d], x[k-d], x[lit+lit], x[k:k+d], x[d:k], x[2k-d]" if thorough else "x[k+d], x[k:k+d], x[2k-d]")
                     + "; for-ranges window [-2, n+2], n in 2..3; for-equations x[e(i)] = i with e in {c-i, i+c, c*i, 2i-c, c-2i}, c in 0..n+4, 1 <= a <= b <= 3, n in "
                     + ("1..4" if thorough else "1..3") + "; stepped loop ranges a:s:b, s in 1..3, a in 0..n+2, b in a..n+3, n in " + ("2..4" if thorough else "2..3")
                     + "; loops over either dimension of A[2,3] and of q[2].w[3] (A[i,k], A[k,i], k in 0..4, range within 0..4; A[c-i,k], A[k,c-i], c in 2..5); "
                     "loop-variable subscripts on a scalar (s[i], s[c-i], s[i+c], range within 0..3); for-statements in a function algorithm (x[i] range within 0..5, x[c-i])"
                     + ("; thorough adds stepped slices a:s:b on size 5" if thorough else "")
                     + "; HIERARCHICAL NAMES with unsubscripted levels - shapes a.x[..] (C a; Real x[3] in C), b.a.x[..], x[..] in an equation written inside C, q[..].s (Q q[3]), "
                     "a.W[..,k], a.W[k,..] (2x3), q[..].a.x[k], q[k].a.x[..] (Q q[2]), a.s[..] and a[..].s on scalars: for-equations REF = i and i = REF with subscript "
                     + ("i (range within -1..4, k in 0..4), c-i (c in 2..5, range within 1..3), i-c / i+c (c in 1..2), i+c with the range spelled -a:b (a in 0..2, b, c in 0..3)" if thorough
                        else "i (range within -1..4, k in 0..4) and c-i (c in 2..5, range within 1..3)")
                     + "; constant subscripts on a.x[i], b.a.x[i], inner x[i], q[i].s, a.W[i,j], q[i].a.x[j], a.s[i], a[i].s: " + ("ALL integers" if thorough else "i in [-3, 6], j in [-1, 5]")
                     + "; slices sum(REF[a:b]) / sum(REF[a:s:b]) on the six 1-D shapes, a in 0..4, b in 0..5, " + ("s in 1..3 and unstrided" if thorough else "s = 2 and unstrided")
                     + "; OBSERVATION POINTS - a subscripted reference V as value of: start / min / max / nominal of a variable, value of a parameter and of a constant, declaration equation, "
                     "max of an input, start and fixed (Boolean) of a state, min of a parameter, start of a component's variable and value of a component's parameter through a modification (13 hosts), "
                     "V in {R, 2*R" + (", -R" if thorough else "") + "}, R in {p[i] (i in -1..4), P[i,j] (2x3, i in 0..3, j in 0..4), s[i] on a scalar, a.p[i]}; slices p[a:b], p[a:s:b]"
                     + (", a.p[..]" if thorough else "") + " as start / min / value / declaration equation / component parameter of a size-2 host (a in 0..4, b in 0..5, "
                     + ("s in 1..2 and unstrided" if thorough else "s = 2 and unstrided") + "); x[i], i in -2..5, in 11 expression contexts (unary minus, product, quotient, power, abs, min, if-expression "
                     "condition and branch, if-equation condition, user function argument, initial equation)")
    rep.assumptions += ["values are realised only at the CasADi (SWIG) boundary and in numpy.arange",
                        "window families (strided and matrix slices, for-equations / for-statements, parameter-expression subscripts): slice bounds, loop bounds and literals inside subscript expressions are forked to concrete values over the stated window before generate() is called (the real code passes them to Python range / numpy.arange / CasADi constants immediately) and generate() then runs untraced; CrossHair/z3 enumerate the window",
                        "two loop-dependent subscripts on one reference (A[i,i]) are not in the family: pymoca accepts them but produces a residual with a free loop variable (not a range question)", "error-message formatting of symbolic values is cut (not the subject)",
                        "an empty range a:b with b<a may be rejected or give the empty selection",
                        "attribute / binding hosts: the value is read from the Variable object of the generated model (or the residual for a declaration equation) and evaluated with the subscripted symbol at 1, 10, 100, ...; a slice whose length differs from the size-2 host may be refused or accepted (not a range question)"]
    return rep.finish()


if __name__ == "__main__":
    sys.exit(main())
