"""C23 - out-of-range array subscripts are rejected, never reinterpreted (Engine A, CrossHair).

Real code: generate -> Generator.get_component / get_indexed_symbol / get_integer with the subscript
literals replaced by CrossHair symbolic integers (unbounded for scalar subscripts; a window around
the valid range for slices and loop ranges, which numpy.arange / Python slicing realise)."""
import json
import os
import re
import sys

from vk import chx
from vk.report import Report, std_args

PROP = "C23"
HARNESS = os.path.join(os.path.dirname(os.path.abspath(__file__)), "h23.py")


def replay_call(func, args):
    """Re-run the harness function concretely (no CrossHair) -> returns value or exception."""
    import importlib
    h = importlib.import_module("props.h23")
    try:
        return getattr(h, func)(*args)
    except Exception as e:  # the harness itself never raises on the unchanged tree
        return repr(e)


def main():
    a = std_args(PROP)
    rep = Report(PROP, a.tier, "model_checking", a.seed)
    spec = [("vec", f"n={n}") for n in (1, 2, 3)] + [("mat", ""), ("scalar", ""), ("nested", ""), ("lhs", "")]
    spec += [("slice2", f"n={n},a={x}") for n in (1, 2, 3) for x in range(-3, n + 4)]
    spec += [("forloop", f"n={n},a={x}") for n in (2, 3) for x in range(-2, n + 3)]
    spec += [("reach_vec", "n=2")]
    if a.tier == "thorough":
        spec += [("slice3", "")]
    ct = 150 if a.tier == "quick" else 600
    vs = chx.run(HARNESS, spec, jobs=a.jobs, cond_timeout=ct, path_timeout=30)
    reach = [v for v in vs if v.func.startswith("reach_")]
    vs = [v for v in vs if not v.func.startswith("reach_")]
    n = chx.summarize(rep, vs)
    for v in reach:
        rep.coverage["reachability_witness"] = v.kind in ("counterexample",)
        if v.kind != "counterexample":
            rep.harness_error(f"reachability twin {v.func} did not produce a witness: {v.kind}")
    for v in vs:
        if v.kind in ("counterexample", "exception"):
            argtxt = chx.call_args(v.detail) or ""
            try:
                args = [int(x) for x in re.findall(r"-?\d+", argtxt)]
            except Exception:
                args = []
            res = replay_call(v.func, args)
            if res != 1:
                rep.violation(f"{v.func}({', '.join(map(str, args))})",
                              f"subscript case {v.func}{tuple(args)}: real generate() does not reject / select correctly (harness returned {res})",
                              {"function": v.func, "args": args, "crosshair": v.detail})
            else:
                rep.harness_error(f"counterexample {v.func}({argtxt}) did not reproduce concretely")
    cov = rep.coverage
    cov["states"] = max(1, n["confirmed"])
    cov["transitions"] = max(1, len(vs))
    cov["traces_validated_against_impl"] = sum(1 for v in vs if v.kind in ("counterexample", "exception"))
    cov["samples"] = [{"function": v.func, "pin": v.pin, "verdict": v.kind, "secs": round(v.secs, 1)} for v in vs][:12]
    cov["exhaustive"] = all(v.kind == "confirmed" for v in vs)
    cov["functions_encoded"] = ["casadi.generator.generate -> Generator.get_component, get_indexed_symbol, get_integer (symbolically executed by CrossHair)"]
    cov["bounds"] = ("scalar subscripts x[i], A[i,j], q[i].w[j], s[i], lhs x[i]: ALL integers (unbounded); slices a:b window [-3, n+3], n in 1..3; "
                     "for-ranges window [-2, n+2], n in 2..3; thorough adds stepped slices a:s:b on size 5")
    rep.assumptions += ["values are realised only at the CasADi (SWIG) boundary and in numpy.arange", "error-message formatting of symbolic values is cut (not the subject)",
                        "an empty range a:b with b<a may be rejected or give the empty selection"]
    return rep.finish()


if __name__ == "__main__":
    sys.exit(main())
