"""C25 - ModelicaXML backend mirrors the flat model (translation validation, Engine B).

Real code: backends.xml.generator.generate (deepcopy + flatten + XmlGenerator).  The XML text is parsed
back (lxml) into pymoca AST nodes - <apply builtin=op> / <operator name=op> -> Expression, <real> ->
Primary, <local> -> ComponentRef - and compared with a fresh flatten of the same text:
  structure  one <component> per flat variable (name, builtin type, variability, literal start/value,
             fixed) and one element per flat equation - <equal> for an equation, <when><cond/><then/></when>
             for a when-equation, <apply> for an equation-level call (reinit, assert) - whose tree matches the
             flat equation operator for operator and operand for operand, in order; nothing for the flat
             model's initial equations;
  meaning    z3 proves, for all values of all variables, that each XML expression (both sides of every
             equation, every when-condition, every call argument) equals the flat one under the reference
             semantics (ast2z3) - so a literal printed with lost digits or a collapsed operand shows up as
             `sat` even where the shapes agree.

Families: expression trees (arithmetic, literals, relational/logical, user and builtin calls of 1-3 arguments),
variable declarations (type x variability x kind of start x kind of value x fixed), and whole models
(equation/initial-equation section layouts x when-equation forms x the way the model is instantiated)."""
import itertools
import json
import sys
import traceback

from lxml import etree

from props import c24
from vk import exprgen as E
from vk.report import Collector, EncodingGap, Report, run_parallel, std_args
from vk.smt import equiv, ops, pipeline
from vk.smt.ast2z3 import Ref

PROP = "C25"
BATCH = 20
SYM_BATCH = 24
STRUCT_BATCH = 8


# ---- expression families ----------------------------------------------------------------------------------
def trees(tier):
    out = list(c24.arith_trees(tier)) + list(c24.literal_trees(tier))
    # repeated equal literals / operands as siblings, n-ary calls, nested unary operators
    out += [E.Bn("+", E.N("3"), E.N("3")), E.Bn("*", E.N("0.5"), E.N("0.5")), E.Call("max", E.N("2"), E.N("2")), E.Call("min", E.V("a"), E.V("a")),
            E.Bn("-", E.V("a"), E.V("a")), E.Bn("+", E.Bn("*", E.N("2"), E.V("a")), E.Bn("*", E.N("2"), E.V("a"))),
            E.Call("atan2", E.V("a"), E.V("b")), E.Call("max", E.V("a"), E.Bn("+", E.V("b"), E.N("1"))),
            E.Un("+", E.V("a")), E.Un("-", E.Un("+", E.V("a"))), E.Un("+", E.Un("-", E.V("a"))), E.Bn("*", E.Un("+", E.V("a")), E.Un("-", E.V("b"))),
            E.Call("abs", E.Un("-", E.V("a"))), E.Call("sqrt", E.Bn("+", E.Bn("*", E.V("a"), E.V("a")), E.N("1")))]
    return out


# user functions of one, two and three arguments (the flat tree then holds several classes, M last)
FUNCS = ("function f1\n  input Real u;\n  output Real y;\nalgorithm\n  y := 2 * u + 1;\nend f1;\n"
         "function f2\n  input Real u1;\n  input Real u2;\n  output Real y;\nalgorithm\n  y := u1 - 3 * u2;\nend f2;\n"
         "function f3\n  input Real u1;\n  input Real u2;\n  input Real u3;\n  output Real y;\nalgorithm\n  y := u1 + u2 * u3;\nend f3;\n")


def call_trees(tier):
    """Calls of user functions and event/time operators: 1, 2 and 3 operands, equal sibling operands (references, literals,
    whole sub-trees), calls nested in calls and in operators."""
    a, b, c = E.V("a"), E.V("b"), E.V("c")
    out = [E.Call("f1", a), E.Call("f1", E.Un("-", a)), E.Call("f1", E.Call("f1", a)), E.Un("-", E.Call("f1", a)),
           E.Call("f2", a, b), E.Call("f2", b, a), E.Call("f2", a, a), E.Call("f2", E.N("2"), E.N("2")), E.Call("f2", E.N("1"), E.N("1.0")),
           E.Call("f3", a, E.N("2"), b), E.Call("f3", E.N("1"), E.N("1"), E.N("1")), E.Call("f3", a, a, a), E.Call("f3", a, b, a),
           E.Call("f3", E.Call("f2", a, b), E.Call("f2", a, b), E.N("0.5")), E.Bn("+", E.Call("f2", a, b), E.Call("f2", a, b)),
           E.Bn("*", E.Call("f1", a), E.Call("f3", a, b, c)), E.Call("max", E.Call("f2", a, b), E.Call("f2", a, b)),
           E.Call("smooth", E.N("1"), a), E.Call("noEvent", a), E.Call("noEvent", E.Bn("+", a, E.N("1"))), E.Call("delay", a, E.N("1")),
           E.Call("delay", a, E.N("0.5"), E.N("0.5")), E.Call("pre", E.V("dn")), E.Bn("+", E.Call("pre", E.V("dn")), E.N("1")),
           E.Bn("-", E.Call("pre", E.V("dn")), E.Call("pre", E.V("dn"))), E.Call("min", E.Call("der", E.V("x")), E.Call("der", E.V("x")))]
    if tier == "thorough":
        for f, g in itertools.product(("f1", "noEvent", "abs", "sin"), repeat=2):
            out.append(E.Call(f, E.Call(g, a)))
        for l, r in itertools.product((a, E.N("2"), E.Call("f1", a), E.Un("-", a)), repeat=2):
            out += [E.Call("f2", l, r), E.Call("f3", l, r, l)]
    return out


def bool_trees(tier):
    """Relations and logical operators (Boolean left-hand sides): every relational operator (the XML attribute needs
    escaping for < > <>), not / and / or in both nestings, Boolean literals, equal siblings, pre / edge."""
    a, b, c, d, p, q = E.V("a"), E.V("b"), E.V("c"), E.V("d"), E.V("bp"), E.V("bq")
    out = [E.Bool(True), E.Bool(False), p, E.Not(p), E.Not(E.Not(p)), E.And(p, q), E.Or(p, q), E.And(p, p), E.Or(E.Bool(True), E.Bool(True)),
           E.And(E.Bool(True), E.Bool(False)), E.And(E.Bool(True), p), E.Or(p, E.Bool(False)), E.Call("pre", p), E.Call("edge", p),
           E.Or(E.Call("pre", p), E.And(E.Call("edge", q), E.Rel("<>", a, E.N("1")))), E.And(E.Call("pre", p), E.Call("pre", p))]
    for op in E.REL:
        out += [E.Rel(op, a, b), E.Rel(op, b, a), E.Rel(op, E.Bn("+", a, E.N("1")), E.Bn("*", E.N("2"), b)), E.Not(E.Rel(op, a, b)),
                E.Rel(op, a, a), E.Rel(op, E.N("2"), E.N("2")), E.Rel(op, E.Un("-", a), E.N("0.5"))]
    r1, r2, r3 = E.Rel("<", a, b), E.Rel(">=", c, d), E.Rel("==", a, d)
    for f, g in itertools.product((E.And, E.Or), repeat=2):
        out += [f(g(r1, r2), r3), f(r1, g(r2, r3)), f(E.Not(r1), g(p, r3)), E.Not(f(r1, g(r2, p)))]
    if tier == "thorough":
        for o1, o2 in itertools.product(E.REL, repeat=2):
            out += [E.And(E.Rel(o1, a, b), E.Rel(o2, c, d)), E.Or(E.Rel(o1, a, E.N("1")), E.Not(E.Rel(o2, E.N("1"), a)))]
    return out


def lhs_trees(tier):
    """Trees printed on the LEFT of the equation (`expr = y`), a literal or a call alone on the left included."""
    tr = trees(tier)
    return call_trees(tier) + tr[::(2 if tier == "thorough" else 5)] + [E.N("0"), E.N("1.5"), E.Un("-", E.N("1")), E.Bn("-", E.V("a"), E.V("b"))]


def expr_model(trs, boolean=False, left=False):
    txt = "".join(E.pr(t) for t in trs)
    funcs = FUNCS if any(f + "(" in txt for f in ("f1", "f2", "f3")) else ""
    decl = "  Real a, b, c, d, x;\n  discrete Real dn;\n  Boolean bp, bq;\n" + "".join(f"  {'Boolean' if boolean else 'Real'} y{k};\n" for k in range(len(trs)))
    eqs = "".join((f"  {E.pr(t)} = y{k};\n" if left else f"  y{k} = {E.pr(t)};\n") for k, t in enumerate(trs))
    return funcs + "model M\n" + decl + "equation\n" + eqs + "end M;\n"


# ---- variable families ------------------------------------------------------------------------------------
def symbol_models(tier):
    types = [("Real", "1.5", "2.25"), ("Integer", "3", "4"), ("Boolean", "true", "false")]
    out = []
    for ty, v1, v2 in types:
        for var in ("", "parameter", "constant", "discrete"):
            for attr in ("none", "value", "start", "start+fixed", "value+start", "fixed-false"):
                if var in ("parameter", "constant") and "value" not in attr:
                    continue
                mods = []
                if "start" in attr:
                    mods.append(f"start = {v2}")
                if "fixed" in attr:
                    mods.append("fixed = true" if attr != "fixed-false" else "fixed = false")
                m = ("(" + ", ".join(mods) + ")") if mods else ""
                val = f" = {v1}" if "value" in attr else ""
                out.append((f"sym[{ty},{var or 'continuous'},{attr}]", f"{var + ' ' if var else ''}{ty} s{m}{val};"))
    lits = ["101325.5", "1234567.125", "0.1234567891", "1e-7", "6.02214076e23", "12345678"] + (["9007199254740993", "1e22", "0.30000000000000004"] if tier == "thorough" else [])
    for l in lits:
        out.append((f"sym[Real,lit-start,{l}]", f"Real s(start = {l});"))
        out.append((f"sym[Real,lit-value,{l}]", f"parameter Real s = {l};"))
        out.append((f"sym[Real,neg-start,{l}]", f"Real s(start = -{l});"))
    return out


# What a start attribute / a declaration value can be: absent, a literal, a negative literal (parsed as a unary minus:
# still a literal for the backend), or an expression (a reference, an operator, a negated reference, a double negation):
# only literals are exported, an expression must leave NO item behind - whatever the other attribute is.
ATTR_KINDS = {
    "Real": [("none", None), ("lit", "1.5"), ("neg", "-2.5"), ("ref", "p"), ("expr", "2 * p"), ("negref", "-p")],
    "Integer": [("none", None), ("lit", "3"), ("neg", "-4"), ("ref", "ip"), ("expr", "ip + 1")],
    "Boolean": [("none", None), ("lit", "true"), ("ref", "bp"), ("expr", "not bp")],
    "String": [("none", None), ("lit", '"abc"'), ("ref", "sp"), ("markup", '" a<b & c>d \'q\' ]]> "'), ("non-ascii", '"5 \u00b5m \u2264 d"')],
}
ATTR_KINDS_MORE = {
    "Real": [("dneg", "-(-2.5)"), ("negexpr", "-(2 * p)"), ("sum", "p + 0.5"), ("longlit", "0.1234567891"), ("call", "sin(p)")],
    "Integer": [("dneg", "-(-4)"), ("negref", "-ip")],
    "Boolean": [("lit0", "false"), ("and", "bp and true")],
    "String": [],
}
SYM_HEADER = '  parameter Real p = 2;\n  parameter Integer ip = 2;\n  parameter Boolean bp = true;\n  parameter String sp = "s";\n'


def symbol_cross(tier):
    """type x variability x kind(start) x kind(value), with fixed (absent / true / false), the order of the modifiers and
    unrelated literal attributes (min, max, nominal: never exported) cycling through the combinations."""
    out = []
    thorough = tier == "thorough"
    for ty, kinds in ATTR_KINDS.items():
        if thorough:
            kinds = kinds + ATTR_KINDS_MORE[ty]
        if ty == "Real" or thorough:
            vars_ = ["", "parameter", "constant", "discrete"]
        else:
            vars_ = {"Integer": ["parameter", ""], "Boolean": ["constant", "discrete"], "String": ["parameter"]}[ty]
        for vi, var in enumerate(vars_):
            for (i, (sk, sv)), (j, (vk, vv)) in itertools.product(enumerate(kinds), enumerate(kinds)):
                mods = [f"start = {sv}"] if sv is not None else []
                fx = (None, "true", "false")[(i + 2 * j + vi) % 3]
                if fx:
                    mods.append(f"fixed = {fx}")
                if (i + j) % 2:
                    mods.reverse()
                if ty in ("Real", "Integer") and (i + j + vi) % 4 == 1:
                    mods.insert(len(mods) // 2, "min = 0, max = 10" if ty == "Integer" else "min = 0.5, nominal = 7, max = 10")
                m = ("(" + ", ".join(mods) + ")") if mods else ""
                val = f" = {vv}" if vv is not None else ""
                out.append((f"sym[{ty},{var or 'continuous'},start={sk},value={vk}]", f"{var + ' ' if var else ''}{ty} s{m}{val};"))
    return out


def sym_model(decls, header=""):
    body = "".join(f"  {d.replace(' s', f' s{k}', 1)}\n" for k, (_, d) in enumerate(decls))
    return "model M\n" + header + body + "  Real z;\nequation\n  z = 1;\nend M;\n"


# ---- whole-model family -----------------------------------------------------------------------------------
BALL_DECL = ["parameter Real g = 9.81;", "Real h(start = 1), v;", "discrete Real n(start = 0), m;", "Boolean b;", "Real e = h * g;"]
BALL_EQS = ["der(h) = v;", "der(v) = -g;", "b = h < 0;"]


def _when(cond, body, elsewhen=()):
    s = f"when {cond} then\n" + "".join(f"    {l}\n" for l in body)
    for c2, b2 in elsewhen:
        s += f"  elsewhen {c2} then\n" + "".join(f"    {l}\n" for l in b2)
    return s + "  end when;"


COUNT = "n = pre(n) + 1;"
BOUNCE = "reinit(v, -0.8 * v);"
# name -> function(ordinary equations) -> equation-section items in order
WHEN_FORMS = {
    "none": lambda e: e,
    "eq": lambda e: e + [_when("h < 0", [COUNT])],
    "reinit": lambda e: e + [_when("h < 0", [BOUNCE])],
    "eq+reinit": lambda e: e + [_when("h < 0", [COUNT, BOUNCE])],
    "reinit+eq": lambda e: e + [_when("h < 0", [BOUNCE, COUNT])],
    "body4": lambda e: e + [_when("h < 0", [COUNT, "m = pre(m) + h;", "reinit(v, -v);", "reinit(h, 0);"])],
    "two": lambda e: e + [_when("h < 0", [COUNT, BOUNCE]), _when("time > 2", ["m = pre(m) + h * 0.5;"])],
    "two-same": lambda e: e + [_when("h < 0", [COUNT]), _when("h < 0", ["m = pre(n) + 1;"])],
    "mid": lambda e: e[:1] + [_when("h < 0", [COUNT, BOUNCE])] + e[1:],
    "first": lambda e: [_when("h < 0", [COUNT])] + e,
    "cond-and": lambda e: e + [_when("h < 0 and v < 0", [COUNT, BOUNCE])],
    "cond-var": lambda e: e + [_when("b", [COUNT])],
    "cond-not": lambda e: e + [_when("not h >= 0", [COUNT])],
    "cond-sample": lambda e: e + [_when("sample(0, 0.5)", [COUNT])],
    "cond-pre": lambda e: e + [_when("pre(n) < 3 and b", [COUNT])],
    "terminate": lambda e: e + [_when("h < -5", ['terminate("below ground & <lost>");']), _when("h < 0", [COUNT])],
    "assert": lambda e: e[:2] + ['assert(h > -1, " fell <through> & ");'] + e[2:] + [_when("h < 0", [COUNT])],
    "assert-only": lambda e: e + ['assert(h > -1, "fell through");', "assert(v < 100, \"fast\");"],
}
WHEN_QUICK_SKIP = ("two-same", "assert-only")
INIT1, INIT2 = ["h = 1;"], ["h = 1;", "v = 2 * g;"]
# name -> function(equation-section items) -> list of (section keyword, items)
SECTION_LAYOUTS = {
    "no-initial": lambda e: [("equation", e)],
    "initial-first-1": lambda e: [("initial equation", INIT1), ("equation", e)],
    "initial-first-2": lambda e: [("initial equation", INIT2), ("equation", e)],
    "initial-last-2": lambda e: [("equation", e), ("initial equation", INIT2)],
    "initial-around": lambda e: [("initial equation", INIT1), ("equation", e), ("initial equation", ["v = 2 * g;"])],
    "initial-between": lambda e: [("equation", e[:1]), ("initial equation", INIT2), ("equation", e[1:])],
    "initial-der": lambda e: [("initial equation", ["der(h) = 0;", "n = 0;", "v + h = g * 0.5;"]), ("equation", e)],
    "initial-dup": lambda e: [("initial equation", ["der(h) = v;", "b = h < 0;"]), ("equation", e)],
}
EMBEDS = ("top", "sub", "sub2", "extends", "pkg", "nested")


def _class(name, decl, sections, kind="model"):
    s = f"{kind} {name}\n" + "".join(f"  {d}\n" for d in decl)
    for kw, items in sections:
        s += kw + "\n" + "".join(f"  {i}\n" for i in items)
    return s + f"end {name};\n"


def struct_text(layout, form, embed):
    sections = SECTION_LAYOUTS[layout](WHEN_FORMS[form](list(BALL_EQS)))
    if embed == "top":
        return _class("M", BALL_DECL, sections), "M"
    if embed == "pkg":
        return "package P\n" + _class("M", BALL_DECL, sections) + "end P;\n", "P.M"
    ball = _class("Ball", BALL_DECL, sections)
    if embed == "extends":
        return ball + _class("M", ["extends Ball;", "Real s = h + 1;"], [("initial equation", ["s = 0;"])] if "initial" in layout else []), "M"
    if embed == "sub":
        return ball + _class("M", ["Ball b1;", "Real s;"], [("equation", ["s = b1.h + b1.e;"])]), "M"
    if embed == "nested":
        return (ball + _class("Box", ["Ball b1(h(start = 3));", "Real s;"], [("initial equation", ["s = 1;"]), ("equation", ["der(s) = b1.v;"])])
                + _class("M", ["Box o, o2(b1(g = 1.5));", "Real t = o.s - o2.b1.h;"], [])), "M"
    return ball + _class("M", ["Ball b1, b2(g = 3, h(start = 2.5));", "Real s(start = 0.25);"],
                         [("initial equation", ["s = b2.h;"]), ("equation", ["der(s) = b1.h + b2.h;"])]), "M"


ELSEWHEN = [("elsewhen", _when("h < 0", [COUNT], [("h > 2", ["n = 0;"])])),
            ("elsewhen", _when("h < 0", [COUNT, BOUNCE], [("h > 2", ["n = 0;"]), ("time > 5", ["n = 1;"])]))]


# connectors (flow variables, connection equations generated by flatten), input / output / final / inner prefixes (none of them is a
# variability), a user function next to a when-equation and an initial equation
MISC_MODELS = [
    ("circuit", "connector C\n  Real e;\n  flow Real f;\nend C;\n" + _class("R", ["C p, n;", "parameter Real r(start = 0.5) = 10;"], [("equation", ["p.e - n.e = r * p.f;", "p.f + n.f = 0;"])])
     + _class("M", ["R r1, r2(r = 2 * r1.r), r3;", "discrete Real k(start = 0);"],
              [("initial equation", ["r1.p.e = 0;"]), ("equation", ["connect(r1.n, r2.p);", "connect(r2.n, r3.p);", "connect(r3.n, r1.p);", "r1.p.e = sin(time);", _when("r1.p.f > 1", ["k = pre(k) + 1;"])])])),
    ("prefixes", _class("M", ["input Real u(start = 1);", "output Real y;", "input Boolean ub;", "output Integer yi(start = 2);", "final parameter Real fp = 1.5;", "inner Real w(start = -1);",
                              "discrete output Real dy(start = 0);", "parameter input Real pu = 2.5;", "constant Integer ci = -2;", "final constant Boolean cb = true;", "discrete Integer di(start = 1, fixed = true);"],
                        [("initial equation", ["w = 1;"]), ("equation", ["y = u * fp + pu;", "yi = ci;", "der(w) = -u;", _when("ub", ["dy = pre(dy) + w;", "di = pre(di) + ci;"])])])),
    ("function+when", FUNCS + _class("M", ["Real x(start = 1), z;", "discrete Real c;"], [("initial equation", ["z = f2(x, 1);"]),
                                                                                       ("equation", ["der(x) = f1(x);", "z = f3(x, x, 2);", _when("f2(x, z) > f2(x, z)", ["c = f1(pre(c));", "reinit(x, f3(1, 1, x));"])])])),
    ("xml-vocabulary-names", _class("M", ["Real real(start = 1), local, apply, operator_, item = 2, value(start = 3) = real, name, equal, cond;", "parameter Real builtin = 1, component = builtin, modifier(start = 1) = 2;",
                                          "discrete Real class_, equation_;", "Boolean true_, false_(start = false);"],
                                    [("initial equation", ["real = local;"]), ("equation", ["der(real) = local * builtin;", "local = apply + component;", "apply = operator_ - modifier;", "operator_ = name;", "name = equal / cond;",
                                                                                            "equal = 1;", "cond = 2;", "true_ = real > local;", "false_ = not true_;",
                                                                                            _when("true_ and not false_", ["class_ = pre(equation_);", "equation_ = pre(class_) + value;"])])])),
    ("declaration-equations-only", _class("M", ["parameter Real k = 2;", "Real x = k * time;", "Real y(start = 1) = -x;", "Boolean b = x > y;", "Integer i = 3;", "discrete Real d = 4.5;"], [("initial equation", ["x = 0;"])])),
]


def struct_models(tier):
    out = []
    for (i, layout), (j, form), (k, embed) in itertools.product(enumerate(SECTION_LAYOUTS), enumerate(WHEN_FORMS), enumerate(EMBEDS)):
        if tier != "thorough":
            # quick: every layout x every common form at top level; the other instantiations on a diagonal
            if form in WHEN_QUICK_SKIP or (embed != "top" and (i + j + k) % 2):
                continue
        text, cls = struct_text(layout, form, embed)
        out.append((f"struct[{layout},when={form},{embed}]", text, cls, {}))
    for k, (name, w) in enumerate(ELSEWHEN):
        for layout in ("no-initial", "initial-first-2"):
            # the when-equation is the 4th equation of the class
            out.append(("struct[elsewhen]", _class("M", BALL_DECL, SECTION_LAYOUTS[layout](BALL_EQS + [w])), "M", {3: "elsewhen"}))
    out += [(f"struct[{cid}]", text, "M", {}) for cid, text in MISC_MODELS]
    # modifications that turn a literal value into an expression (and back) on the way down the hierarchy
    sub = _class("A", ["parameter Real k(start = 2) = 3;", "parameter Real q(start = 1) = 2 * k;", "Real x(start = k);"], [("initial equation", ["x = k;"]), ("equation", ["der(x) = -k * x + q;"])])
    for k, mod in enumerate(["", "(k = 5)", "(k = 2 * r)", "(q = 4)", "(q(start = r) = 4)", "(k(start = -1) = r, q = -6.5)", "(x(start = 0.5), q = k + r)"]):
        out.append((f"struct[modified-submodel,{mod or 'unmodified'}]", sub + _class("M", ["parameter Real r = 1.25;", f"A a{mod};", "A a0;"], [("equation", [])]), "M", {}))
    return out


# ---------------------------------------------------------------------------------------------------------
# operators without a value-level meaning in the reference semantics: uninterpreted functions of their operands
OPAQUE = {"pre", "edge", "change", "sample", "noEvent", "smooth", "delay", "initial", "terminal"}


class XRef(Ref):
    def ev_expr(self, e):
        from pymoca import ast
        op = e.operator.name if isinstance(e.operator, ast.ComponentRef) else e.operator
        if op in OPAQUE:
            return ops.uf("op_" + op, len(e.operands))(*[self.ev(o) for o in e.operands])
        return super().ev_expr(e)


def xml_to_ast(el):
    """Rebuild pymoca AST nodes from the generator's XML vocabulary."""
    from pymoca import ast
    tag = el.tag
    if tag == "real":
        txt = el.get("value")
        if txt in ("True", "False"):
            return ast.Primary(value=(txt == "True"))
        try:
            return ast.Primary(value=int(txt))
        except ValueError:
            pass
        try:
            return ast.Primary(value=float(txt))
        except ValueError:
            return ast.Primary(value=txt)  # a string literal
    if tag == "local":
        return ast.ComponentRef(name=el.get("name"))
    if tag == "apply":
        return ast.Expression(operator=el.get("builtin"), operands=[xml_to_ast(c) for c in el])
    if tag == "operator":
        return ast.Expression(operator=el.get("name"), operands=[xml_to_ast(c) for c in el])
    raise EncodingGap("xml element " + str(tag))


def shape(node):
    """Operator/operand skeleton of an AST expression (for the 'operator for operator' comparison)."""
    from pymoca import ast
    if isinstance(node, ast.Primary):
        v = node.value
        if isinstance(v, bool):
            return ("lit", "Boolean", v)
        return ("lit", float(v) if isinstance(v, (int, float)) else v)
    if isinstance(node, ast.ComponentRef):
        return ("ref", node.name)
    if isinstance(node, ast.Symbol):
        return ("ref", node.name)
    if isinstance(node, ast.Expression):
        op = node.operator.name if isinstance(node.operator, ast.ComponentRef) else node.operator
        return ("op", op, tuple(shape(o) for o in node.operands))
    raise EncodingGap("flat node " + type(node).__name__)


def literal_of(v):
    """The literal a flat start/value attribute holds, or None (absent, or an expression)."""
    from pymoca import ast
    if isinstance(v, ast.Primary):
        return v.value
    if isinstance(v, ast.Expression) and v.operator == "-" and len(v.operands) == 1 and isinstance(v.operands[0], ast.Primary) \
            and isinstance(v.operands[0].value, (int, float)) and not isinstance(v.operands[0].value, bool):
        return -v.operands[0].value  # a negative literal is parsed as a unary minus expression
    return None


def same_literal(got, lit):
    """<real value=...> element against a flat literal: same kind (Boolean / number / string) and same value."""
    if got.tag != "real":
        return False
    txt = got.get("value")
    if isinstance(lit, str):
        return txt == lit
    if isinstance(lit, bool) or txt in ("True", "False"):
        return isinstance(lit, bool) and txt == str(lit)
    try:
        return float(txt) == float(lit)
    except (TypeError, ValueError):
        return False


def check_text(col, case, text, per=None, cls="M"):
    from pymoca import ast, parser
    from pymoca.backends.xml import generator as xg
    per = per or {}
    rp = {"model_text": text, "class": cls}
    try:
        tree0 = parser.parse(text, bypass_cache=True)
        xml = xg.generate(tree0, cls)
    except Exception as e:
        col.violation(case + ":raises:" + type(e).__name__, f"xml generate() raises {type(e).__name__}: {str(e)[:120]}", rp)
        return
    try:
        root = etree.fromstring(xml.encode())
    except Exception as e:
        col.violation(case + ":not-well-formed", f"output is not well-formed XML: {e}", dict(rp, xml=xml[:2000]))
        return
    # the same parsed tree generates the same text again (generate() works on a copy)
    try:
        again = xg.generate(tree0, cls)
    except Exception as e:
        again = f"{type(e).__name__}: {e}"
    if again != xml:
        col.violation(case + ":second-call", "a second generate() call on the same parsed tree returns a different text", dict(rp, second=again[:2000]))
    flat = pipeline.flat_reference(text, cls)
    fc = flat.classes[cls]
    cdefs = [c for c in root.iter("classDefinition") if c.get("name") == cls]
    if len(cdefs) != 1 or cdefs[0].find("class") is None:
        col.violation(case + ":class", f"{len(cdefs)} classDefinition elements named {cls}", dict(rp, xml=xml[:3000]))
        return
    klass = cdefs[0].find("class")
    comps = klass.findall("component")
    names = [c.get("name") for c in comps]
    if names != list(fc.symbols.keys()):
        col.violation(case + ":components", f"component elements {names[:8]} differ from the flat variables {list(fc.symbols.keys())[:8]}", dict(rp, xml=xml[:3000]))
        return
    for c, (n, s) in zip(comps, fc.symbols.items()):
        cid = per.get(n, n)
        b = c.findall("builtin")
        if len(b) != 1 or b[0].get("name") != s.type.name:
            col.violation(f"{case}:{cid}:type", f"component {n}: builtin type {[x.get('name') for x in b]}, flat type {s.type.name}", rp)
        want_var = next((v for v in ("discrete", "parameter", "constant") if v in s.prefixes), None)
        if c.get("variability") != want_var:
            col.violation(f"{case}:{cid}:variability", f"component {n}: variability {c.get('variability')}, flat prefixes {s.prefixes}", rp)
        items = {}
        for mod in c.findall("modifier"):
            for it in mod.findall("item"):
                if it.get("name") in items or len(it) != 1:
                    col.violation(f"{case}:{cid}:{it.get('name')}", f"component {n}: item {it.get('name')} occurs twice or has {len(it)} children", rp)
                    continue
                items[it.get("name")] = it[0]
        for attr in ("start", "value"):
            lit = literal_of(getattr(s, attr))
            got = items.get(attr)
            if lit is None:
                if got is not None:
                    col.violation(f"{case}:{cid}:{attr}", f"component {n}: {attr} item ({got.get('value')!r}) present but the flat variable has no literal {attr}", rp)
                continue
            if got is None:
                col.violation(f"{case}:{cid}:{attr}", f"component {n}: {attr} = {lit!r} missing in the XML", rp)
                continue
            if not same_literal(got, lit):
                col.violation(f"{case}:{cid}:{attr}", f"component {n}: {attr} is {got.get('value')!r} in the XML, {lit!r} in the flat model", rp)
        fx = s.fixed.value if isinstance(s.fixed, ast.Primary) else None
        if bool(fx) != ("fixed" in items and items["fixed"].tag == "true"):
            col.violation(f"{case}:{cid}:fixed", f"component {n}: fixed = {fx} in the flat model, XML item {'present' if 'fixed' in items else 'absent'}", rp)
    secs = klass.findall("equation")
    if len(secs) > 1:
        col.violation(case + ":equation-sections", f"{len(secs)} equation sections in one class", rp)
        return
    xeqs = list(secs[0]) if secs else []
    if len(xeqs) != len(fc.equations):
        col.violation(case + ":n-equations", f"{len(xeqs)} equation elements for {len(fc.equations)} flat equations ({len(fc.initial_equations)} flat initial equations)", rp)
        return
    ref = XRef(flat, cls)

    def meaning(ecase, k, what, xa, fa):
        """z3: the XML expression and the flat expression are the same function of the variables."""
        if isinstance(fa, ast.Primary) and isinstance(fa.value, str):
            return  # string literal (assert message): compared concretely by shape()
        zx, zf = ref.ev(xa), ref.ev(fa)
        r, m = equiv.check(col, list(ref.div.nonzero()) + [zx != zf], 10000)
        if r == "sat":
            col.violation(f"{case}:{ecase}:meaning", f"equation {k} {what}: the XML expression evaluates differently from the flat equation", rp)
        elif r == "unknown":
            col.note_inconclusive(f"{case}:{ecase}: solver unknown")

    def compare(ecase, k, xe, fe):
        """One XML equation element against one flat equation (recursively for the body of a when-equation).
        Returns False after reporting a structural difference."""
        if isinstance(fe, ast.Equation):
            if xe.tag != "equal" or len(xe) != 2:
                col.violation(f"{case}:{ecase}:shape", f"equation {k}: element <{xe.tag}> with {len(xe)} children, expected <equal> with 2", rp)
                return False
            xl, xr = xml_to_ast(xe[0]), xml_to_ast(xe[1])
            if (shape(xl), shape(xr)) != (shape(fe.left), shape(fe.right)):
                side = (shape(xr), shape(fe.right)) if shape(xr) != shape(fe.right) else (shape(xl), shape(fe.left))
                col.violation(f"{case}:{ecase}:structure", f"equation {k}: XML tree {side[0]} differs from the flat equation {side[1]} operator for operator", rp)
                return False
            meaning(ecase, k, "lhs", xl, fe.left)
            meaning(ecase, k, "rhs", xr, fe.right)
            return True
        if isinstance(fe, ast.Function):  # equation-level call: reinit(v, e), assert(c, "message")
            if xe.tag != "apply":
                col.violation(f"{case}:{ecase}:shape", f"equation {k}: element <{xe.tag}>, expected <apply> for the call of {fe.name}", rp)
                return False
            xa = xml_to_ast(xe)
            want = ("op", fe.name, tuple(shape(a) for a in fe.arguments))
            if shape(xa) != want:
                col.violation(f"{case}:{ecase}:structure", f"equation {k}: XML tree {shape(xa)} differs from the flat equation {want} operator for operator", rp)
                return False
            for i, (x1, f1) in enumerate(zip(xa.operands, fe.arguments)):
                meaning(ecase, k, f"{fe.name} argument {i + 1}", x1, f1)
            return True
        if isinstance(fe, ast.WhenEquation):
            if xe.tag != "when":
                col.violation(f"{case}:{ecase}:shape", f"equation {k}: element <{xe.tag}>, expected <when>", rp)
                return False
            conds, thens = xe.findall("cond"), xe.findall("then")
            if len(conds) != len(fe.conditions) or len(thens) != len(fe.blocks) or len(xe) != len(conds) + len(thens):
                col.violation(f"{case}:{ecase}:when-branches", f"equation {k}: <when> has {len(conds)} <cond> and {len(thens)} <then> among {len(xe)} children, "
                              f"the flat when-equation has {len(fe.conditions)} conditions and {len(fe.blocks)} branches (when / elsewhen)", rp)
                return False
            ok = True
            for bi, (ce, te, fcnd, fblk) in enumerate(zip(conds, thens, fe.conditions, fe.blocks)):
                if len(ce) != 1 or shape(xml_to_ast(ce[0])) != shape(fcnd):
                    col.violation(f"{case}:{ecase}:structure", f"equation {k}: condition {bi + 1} of the XML when-equation {[shape(xml_to_ast(x)) for x in ce]} "
                                  f"differs from the flat condition {shape(fcnd)} operator for operator", rp)
                    ok = False
                    continue
                meaning(ecase, k, f"when-condition {bi + 1}", xml_to_ast(ce[0]), fcnd)
                if len(te) != len(fblk):
                    col.violation(f"{case}:{ecase}:when-body", f"equation {k}: branch {bi + 1} of the XML when-equation has {len(te)} elements for {len(fblk)} flat equations", rp)
                    ok = False
                    continue
                for x1, f1 in zip(te, fblk):
                    ok = compare(ecase, k, x1, f1) and ok
                    col.bump("when_body_equations_compared")
            col.bump("when_equations_compared")
            return ok
        raise EncodingGap("flat equation " + type(fe).__name__)

    for k, (xe, fe) in enumerate(zip(xeqs, fc.equations)):
        ecase = per.get(k, f"eq{k}")
        if isinstance(fe, ast.Equation) and isinstance(fe.left, ast.Symbol) and fe.left.name in per:
            ecase = per[fe.left.name] + ":declaration-equation"
        try:
            compare(ecase, k, xe, fe)
        except EncodingGap as g:
            col.append("encoding_gaps", f"{case}:{ecase}: {g}")
    col.bump("equations_compared", len(xeqs))
    col.bump("components_compared", len(comps))
    col.bump("initial_equations_in_flat_models", len(fc.initial_equations))


def work(item):
    kind, payload = item
    col = Collector()
    try:
        if kind in ("expr", "bexpr", "lexpr"):
            per = {k: ("lhs:" if kind == "lexpr" else "expr:") + E.pr(t) for k, t in enumerate(payload)}
            check_text(col, "expr", expr_model(payload, boolean=(kind == "bexpr"), left=(kind == "lexpr")), per)
            col.sample({"equation": (E.pr(payload[0]) + " = y0") if kind == "lexpr" else ("y0 = " + E.pr(payload[0]))}, 1)
        elif kind in ("sym", "symx"):
            per = {f"s{k}": cid for k, (cid, _) in enumerate(payload)}
            check_text(col, "sym", sym_model(payload, SYM_HEADER if kind == "symx" else ""), per)
            col.sample({"declaration": payload[0][1]}, 1)
        else:
            for cid, text, cls, per in payload:
                check_text(col, cid, text, per, cls)
                col.bump("programs")
            col.bump("programs", -1)
            col.sample({"model": payload[0][0]}, 1)
        col.bump("programs")
    except Exception:
        col.harness_error(f"{kind}: " + traceback.format_exc()[-1200:])
    return col


WARMUP = FUNCS + _class("W", BALL_DECL + ["Real a(start = -1.5, fixed = true) = 2 * g;", "Boolean q = not b or h >= 1 and v <> 2;", "parameter String s = \"x\";"],
                        [("initial equation", INIT2), ("equation", BALL_EQS + [_when("h < 0", [COUNT, BOUNCE]), "e + f3(h, 1, v) / 2 ^ g = -sin(time) * 1e-3;"])])


def main():
    a = std_args(PROP)
    if a.replay:
        c = Collector()
        r = json.load(open(a.replay))["replay"]
        check_text(c, "replay", r["model_text"], None, r.get("class", "M"))
        print(c.violations[:3])
        return 1 if c.violations else 0
    rep = Report(PROP, a.tier, "translation_validation", a.seed)
    trs, ctrs, btrs, ltrs = trees(a.tier), call_trees(a.tier), bool_trees(a.tier), lhs_trees(a.tier)
    syms, symx = symbol_models(a.tier), symbol_cross(a.tier)
    structs = struct_models(a.tier)

    def chunks(kind, xs, n):
        return [(kind, xs[i:i + n]) for i in range(0, len(xs), n)]
    items = (chunks("struct", structs, STRUCT_BATCH) + chunks("symx", symx, SYM_BATCH) + chunks("expr", trs, BATCH) + chunks("expr", ctrs, BATCH)
             + chunks("bexpr", btrs, BATCH) + chunks("lexpr", ltrs, BATCH) + chunks("sym", syms, BATCH))
    try:
        # the ANTLR parser builds its prediction cache on first use (seconds): do that once, before the workers are forked
        pipeline.parse_text(WARMUP)
    except Exception:
        pass
    # a work item costs ~0.3 s once the parser is warm, a forked worker several seconds before its first result (copy-on-write of
    # the warmed-up heap): worker processes only pay off for many items per worker
    for col in run_parallel(work, items, min(a.jobs, 1 + len(items) // 120)):
        rep.merge(col)
    # canary: a wrong XML tree must be refuted by the meaning comparison
    c = Collector()
    from pymoca import ast
    flat = pipeline.flat_reference(expr_model([E.Bn("-", E.V("a"), E.V("b"))]), "M")
    ref = XRef(flat, "M")
    r, _ = equiv.check(c, [ref.ev(ast.Expression(operator="-", operands=[ast.ComponentRef(name="b"), ast.ComponentRef(name="a")])) != ref.ev(flat.classes["M"].equations[0].right)])
    rep.coverage["canary_detected"] = r == "sat"
    if r != "sat":
        rep.harness_error("canary: swapped operands not detected")
    # canary for the opaque operators: pre(a) against pre(b) must be refuted as well
    r2, _ = equiv.check(c, [ref.ev(ast.Expression(operator="pre", operands=[ast.ComponentRef(name="a")])) != ref.ev(ast.Expression(operator="pre", operands=[ast.ComponentRef(name="b")]))])
    rep.coverage["canary_opaque_operator_detected"] = r2 == "sat"
    if r2 != "sat":
        rep.harness_error("canary: pre(a) vs pre(b) not detected")
    cov = rep.coverage
    cov["disagreements_checked"] = rep.queries.get("sat", 0)
    cov["functions_encoded"] = ["backends.xml.generator.generate / XmlGenerator (real code; output parsed back and translated to z3 through ast2z3)"]
    cov["bounds"] = (f"{len(trs)} arithmetic expression trees (all ordered operator pairs of + - * / ^ in both nestings, unary +/-, sin/cos/tan/der/time, n-ary calls, equal sibling operands, "
                     f"numeric literals needing many digits or exponents); {len(ctrs)} call trees (user functions of 1-3 arguments, smooth/noEvent/delay/pre, equal sibling operands, nested calls); "
                     f"{len(btrs)} Boolean trees (6 relational operators, not/and/or in both nestings, Boolean literals, pre/edge); {len(ltrs)} of these trees again as the LEFT side of the equation; "
                     f"{len(syms)} + {len(symx)} variable declarations (Real/Integer/Boolean/String x continuous/discrete/parameter/constant x start in none/literal/negative literal/reference/expression "
                     "x value in the same kinds x fixed absent/true/false, modifier order, min/max/nominal present, long literals); "
                     f"{len(structs)} whole models: {len(SECTION_LAYOUTS)} layouts of equation / initial equation sections x {len(WHEN_FORMS)} when-equation forms (equations and reinit in the body, "
                     "several when-equations, position among the equations, compound / negated / Boolean / sample / pre conditions, equation-level assert and terminate with string arguments, elsewhen) "
                     "x instantiation as top-level model / sub-model once / twice with modifications / base class / class in a package / sub-model of a sub-model (quick: every layout x form at top level, "
                     "the other instantiations on every second combination), plus a connector circuit, input/output/final/inner prefixes, user functions inside when-equations and initial equations, "
                     "variables named like the XML vocabulary, declaration equations only, and sub-models whose parameter values are modified between literal and expression; "
                     "every model generated twice from the same parsed tree")
    rep.assumptions += ["the flat model is a fresh parse + tree.flatten of the same text", "meaning comparison uses the reference semantics vk/smt/ast2z3.py; elementary functions and "
                        "pre/edge/sample/noEvent/smooth/delay uninterpreted",
                        "start/value given as non-literal expressions are not exported by the backend: the check requires that they leave no item",
                        "if-expressions, if/for-equations and arrays are outside the backend's subset (generate() raises or drops subscripts) and are not enumerated"]
    if not cov.get("programs"):
        rep.harness_error("no program was compared")
    return rep.finish()


if __name__ == "__main__":
    sys.exit(main())
