"""C25 - ModelicaXML backend mirrors the flat model (translation validation, Engine B).

Real code: backends.xml.generator.generate (deepcopy + flatten + XmlGenerator).  The XML text is parsed
back (lxml) into pymoca AST nodes - <apply builtin=op> / <operator name=op> -> Expression, <real> ->
Primary, <local> -> ComponentRef - and compared with a fresh flatten of the same text:
  structure  one <component> per flat variable (name, builtin type, variability, literal start/value,
             fixed) and one <equal> per flat equation whose tree matches the flat equation operator for
             operator and operand for operand, in order;
  meaning    z3 proves, for all values of all variables, that each XML equation's two sides equal the flat
             equation's two sides under the reference semantics (ast2z3) - so a literal printed with lost
             digits or a collapsed operand shows up as `sat` even where the shapes agree."""
import json
import sys
import traceback

from lxml import etree

from props import c24
from vk import exprgen as E
from vk.report import Collector, EncodingGap, Report, run_parallel, std_args
from vk.smt import equiv, pipeline
from vk.smt.ast2z3 import Ref

PROP = "C25"
BATCH = 20


def trees(tier):
    out = list(c24.arith_trees(tier)) + list(c24.literal_trees(tier))
    # repeated equal literals / operands as siblings, n-ary calls, nested unary operators
    out += [E.Bn("+", E.N("3"), E.N("3")), E.Bn("*", E.N("0.5"), E.N("0.5")), E.Call("max", E.N("2"), E.N("2")), E.Call("min", E.V("a"), E.V("a")),
            E.Bn("-", E.V("a"), E.V("a")), E.Bn("+", E.Bn("*", E.N("2"), E.V("a")), E.Bn("*", E.N("2"), E.V("a"))),
            E.Call("atan2", E.V("a"), E.V("b")), E.Call("max", E.V("a"), E.Bn("+", E.V("b"), E.N("1"))),
            E.Un("+", E.V("a")), E.Un("-", E.Un("+", E.V("a"))), E.Un("+", E.Un("-", E.V("a"))), E.Bn("*", E.Un("+", E.V("a")), E.Un("-", E.V("b"))),
            E.Call("abs", E.Un("-", E.V("a"))), E.Call("sqrt", E.Bn("+", E.Bn("*", E.V("a"), E.V("a")), E.N("1")))]
    return out


def expr_model(trs):
    decl = "  Real a, b, c, d, x;\n" + "".join(f"  Real y{k};\n" for k in range(len(trs)))
    eqs = "".join(f"  y{k} = {E.pr(t)};\n" for k, t in enumerate(trs))
    return "model M\n" + decl + "equation\n" + eqs + "end M;\n"


# variable families: (declaration, note)
def symbol_models(tier):
    types = [("Real", "1.5", "2.25"), ("Integer", "3", "4"), ("Boolean", "true", "false")]
    out = []
    for ty, v1, v2 in types:
        for var in ("", "parameter", "constant", "discrete"):
            for attr in ("none", "value", "start", "start+fixed", "value+start", "fixed-false"):
                if var in ("parameter", "constant") and "value" not in attr:
                    continue
                mods = []
                if "start" in attr:
                    mods.append(f"start = {v2}")
                if "fixed" in attr:
                    mods.append("fixed = true" if attr != "fixed-false" else "fixed = false")
                m = ("(" + ", ".join(mods) + ")") if mods else ""
                val = f" = {v1}" if "value" in attr else ""
                out.append((f"sym[{ty},{var or 'continuous'},{attr}]", f"{var + ' ' if var else ''}{ty} s{m}{val};"))
    lits = ["101325.5", "1234567.125", "0.1234567891", "1e-7", "6.02214076e23", "12345678"] + (["9007199254740993", "1e22", "0.30000000000000004"] if tier == "thorough" else [])
    for l in lits:
        out.append((f"sym[Real,lit-start,{l}]", f"Real s(start = {l});"))
        out.append((f"sym[Real,lit-value,{l}]", f"parameter Real s = {l};"))
        out.append((f"sym[Real,neg-start,{l}]", f"Real s(start = -{l});"))
    return out


def sym_model(decls):
    body = "".join(f"  {d.replace(' s', f' s{k}', 1)}\n" for k, (_, d) in enumerate(decls))
    return "model M\n" + body + "  Real z;\nequation\n  z = 1;\nend M;\n"


# ---------------------------------------------------------------------------------------------------------
def xml_to_ast(el):
    """Rebuild pymoca AST nodes from the generator's XML vocabulary."""
    from pymoca import ast
    tag = el.tag
    if tag == "real":
        txt = el.get("value")
        if txt in ("True", "False"):
            return ast.Primary(value=(txt == "True"))
        try:
            return ast.Primary(value=int(txt))
        except ValueError:
            return ast.Primary(value=float(txt))
    if tag == "local":
        return ast.ComponentRef(name=el.get("name"))
    if tag == "apply":
        return ast.Expression(operator=el.get("builtin"), operands=[xml_to_ast(c) for c in el])
    if tag == "operator":
        return ast.Expression(operator=el.get("name"), operands=[xml_to_ast(c) for c in el])
    raise EncodingGap("xml element " + tag)


def shape(node):
    """Operator/operand skeleton of an AST expression (for the 'operator for operator' comparison)."""
    from pymoca import ast
    if isinstance(node, ast.Primary):
        v = node.value
        return ("lit", float(v) if isinstance(v, (int, float)) and not isinstance(v, bool) else v)
    if isinstance(node, ast.ComponentRef):
        return ("ref", node.name)
    if isinstance(node, ast.Symbol):
        return ("ref", node.name)
    if isinstance(node, ast.Expression):
        op = node.operator.name if isinstance(node.operator, ast.ComponentRef) else node.operator
        return ("op", op, tuple(shape(o) for o in node.operands))
    raise EncodingGap("flat node " + type(node).__name__)


def check_text(col, case, text, per=None):
    from pymoca import ast, parser
    from pymoca.backends.xml import generator as xg
    per = per or {}
    try:
        xml = xg.generate(parser.parse(text, bypass_cache=True), "M")
    except Exception as e:
        col.violation(case + ":raises:" + type(e).__name__, f"xml generate() raises {type(e).__name__}: {str(e)[:120]}", {"model_text": text})
        return
    try:
        root = etree.fromstring(xml.encode())
    except Exception as e:
        col.violation(case + ":not-well-formed", f"output is not well-formed XML: {e}", {"model_text": text, "xml": xml[:2000]})
        return
    flat = pipeline.flat_reference(text, "M")
    fc = flat.classes["M"]
    cls = root.find(".//class")
    comps = cls.findall("component")
    names = [c.get("name") for c in comps]
    if names != list(fc.symbols.keys()):
        col.violation(case + ":components", f"component elements {names[:8]} differ from the flat variables {list(fc.symbols.keys())[:8]}", {"model_text": text, "xml": xml[:3000]})
        return
    for c, (n, s) in zip(comps, fc.symbols.items()):
        cid = per.get(n, n)
        b = c.find("builtin")
        if b is None or b.get("name") != s.type.name:
            col.violation(f"{case}:{cid}:type", f"component {n}: builtin type {None if b is None else b.get('name')}, flat type {s.type.name}", {"model_text": text})
        want_var = next((v for v in ("discrete", "parameter", "constant") if v in s.prefixes), None)
        if c.get("variability") != want_var:
            col.violation(f"{case}:{cid}:variability", f"component {n}: variability {c.get('variability')}, flat prefixes {s.prefixes}", {"model_text": text})
        items = {}
        mod = c.find("modifier")
        for it in (mod.findall("item") if mod is not None else []):
            items[it.get("name")] = it[0]
        for attr in ("start", "value"):
            v = getattr(s, attr)
            lit = v.value if isinstance(v, ast.Primary) else None
            if isinstance(v, ast.Expression) and v.operator == "-" and len(v.operands) == 1 and isinstance(v.operands[0], ast.Primary):
                lit = -v.operands[0].value  # a negative literal is parsed as a unary minus expression
            got = items.get(attr)
            if lit is None:
                if got is not None:
                    col.violation(f"{case}:{cid}:{attr}", f"component {n}: {attr} item present but the flat variable has none", {"model_text": text})
                continue
            if got is None:
                col.violation(f"{case}:{cid}:{attr}", f"component {n}: {attr} = {lit!r} missing in the XML", {"model_text": text})
                continue
            try:
                gv = xml_to_ast(got).value
            except Exception:
                gv = got.get("value")
            same = (gv == lit) if isinstance(lit, bool) or isinstance(gv, bool) else (float(gv) == float(lit) if not isinstance(gv, str) else False)
            if not same:
                col.violation(f"{case}:{cid}:{attr}", f"component {n}: {attr} is {got.get('value')!r} in the XML, {lit!r} in the flat model", {"model_text": text})
        fx = s.fixed.value if isinstance(s.fixed, ast.Primary) else None
        if bool(fx) != ("fixed" in items and items["fixed"].tag == "true"):
            col.violation(f"{case}:{cid}:fixed", f"component {n}: fixed = {fx} in the flat model, XML item {'present' if 'fixed' in items else 'absent'}", {"model_text": text})
    eqs = cls.find("equation")
    xeqs = list(eqs) if eqs is not None else []
    if len(xeqs) != len(fc.equations):
        col.violation(case + ":n-equations", f"{len(xeqs)} equation elements for {len(fc.equations)} flat equations", {"model_text": text})
        return
    ref = Ref(flat, "M")
    for k, (xe, fe) in enumerate(zip(xeqs, fc.equations)):
        ecase = per.get(k, f"eq{k}")
        if xe.tag != "equal" or len(xe) != 2:
            col.violation(f"{case}:{ecase}:shape", f"equation {k}: element <{xe.tag}> with {len(xe)} children, expected <equal> with 2", {"model_text": text})
            continue
        try:
            xl, xr = xml_to_ast(xe[0]), xml_to_ast(xe[1])
            if (shape(xl), shape(xr)) != (shape(fe.left), shape(fe.right)):
                col.violation(f"{case}:{ecase}:structure", f"equation {k}: XML tree {shape(xr)} differs from the flat equation {shape(fe.right)} operator for operator", {"model_text": text})
                continue
            for side, xa, fa in (("lhs", xl, fe.left), ("rhs", xr, fe.right)):
                zx, zf = ref.ev(xa), ref.ev(fa)
                r, m = equiv.check(col, list(ref.div.nonzero()) + [zx != zf], 10000)
                if r == "sat":
                    col.violation(f"{case}:{ecase}:meaning", f"equation {k} {side}: the XML expression evaluates differently from the flat equation", {"model_text": text})
                elif r == "unknown":
                    col.note_inconclusive(f"{case}:{ecase}: solver unknown")
        except EncodingGap as g:
            col.append("encoding_gaps", f"{case}:{ecase}: {g}")
    col.bump("equations_compared", len(xeqs))
    col.bump("components_compared", len(comps))


def work(item):
    kind, payload = item
    col = Collector()
    try:
        if kind == "expr":
            per = {k: f"expr:{E.pr(t)}" for k, t in enumerate(payload)}
            check_text(col, "expr", expr_model(payload), per)
            col.sample({"equation": "y0 = " + E.pr(payload[0])}, 1)
        else:
            per = {f"s{k}": cid for k, (cid, _) in enumerate(payload)}
            check_text(col, "sym", sym_model(payload), per)
            col.sample({"declaration": payload[0][1]}, 1)
        col.bump("programs")
    except Exception:
        col.harness_error(f"{kind}: " + traceback.format_exc()[-1200:])
    return col


def main():
    a = std_args(PROP)
    if a.replay:
        c = Collector()
        check_text(c, "replay", json.load(open(a.replay))["replay"]["model_text"])
        print(c.violations[:3])
        return 1 if c.violations else 0
    rep = Report(PROP, a.tier, "translation_validation", a.seed)
    trs = trees(a.tier)
    syms = symbol_models(a.tier)
    items = [("expr", trs[i:i + BATCH]) for i in range(0, len(trs), BATCH)] + [("sym", syms[i:i + BATCH]) for i in range(0, len(syms), BATCH)]
    for col in run_parallel(work, items, a.jobs):
        rep.merge(col)
    # canary: a wrong XML tree must be refuted by the meaning comparison
    c = Collector()
    from pymoca import ast
    flat = pipeline.flat_reference(expr_model([E.Bn("-", E.V("a"), E.V("b"))]), "M")
    ref = Ref(flat, "M")
    r, _ = equiv.check(c, [ref.ev(ast.Expression(operator="-", operands=[ast.ComponentRef(name="b"), ast.ComponentRef(name="a")])) != ref.ev(flat.classes["M"].equations[0].right)])
    rep.coverage["canary_detected"] = r == "sat"
    if r != "sat":
        rep.harness_error("canary: swapped operands not detected")
    cov = rep.coverage
    cov["disagreements_checked"] = rep.queries.get("sat", 0)
    cov["functions_encoded"] = ["backends.xml.generator.generate / XmlGenerator (real code; output parsed back and translated to z3 through ast2z3)"]
    cov["bounds"] = (f"{len(trs)} expression trees (all ordered operator pairs of + - * / ^ in both nestings, unary +/-, sin/cos/tan/der/time, n-ary calls, equal sibling operands, "
                     "numeric literals needing many digits or exponents) and {0} variable declarations (Real/Integer/Boolean x continuous/discrete/parameter/constant x value/start/fixed, "
                     "long literals)".format(len(syms)))
    rep.assumptions += ["the flat model is a fresh parse + tree.flatten of the same text", "meaning comparison uses the reference semantics vk/smt/ast2z3.py; elementary functions uninterpreted",
                        "start/value given as non-literal expressions are outside the backend's subset"]
    if not cov.get("programs"):
        rep.harness_error("no program was compared")
    return rep.finish()


if __name__ == "__main__":
    sys.exit(main())
