"""C06 - deep copies of a tree are independent of the original (bounded exhaustive history exploration;
harness props/h06.py).

History space: one deepcopy (hist_cc*: a copy of a copy, with an edit in between) followed by two edits (one in
the single-edit backend family), each an AST-API edit on any side and on any class of the library.  Families:
  hist, hist_cc       the six original edit kinds (add/remove symbol, equation, class; fresh payload nodes)
  hist_w, hist_cc_w   the same, but every tree is flattened BEFORE it is deep-copied and before the first edit
                      (whatever pymoca caches inside a tree while flattening is then copied / edited under)
  hist_x, hist_cc_x   at least one edit of the further kinds: add/remove initial equation, Tree.extend with a freshly
                      parsed file, and add_class / add_symbol whose payload was TAKEN FROM A TREE (find_class() copy or copy.deepcopy of a class
                      or symbol of the next tree or of the same tree - such copies still point to the parent they
                      were copied under)
  hist_be, hist_cc_be observed through the SymPy and XML backends (which deep-copy the tree themselves) instead of
                      tree.flatten: generate before the deepcopy, after it and after every edit
z3 enumerates the history tuples satisfying the family's constraint (all models, blocking clauses); for every
history the REAL code runs concretely: copy.deepcopy(tree), the edits, tree.flatten (or backend generate) of every
class of every tree after every edit, compared with oracle trees that were unpickled independently and received
only the edits of their side.

Why no value-level symbolic execution here: the property quantifies over histories only; tracing
deepcopy + flatten under CrossHair costs ~10 s per flatten (measured), which bounds a traced run to a few
dozen histories, whereas the concrete run covers the whole space.  The solver's role is reduced to
enumerating the space - stated as such."""
import json
import os
import sys

from vk.report import Collector, Report, run_parallel, std_args

PROP = "C06"
WHY = {0: "an edit raised on one of two equal trees only", 2: "flattening the ORIGINAL differs from the oracle after the edits",
       3: "flattening the COPY differs from the oracle after the edits", 4: "flattening the COPY OF THE COPY differs from the oracle after the edits"}
SIDES = ["original", "copy", "copy-of-copy"]

# enumeration id -> (k1 range, k2 range, constraint on (k1, k2) or None, number of (k1, k2) pairs)
ENUMS = {
    "base": ((0, 5), (0, 5), None, 36),
    "new": ((0, 12), (0, 12), "new", 169 - 36),   # at least one edit of a kind >= 6
    "one": ((0, 7), (-1, -1), None, 8),           # a single edit (plain kinds)
    "two": ((0, 7), (0, 7), None, 64),
}


def describe(func, tup, names):
    import props.h06 as h
    k1, s1, c1, k2, s2, c2 = tup
    hh = [f"{h.KINDS[k1]}({names[c1]}) on {SIDES[s1]}"]
    if k2 >= 0:
        hh.append(f"{h.KINDS[k2]}({names[c2]}) on {SIDES[s2]}")
    return hh


def work(item):
    lib, func, tuples = item
    os.environ["VERIF_PIN"] = "lib=" + lib
    import logging
    logging.disable(logging.CRITICAL)
    col = Collector()
    try:
        import importlib
        import vk.chstubs
        importlib.reload(vk.chstubs)
        import props.h06 as h
        importlib.reload(h)
        from props.hflat import LIBS
        names = LIBS[lib][1]
        for t in tuples:
            r = h.run(func, tuple(t))
            col.bump("histories")
            col.bump("histories_" + func)
            if r != 1:
                hh = describe(func, t, names)
                why = WHY.get(r, r)
                if func.endswith("_be") and r != 0:
                    why = why.replace("flattening", "the SymPy/XML code generated for")
                elif func.endswith("_w") and r != 0:
                    why += " (every tree was flattened before it was copied)"
                col.violation(f"{lib}:{func}:" + ";".join(hh), f"after deepcopy and the edits {hh}: {why}",
                              {"lib": lib, "function": func, "tuple": list(t), "library_text": str(LIBS[lib][0])})
        col.sample({"library": lib, "function": func, "history": describe(func, tuples[0], names)}, 1)
    except Exception as e:
        import traceback
        col.harness_error(f"{lib} {func}: " + traceback.format_exc()[-800:])
    return col


def enumerate_histories(enum, ns, n):
    """All history tuples of one family, by z3 (one solver per value of k1 to keep the blocking clauses short)."""
    import z3
    from vk.allsat import all_models
    (lo1, hi1), (lo2, hi2), cons, _ = ENUMS[enum]
    names = ["k1", "s1", "c1", "k2", "s2", "c2"]
    single = hi2 < 0
    out = []
    for k1 in range(lo1, hi1 + 1):
        rng = {"k1": (k1, k1), "k2": (lo2, hi2), "s1": (0, ns), "s2": (0, 0 if single else ns), "c1": (0, n - 1), "c2": (0, 0 if single else n - 1)}
        constraint = (lambda v: z3.Or(v["k1"] >= 6, v["k2"] >= 6)) if cons == "new" else None
        out += list(all_models(names, rng, constraint))
    return sorted(out)


def main():
    a = std_args(PROP)
    if a.replay:
        r = json.load(open(a.replay))["replay"]
        c = work((r["lib"], r["function"], [tuple(r["tuple"])]))
        print(c.violations[:1] or c.harness_errors[:1] or "holds")
        return 1 if c.violations else 0
    rep = Report(PROP, a.tier, "model_checking", a.seed)
    import props.h06  # registers the libraries of this check in hflat.LIBS
    from props.hflat import LIBS
    import time
    plan = [("comp", "hist", "base"), ("conn", "hist", "base"), ("alias", "hist", "base"), ("assembled", "hist", "base"),
            ("comp", "hist_cc", "base"), ("assembled", "hist_cc", "base"),
            # flattened before copied; imports of every spelling between the flattened and the edited class
            ("imp", "hist_w", "base"),
            # initial equations and payloads taken from a tree
            ("assembled", "hist_x", "new"),
            # observed through the backends, single edit
            ("comp", "hist_be", "one"), ("conn", "hist_be", "one"), ("alias", "hist_be", "one"), ("assembled", "hist_be", "one"),
            ("imp", "hist_be", "one")]
    if a.tier == "thorough":
        plan += [("redecl", "hist", "base"), ("func", "hist", "base"), ("imp", "hist", "base"),
                 ("conn", "hist_cc", "base"), ("alias", "hist_cc", "base"), ("redecl", "hist_cc", "base"),
                 ("comp", "hist_w", "base"), ("conn", "hist_w", "base"), ("alias", "hist_w", "base"), ("assembled", "hist_w", "base"),
                 ("redecl", "hist_w", "base"), ("imports", "hist_w", "base"),
                 ("comp", "hist_cc_w", "base"), ("imp", "hist_cc_w", "base"), ("assembled", "hist_cc_w", "base"),
                 ("comp", "hist_x", "new"), ("conn", "hist_x", "new"), ("alias", "hist_x", "new"), ("imp", "hist_x", "new"),
                 ("assembled", "hist_cc_x", "new"),
                 ("comp", "hist_be", "two"),
                 ("redecl", "hist_be", "one"), ("func", "hist_be", "one"),
                 ("comp", "hist_cc_be", "one"), ("imp", "hist_cc_be", "one"), ("assembled", "hist_cc_be", "one")]
    items, firsts = [], set()
    t0 = time.time()
    nq = 0
    for lib, func, enum in plan:
        n = len(LIBS[lib][1])
        ns = 2 if "_cc" in func else 1
        tuples = enumerate_histories(enum, ns, n)
        nq += len(tuples) + (ENUMS[enum][0][1] - ENUMS[enum][0][0] + 1)
        expected = ENUMS[enum][3] * ((ns + 1) * n) ** (1 if enum == "one" else 2)
        if len(tuples) != expected or len(set(tuples)) != expected:
            rep.harness_error(f"history enumeration for {lib}/{func}/{enum}: {len(tuples)} models, expected {expected}")
        # consecutive tuples share their first edit: the memoised oracle of a chunk is reused within it
        chunk = max(4 if func.endswith("_be") else 1, len(tuples) // (48 if len(tuples) > 3000 else 32))
        if func not in [items[i][1] for i in firsts]:
            firsts.add(len(items))
        for i in range(0, len(tuples), chunk):
            items.append((lib, func, tuples[i:i + chunk]))
    rep.solver_time += time.time() - t0
    rep.queries["sat"] = 0
    rep.coverage["z3_enumeration_queries"] = nq
    # longest items first: the pool hands items out one by one
    order = sorted(range(len(items)), key=lambda i: -len(items[i][2]) * (8 if items[i][1].endswith("_be") else 1))
    cols = dict(zip(order, run_parallel(work, [items[i] for i in order], a.jobs)))
    for i in sorted(cols, key=lambda i: (i not in firsts, i)):  # the first item of every function first (evidence samples)
        rep.merge(cols[i])
    cov = rep.coverage
    nh = cov.get("histories", 0)
    cov["states"] = max(1, nh)
    cov["transitions"] = max(1, 2 * nh)
    cov["traces_validated_against_impl"] = nh
    cov["exhaustive"] = not rep.harness_errors
    cov["functions_encoded"] = ["copy.deepcopy(ast.Tree) -> Class.__deepcopy__, ClassModificationArgument.__deepcopy__; Class.add_/remove_class/symbol/equation/"
                                "initial_equation; Class.find_class (private copy) and copy.deepcopy of a class / symbol as edit payload; tree.flatten; "
                                "backends.sympy.generator.generate, backends.xml.generator.generate "
                                "(real code, executed concretely on every history of the bounded space)"]
    cov["bounds"] = ("one deepcopy (hist_cc*: copy of a copy with an edit in between) followed by 2 edits (family 'one': 1 edit) x any side x any class of the library; "
                     "after each edit every class of every tree (and every place an edit can put a class) is observed and compared with the oracle. "
                     "Families: base = 6 kinds (add/remove symbol, equation, class with fresh payload nodes); new = 13 kinds with at least one of add/remove initial "
                     "equation, add_class(find_class copy from the next tree, same place), add_class(find_class copy from the same tree, into a new package next to it), "
                     "add_class(deepcopy of the next tree's class, into a new package), add_symbol(deepcopy of the next tree's symbol with its modifications), Tree.extend(freshly parsed file that adds a class to the same package); "
                     "one/two = 8 fresh-payload kinds, 1 or 2 edits. Functions: hist/hist_cc observe by tree.flatten; *_w additionally flatten every class of every "
                     "tree before each deepcopy and before the first edit; *_x = family new; *_be observe through the SymPy and XML backends (generate before the "
                     "deepcopy, after it and after each edit). Library 'imp': unqualified import in the enclosing package, renaming and single-class import in the "
                     "model, initial equation. Explored (library/function/family): " + ", ".join(f"{l}/{f}/{e}" for l, f, e in plan))
    rep.assumptions += ["the history space is enumerated completely by z3 (all models of the range constraints); no value-level symbolic reasoning: payload literals are fixed",
                        "oracle: independently unpickled trees receiving only the edits of their side, rebuilt from scratch for every distinct edit list "
                        "(payloads taken from a tree are taken from a separate rebuilt tree); in the backend families the oracle tree is a new object that no "
                        "backend has seen before",
                        "longer histories, other libraries, and trees that were flattened before the copy in the families without _w/_be are outside the claim"]
    return rep.finish()


if __name__ == "__main__":
    sys.exit(main())
