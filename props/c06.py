"""C06 - deep copies of a tree are independent of the original (bounded exhaustive history exploration;
harness props/h06.py).

History space: one deepcopy (hist_cc: a copy of a copy, with an edit in between) followed by two edits,
each any of six AST-API edits (add/remove symbol, equation, class) on either side and on any class of the
library.  z3 enumerates the history tuples satisfying the harness's precondition (all models, blocking
clauses); for every history the REAL code runs concretely: copy.deepcopy(tree), the edits, tree.flatten of
every class of every tree after every edit, compared with oracle trees that were unpickled independently
and received the same edits.

Why no value-level symbolic execution here: the property quantifies over histories only; tracing
deepcopy + flatten under CrossHair costs ~10 s per flatten (measured), which bounds a traced run to a few
dozen histories, whereas the concrete run covers the whole space.  The solver's role is reduced to
enumerating the space - stated as such."""
import json
import os
import sys

from vk.report import Collector, Report, run_parallel, std_args

PROP = "C06"
WHY = {0: "an edit raised on one of two equal trees only", 2: "flattening the ORIGINAL differs from the oracle after the edits",
       3: "flattening the COPY differs from the oracle after the edits", 4: "flattening the COPY OF THE COPY differs from the oracle after the edits"}
KINDS = ["add_symbol", "remove_symbol", "add_equation", "remove_equation", "add_class", "remove_class"]
SIDES = ["original", "copy", "copy-of-copy"]


def work(item):
    lib, func, tuples = item
    os.environ["VERIF_PIN"] = "lib=" + lib
    import logging
    logging.disable(logging.CRITICAL)
    col = Collector()
    try:
        import importlib
        import vk.chstubs
        importlib.reload(vk.chstubs)
        import props.h06 as h
        importlib.reload(h)
        from props.hflat import LIBS
        names = LIBS[lib][1]
        for t in tuples:
            k1, s1, c1, k2, s2, c2 = t
            if func == "hist":
                r = h._hist(k1, s1, c1, 51, k2, s2, c2, 52, 11, 12)
            else:
                r = h._hist_cc(k1, s1, c1, 51, k2, s2, c2, 52, 11)
            col.bump("histories")
            if r != 1:
                hh = [f"{KINDS[k1]}({names[c1]}) on {SIDES[s1]}", f"{KINDS[k2]}({names[c2]}) on {SIDES[s2]}"]
                col.violation(f"{lib}:{func}:" + ";".join(hh), f"after deepcopy and the edits {hh}: {WHY.get(r, r)}",
                              {"lib": lib, "function": func, "tuple": list(t), "library_text": str(LIBS[lib][0])})
        col.sample({"library": lib, "function": func, "history": [f"{KINDS[tuples[0][0]]} on {SIDES[tuples[0][1]]}", f"{KINDS[tuples[0][3]]} on {SIDES[tuples[0][4]]}"]}, 1)
    except Exception as e:
        import traceback
        col.harness_error(f"{lib} {func}: " + traceback.format_exc()[-800:])
    return col


def main():
    a = std_args(PROP)
    if a.replay:
        r = json.load(open(a.replay))["replay"]
        c = work((r["lib"], r["function"], [tuple(r["tuple"])]))
        print(c.violations[:1] or "holds")
        return 1 if c.violations else 0
    rep = Report(PROP, a.tier, "model_checking", a.seed)
    from props.hflat import LIBS
    from vk.allsat import all_models
    import time
    plan = [("comp", "hist"), ("conn", "hist"), ("alias", "hist"), ("assembled", "hist"), ("comp", "hist_cc"), ("assembled", "hist_cc")]
    if a.tier == "thorough":
        plan += [("redecl", "hist"), ("func", "hist"), ("conn", "hist_cc"), ("alias", "hist_cc"), ("redecl", "hist_cc")]
    items = []
    t0 = time.time()
    nq = 0
    for lib, func in plan:
        n = len(LIBS[lib][1])
        ns = 1 if func == "hist" else 2
        names = ["k1", "s1", "c1", "k2", "s2", "c2"]
        rng = {"k1": (0, 5), "k2": (0, 5), "s1": (0, ns), "s2": (0, ns), "c1": (0, n - 1), "c2": (0, n - 1)}
        tuples = sorted(all_models(names, rng))
        nq += len(tuples) + 1
        expected = 36 * (ns + 1) ** 2 * n * n
        if len(tuples) != expected:
            rep.harness_error(f"history enumeration for {lib}/{func}: {len(tuples)} models, expected {expected}")
        chunk = max(1, len(tuples) // 32)
        for i in range(0, len(tuples), chunk):
            items.append((lib, func, tuples[i:i + chunk]))
    rep.solver_time += time.time() - t0
    rep.queries["sat"] = 0
    rep.coverage["z3_enumeration_queries"] = nq
    for col in run_parallel(work, items, a.jobs):
        rep.merge(col)
    cov = rep.coverage
    nh = cov.get("histories", 0)
    cov["states"] = max(1, nh)
    cov["transitions"] = max(1, 2 * nh)
    cov["traces_validated_against_impl"] = nh
    cov["exhaustive"] = not rep.harness_errors
    cov["functions_encoded"] = ["copy.deepcopy(ast.Tree) -> Class.__deepcopy__, ClassModificationArgument.__deepcopy__; Class.add_/remove_class/symbol/equation; tree.flatten "
                                "(real code, executed concretely on every history of the bounded space)"]
    cov["bounds"] = ("one deepcopy (hist_cc: copy of a copy with an edit in between) followed by 2 edits, each any of 6 kinds x any side x any class of the library; after each edit "
                     "every class of every tree is flattened and compared with the oracle; libraries: " + ", ".join(f"{l}/{f}" for l, f in plan))
    rep.assumptions += ["the history space is enumerated completely by z3 (all models of the range constraints); no value-level symbolic reasoning: payload literals are fixed",
                        "oracle: independently unpickled trees receiving the same edits",
                        "longer histories and other libraries are outside the claim"]
    return rep.finish()


if __name__ == "__main__":
    sys.exit(main())
