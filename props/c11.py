"""C11 - DAE residual equals the Modelica meaning of the flat equations (Engine B).

Real code executed: parser._parse, tree.flatten, casadi.generator.generate (default options),
Model.dae_residual_function / initial_residual_function.  For every enumerated model the real
residual function is expanded to SX and translated to z3; the reference is ast2z3 of a fresh
flat AST; z3 decides `exists point: impl != lhs - rhs` per residual element (unsat = holds for all
reals), matched up to a permutation inside one equation's block.
"""
import sys
import traceback

from vk.paths import REPO
from vk import families
from vk.report import Collector, EncodingGap, Report, run_parallel, std_args
from vk.smt import pipeline
from vk.smt.ast2z3 import Ref

PROP = "C11"
BATCH = 12


def check_text(col, text, cls, case, single_exprs=None):
    """Returns 'ok' | 'exception' | 'gap'."""
    try:
        model = pipeline.real_generate(text, cls)
    except Exception as e:
        if single_exprs is not None and len(single_exprs) > 1:
            return "exception"
        # replay: generate() raised on a model made only of forms listed in C11
        col.violation(case + ":raises:" + type(e).__name__,
                      f"generate() raises {type(e).__name__}: {str(e)[:120]}",
                      {"model_text": text, "exception": repr(e)[:300]})
        col.bump("generate_exceptions")
        return "exception"
    try:
        # generate() accepted the model: its two residual Functions must be constructible
        model.dae_residual_function, model.initial_residual_function
    except Exception as e:
        if single_exprs is not None and len(single_exprs) > 1:
            return "exception"  # re-run per equation for a stable case id
        col.violation(case + ":residual-raises:" + type(e).__name__,
                      f"generate() accepts the model but building the residual function raises {type(e).__name__}: "
                      + " ".join(str(e).split())[-160:],
                      {"model_text": text, "exception": repr(e)[:300]})
        col.bump("generate_exceptions")
        return "exception"
    try:
        flat = pipeline.flat_reference(text, cls)
        fc = flat.classes[cls]
        ref = Ref(flat, cls)
        n = pipeline.compare_residual(col, model, "dae", ref, fc.equations, case, text)
        n += pipeline.compare_residual(col, model, "initial", ref, fc.initial_equations, case, text)
        col.bump("equation_blocks_compared", n)
        return "ok"
    except EncodingGap as g:
        col.append("encoding_gaps", f"{case}: {g}")
        col.bump("n_encoding_gaps")
        return "gap"
    except IndexError as e:
        # the reference semantics says a subscript is out of range but generate() accepted it
        col.violation(case + ":ref-indexerror", f"reference rejects subscript ({e}) but generate() accepted",
                      {"model_text": text})
        return "ok"


def work_batch(item):
    kind, payload = item
    col = Collector()
    try:
        if kind == "scalar":
            exprs = payload
            text = families.batch_model(exprs)
            r = check_text(col, text, "M", "scalar-batch", single_exprs=exprs)
            if r == "exception":
                for e in exprs:
                    check_text(col, families.batch_model([e]), "M", f"expr:{e}")
            elif col.violations:
                # re-attribute violations to single equations for stable case ids
                col.violations = []
                for e in exprs:
                    check_text(col, families.batch_model([e]), "M", f"expr:{e}")
            col.bump("programs", 1)
            col.bump("expressions", len(exprs))
            col.sample({"equation": "y0 = " + exprs[0]})
        elif kind == "struct":
            cid, text, cls = payload
            check_text(col, text, cls, f"struct:{cid}")
            col.bump("programs", 1)
            col.sample({"model": cid, "text": text})
        elif kind == "repo":
            name, cls = payload
            text = open(REPO + f"/test/models/{name}.mo").read()
            try:
                pipeline.real_generate(text, cls)
            except Exception as e:
                # repository models are translator validation only: one that the backend does not
                # accept is outside the supported subset, not a C11 violation
                col.append("repo_models", f"{name}:unsupported:{type(e).__name__}")
                col.bump("programs", 1)
                return col
            try:
                r = check_text(col, text, cls, f"repo:{name}")
            except Exception as e:
                r = "error:" + type(e).__name__
            col.bump("programs", 1)
            col.append("repo_models", f"{name}:{r}")
    except Exception:
        col.harness_error(f"{kind} {str(payload)[:80]}: " + traceback.format_exc()[-1500:])
    return col


def main():
    args = std_args(PROP)
    rep = Report(PROP, args.tier, "translation_validation", args.seed)
    exprs = families.scalar_exprs(args.tier)
    items = [("scalar", exprs[i:i + BATCH]) for i in range(0, len(exprs), BATCH)]
    items += [("struct", m) for m in families.structured_models(args.tier)]
    items += [("repo", n) for n in families.REPO_MODELS]
    for col in run_parallel(work_batch, items, args.jobs):
        rep.merge(col)
    # canary: a deliberately wrong reference must come back sat (guards against vacuous unsat)
    canary(rep)
    cov = rep.coverage
    cov["disagreements_checked"] = rep.queries.get("sat", 0)
    cov["functions_encoded"] = ["pymoca.parser._parse (concrete)", "pymoca.tree.flatten (concrete, per text)",
                                "casadi.generator.generate -> Model.dae_residual_function / initial_residual_function (SX DAG -> z3)"]
    nsub, nbody = len(families.LOOP_SUBSCRIPTS), len(families.FUN_LOOP_BODIES)
    cov["bounds"] = ("expression depth <= 2 over every ordered pair of C11 operators (thorough: depth 3 on representatives); "
                     "arrays <= 3 / 2x3 with every literal subscript in range; loops <= 3 iterations (thorough <= 4, with steps); "
                     f"for-loop subscripts: {nsub} integer expressions of the loop variable (unit offsets, scaled, reversed incl. via a parameter, "
                     f"non-affine) x loop ranges {families.LOOP_RANGES[args.tier]} x positions {families.LOOP_POSITIONS[args.tier]} "
                     "(read, written, der(), fixed row/column of a matrix, row slice, two different subscripts of one array, for-statement in a function; "
                     "arrays tight and with 2 spare elements), plus 4 models with two loop-dependent subscripts; "
                     f"function for-statements: {nbody} loop bodies of 2-4 mutually dependent assignments (forward/backward/mutual dependencies, swap via a local, "
                     f"repeated target, loop index in the body, if/for nested in the body, element-wise array update) x ranges {families.FUN_LOOP_RANGES[args.tier]} "
                     f"x call forms {list(families.FUN_LOOP_CALLS)}; "
                     "the same function called at several places on different elements / slices / rows of the same arrays, on components of one class, "
                     "in initial equations, if-branches and next to a loop; "
                     f"whole-matrix equations with both sides of the same shape: shapes {families.MAT_SHAPES[args.tier]} (square, 1x1, non-square, single row/column) "
                     f"x {len(families.MAT_RHS)} rhs forms {families.MAT_RHS} x positions {families.MAT_POSITIONS[args.tier]} "
                     f"(quick: every rhs form as a plain equation on 2x2, {families.MAT_QUICK_3X3_RHS} on 3x3, {families.MAT_QUICK_NONSQUARE_RHS} on 2x3, "
                     f"every position on 2x2 x {families.MAT_QUICK_POS_RHS}), plus rows / columns / "
                     "square sub-blocks of square matrices read, written, equated to each other and inside for-loops; "
                     f"functions with an if-statement: {len(families.FUN_IF_CONDS)} condition forms (relations combined with or/and/not so that the 0/1 encoding "
                     f"takes the values 0..4) x {len(families.FUN_IF_SHAPES)} statement shapes {families.FUN_IF_SHAPES} x call forms {families.FUN_IF_CALLS} "
                     f"(quick: all conditions x {families.FUN_IF_QUICK_SHAPES}, all shapes x conditions {families.FUN_IF_QUICK_CONDS}, all call forms on one representative; "
                     "thorough: all conditions x all shapes x {plain, expr-arg}); branches that are singular where they are not taken are outside "
                     "(every divisor is assumed non-zero); all numeric values unbounded reals")
    cov["struct_models"] = len([i for i in items if i[0] == "struct"])
    cov["loop_subscript_classes"] = {k: sum(1 for _, c in families.LOOP_SUBSCRIPTS if c == k)
                                     for k in sorted({c for _, c in families.LOOP_SUBSCRIPTS})}
    cov["matrix_equation_models"] = len([i for i in items if i[0] == "struct" and i[1][0].startswith(("mat-eq[", "mat-sq["))])
    cov["function_if_statement_models"] = len([i for i in items if i[0] == "struct" and i[1][0].startswith("fun-if[")])
    cov["explanation"] = "per residual element: z3 unsat of (impl != ref) under non-zero divisors; elementary functions uninterpreted"
    rep.assumptions += ["CasADi Function.expand() is trusted", "real arithmetic, not IEEE",
                        "sin/cos/exp/log/pow are uninterpreted functions shared by both sides",
                        "every divisor occurring on either side is assumed non-zero",
                        "text -> flat AST is executed concretely; the reference semantics (vk/smt/ast2z3.py) is the oracle"]
    return rep.finish()


def canary(rep):
    import z3
    from vk.smt import equiv
    text = families.batch_model(["a - b"])
    model = pipeline.real_generate(text, "M")
    flat = pipeline.flat_reference(families.batch_model(["b - a"]), "M")
    ref = Ref(flat, "M")
    c = Collector()
    pipeline.compare_residual(c, model, "dae", ref, flat.classes["M"].equations, "canary", text)
    rep.coverage["canary_detected"] = bool(c.violations)
    if not c.violations:
        rep.harness_error("canary: swapped operands were not detected (vacuous encoding)")


if __name__ == "__main__":
    sys.exit(main())
