"""C14 - simplification preserves the DAE's solutions (Engine B, with quantifiers).

Real code: generate() then Model.simplify(options) for every enumerated (model, option set).
Both the unsimplified and the simplified dae / initial residual Functions are translated to z3.
Obligations (unsat of the negation, parameters/constants fixed at their declared values):
  soundness     orig(x)=0  =>  simp(pi x)=0  and every recorded alias (a = +/-c) and recorded constant
  completeness  simp(x')=0 and recorded eliminations  =>  exists eliminated unknowns. orig(x', e)=0
An exception or a logged warning from simplify() counts as reported failure (statement of C14).

Model families: vk/simpfam.models() (base models and alias chains) and vk/simpfam.models_ext() (linked
non-eliminable alias classes and alias cycles, every orientation of the pattern-matched equations, badly
scaled affine systems) and vk/simpfam.models_ext2() (alias cycles in every equation order, if-equations whose
branches are pattern-matched shapes);
see cov["bounds"].
"""
import logging
import sys
import traceback

import casadi as ca
import z3

from vk import simpfam
from vk.report import Collector, EncodingGap, Report, run_parallel, std_args
from vk.smt import equiv, modelio, ops, pipeline
from vk.smt.sx2z3 import sx2z3

PROP = "C14"


class _Catch(logging.Handler):
    def __init__(self):
        super().__init__(level=logging.WARNING)
        self.records = []

    def emit(self, record):
        self.records.append(record.getMessage())


def residual_terms(model, div):
    names = modelio.model_in_names(model)
    out = {}
    for which, f in (("dae", model.dae_residual_function), ("initial", model.initial_residual_function)):
        if f.n_out() == 0:
            out[which] = []
            continue
        _, zo, _ = sx2z3(f, names, div)
        out[which] = zo[0]["dense"]
    return out


def value_constraints(model, div):
    """p == declared value for parameters and constants of a model (exprs of other parameters allowed)."""
    cons = []
    pc = model.parameters + model.constants
    syms = [v.symbol for v in pc]
    names = [nm for s in syms for nm in modelio.sym_elem_names(s)]
    for v in pc:
        val = v.value
        mx = ca.MX(val) if not isinstance(val, (list,)) else None
        if mx is None:
            continue
        if mx.is_constant():
            try:
                fv = float(mx)
            except Exception:
                continue
            if fv != fv:
                continue  # unspecified (NaN): free
            cons.append(z3.Real(v.symbol.name()) == ops.const(fv))
        else:
            f = ca.Function("v", [ca.veccat(*syms)], [mx])
            _, zo, _ = sx2z3(f, [names], div)
            cons.append(z3.Real(v.symbol.name()) == zo[0]["dense"][0])
    return cons


def unknown_names(model):
    return [nm for grp in (model.states, model.der_states, model.alg_states) for v in grp
            for nm in modelio.sym_elem_names(v.symbol)]


def check_pair(col, mid, text, opts):
    case = f"{mid}|" + ",".join(f"{k}={v}" for k, v in sorted(opts.items()))
    orig = pipeline.real_generate(text, "S", opts)
    simp = pipeline.real_generate(text, "S", opts)
    h = _Catch()
    lg = logging.getLogger("pymoca")
    lg.addHandler(h)
    try:
        simp.simplify(dict(opts))
    except Exception as e:
        col.bump("reported_failures_exception")
        col.append("reported_failures", f"{case}: {type(e).__name__}: {str(e)[:80]}")
        return
    finally:
        lg.removeHandler(h)
    failure = [r for r in h.records if "As a result, the affine DAE expression will use a symbolic matrix" not in r]
    if failure:
        col.bump("reported_failures_warning")
        col.append("reported_failures", f"{case}: warning: {failure[0][:100]}")
        return
    div = ops.Divisors()
    ro = residual_terms(orig, div)
    try:
        rs = residual_terms(simp, div)
    except RuntimeError as e:
        # the simplified model's Functions cannot be constructed: that is C15's subject
        col.bump("unbuildable_simplified_models")
        col.append("unbuildable", f"{case}: {str(e)[:60]}")
        return
    fixed = value_constraints(orig, div)
    # recorded eliminations
    rec = []
    for canon, aliases in simp.alias_relation:
        for a in aliases:
            rec.append(z3.Real(a[1:]) == -z3.Real(canon) if a[0] == "-" else z3.Real(a) == z3.Real(canon))
    orig_const = {v.symbol.name() for v in orig.constants}
    for v in simp.constants:
        if v.symbol.name() not in orig_const:
            mx = ca.MX(v.value)
            if mx.is_constant():
                rec.append(z3.Real(v.symbol.name()) == ops.const(float(mx)))
    remaining = set(unknown_names(simp)) | {nm for v in simp.inputs for nm in modelio.sym_elem_names(v.symbol)}
    recorded_names = set()
    for r in rec:
        recorded_names.add(r.children()[0].decl().name())
    elim = [z3.Real(n) for n in unknown_names(orig) if n not in remaining and n not in recorded_names]
    nz = div.nonzero()
    for which in ("dae", "initial"):
        O = z3.And([e == 0 for e in ro[which]]) if ro[which] else z3.BoolVal(True)
        S = z3.And([e == 0 for e in rs[which]]) if rs[which] else z3.BoolVal(True)
        if which == "initial" and ro["initial"]:
            # initial systems are solved together with the DAE equations
            O = z3.And(O, *[e == 0 for e in ro["dae"]])
            S = z3.And(S, *[e == 0 for e in rs["dae"]])
        elif which == "initial":
            continue
        # soundness
        r, m = equiv.check(col, fixed + nz + [O, z3.Not(z3.And(S, *rec))], 20000)
        if r == "sat":
            report(col, case, text, opts, which, "soundness", m, orig, simp, ro, rs,
                   "a solution of the original system violates the simplified system or a recorded elimination")
        elif r == "unknown":
            col.note_inconclusive(f"{case}:{which}:soundness unknown")
        # completeness
        goal = z3.Exists(elim, z3.And(O, *nz)) if elim else O
        r, m = equiv.check(col, fixed + nz + rec + [S, z3.Not(goal)], 20000)
        if r == "sat":
            report(col, case, text, opts, which, "completeness", m, orig, simp, ro, rs,
                   "a solution of the simplified system cannot be extended to a solution of the original")
        elif r == "unknown":
            col.note_inconclusive(f"{case}:{which}:completeness unknown")
    col.bump("pairs")
    if mid.startswith("ifeq:"):  # how far the passes got on this class: number of unknowns simplify() removed
        col.bump("ifeq_pairs_with_%d_unknowns_removed" % (len(unknown_names(orig)) - len(unknown_names(simp))))


def report(col, case, text, opts, which, kind, m, orig, simp, ro, rs, what):
    """Replay: evaluate both real residual Functions numerically at the solver's point."""
    pt = equiv.point_from_model(m, ro[which] + rs[which] + ro["dae"] + rs["dae"])
    detail = {"point": pt, "options": opts}
    try:
        fo = orig.dae_residual_function if which == "dae" else orig.initial_residual_function
        fs = simp.dae_residual_function if which == "dae" else simp.initial_residual_function
        vo = modelio.eval_function(fo, modelio.model_in_names(orig), pt)
        vs = modelio.eval_function(fs, modelio.model_in_names(simp), pt) if fs.n_out() else [[]]
        detail["orig_residual"] = vo[0] if vo else []
        detail["simp_residual"] = vs[0] if vs else []
        o_zero = all(abs(x) < 1e-6 for x in detail["orig_residual"])
        s_zero = all(abs(x) < 1e-6 for x in detail["simp_residual"])
        if kind == "soundness" and not o_zero:
            col.note_inconclusive(f"{case}:{which}:{kind} sat did not replay (orig residual not zero at the point)")
            return
        if kind == "completeness" and not s_zero:
            col.note_inconclusive(f"{case}:{which}:{kind} sat did not replay (simplified residual not zero at the point)")
            return
    except Exception as e:
        detail["replay_error"] = repr(e)[:200]
    col.violation(f"{case}:{which}:{kind}", what, {"model_text": text, "detail": detail})


def work(item):
    mid, text, opts = item
    col = Collector()
    try:
        check_pair(col, mid, text, opts)
        col.sample({"model": mid, "options": opts}, 2)
    except EncodingGap as g:
        col.append("encoding_gaps", f"{mid}|{opts}: {g}")
        col.bump("n_encoding_gaps")
    except Exception:
        col.harness_error(f"{mid} {opts}: " + traceback.format_exc()[-1500:])
    return col


def canary(rep):
    """A wrong 'simplification' (dropping an equation without removing its unknown) must be caught."""
    text = simpfam.chain(2, (1,), "2 * x + u")
    orig = pipeline.real_generate(text, "S")
    bad = pipeline.real_generate(text, "S")
    bad.equations = bad.equations[:-1]
    div = ops.Divisors()
    ro, rs = residual_terms(orig, div), residual_terms(bad, div)
    c = Collector()
    O = z3.And([e == 0 for e in ro["dae"]])
    S = z3.And([e == 0 for e in rs["dae"]])
    r, _ = equiv.check(c, [S, z3.Not(O)])
    rep.coverage["canary_detected"] = (r == "sat")
    if r != "sat":
        rep.harness_error("canary: dropped equation not detected")


def main():
    args = std_args(PROP)
    rep = Report(PROP, args.tier, "translation_validation", args.seed)
    items = []
    for mid, text in simpfam.models(args.tier):
        osets = simpfam.option_sets(mid, args.tier)
        if args.tier == "quick" and mid.startswith("chain"):
            osets = [o for o in osets if len(o) <= 2 or "reduce_affine_expression" in o or len(o) >= 6]
        items += [(mid, text, o) for o in osets]
    # extended classes: linked non-eliminable alias classes / alias cycles, equation orientations, badly scaled affine systems
    # + alias cycles in every equation order; if-equations whose branches are pattern-matched shapes
    ext = simpfam.models_ext(args.tier) + simpfam.models_ext2(args.tier)
    for mid, text, osets in ext:
        items += [(mid, text, o) for o in osets]
    # chunk to amortise process start-up
    for col in run_parallel(work, items, args.jobs):
        rep.merge(col)
    canary(rep)
    cov = rep.coverage
    cov["programs"] = cov.get("pairs", 0)
    cov["disagreements_checked"] = rep.queries.get("sat", 0)
    cov["functions_encoded"] = ["Model.simplify/_simplify_once (executed on real MX graphs)",
                                "dae_residual_function / initial_residual_function before and after (SX DAG -> z3)"]
    nfam = {}
    for mid, _, osets in ext:
        k = mid.split(":")[0]
        nfam[k] = [nfam.get(k, [0, 0])[0] + 1, nfam.get(k, [0, 0])[1] + len(osets)]
    cov["extended_family_models_and_pairs"] = nfam
    for k in nfam:  # one written-out member of each extended class
        mid, text, osets = next(e for e in ext if e[0].startswith(k + ":"))
        rep.sample({"model": mid, "options": osets[0], "model_text": text}, 12)
    cov["bounds"] = ("models: base, affine, ifelse, deralias, paramalias + alias chains of length 2..3 (thorough 4), every sign pattern, head = expression/state/input; "
                     "option sets: all 64 subsets of the six interacting options + 9 further sets (+3 with reduce_affine_expression on affine models). "
                     "Extended classes (vk/simpfam.models_ext): "
                     "link = an algebraic alias class tied to two non-eliminable variables, 11 head pairs out of {state, 2nd state, der-state, input, 2nd input, "
                     "parameter, 2nd parameter, constant, same head twice}, shape direct (a=+-H1; a=+-H2) or chain (a=+-H1; b=+-H2; a=+-b), all sign patterns and "
                     "all equation orders in thorough (quick: all signs and first/reversed order for 5 main pairs, 2-3 sign patterns for the other 6), plus alias cycles "
                     "of length 2 and 3 among algebraic variables only (redundant and contradictory), under detect_aliases alone / with all six / and (main pairs) with "
                     "expand_mx, constant elimination, allow_derivative_aliases=False, affine reduction (thorough: + expand_vectors, factor_and_simplify, iterative, eliminable regex); "
                     "orient = constant assignment + signed alias + eliminable-variable assignment each written in 15 orientations "
                     "(V=E, E=V, V-E=0, E-V=0, 0=V-E, 0=E-V, V+N=0, N+V=0, 0=V+N, -V=N, N=-V, k(V-E)=0, (V-E)/k=0, kV=kE, -(V-E)=0) x constant in {3, -0.25, 0, 1.5e-3} x alias sign "
                     "(quick 3 of the 8 value/sign variants) under 8 option sets (thorough: all 63 non-empty subsets of the six options + 2 for two variants); "
                     "scale = affine systems with one coefficient of magnitude 2^-30 or -2.5e-9 (thorough also 2^-27, 2^-26, 2^-40, 2^30, 1e-12) written as literal / parameter / "
                     "constant / parameter*constant product in front of an algebraic variable / state / der-state / input, under reduce_affine_expression with each combination of "
                     "replace_parameter_values and replace_constant_values, and with alias+constant elimination (thorough 11 option sets); no initial equations in this class. "
                     "Second-round extended classes (vk/simpfam.models_ext2): cycle = alias cycles among algebraic variables only, shapes ring (a-b-d2-a), star (a, d2 tied to b, then to "
                     "each other), sum (closing equation a +- d2 = 0), zero (all in residual form), ring of 4; every sign pattern (odd number of minus signs = contradictory, "
                     "unique solution 0; even = redundant) x every equation order for the 3-cycles (quick: all 6 orders for contradictory, 2 for redundant; ring of 4: 2 orders, "
                     "contradictory only; thorough: all 24 orders for contradictory, 5 for redundant) under detect_aliases (written order also: all six, + expand_mx; thorough more); "
                     "ifeq = one if-equation whose branches are pattern-matched shapes, 26 shapes: both branches assign the same "
                     "eliminable variable / two different eliminable variables (either first) / an eliminable and a non-matching variable (either first) / `g = 0` branch, "
                     "elseif chains of 3 (same variable, odd one in the middle, odd one last), 2 equations per branch with rows aligned / crossed (scalars and elements of a vector), "
                     "nested if-equations (same / different variables), if-expression as assigned value, alias-like branches (g = +-x, g = +-h, same alias twice, different "
                     "variables) and constant-assignment-like branches; x condition in {Boolean parameter true / false, not bp, u > p, x < 1 (elseif/nested condition bp true / false), "
                     "bp and u > p, u <= p} (quick: bp true, bp false, u > p; + x < 1 for the 4 main shapes) x branch orientations (6 combinations of V=E, E=V, V-E=0, 0=E-V, "
                     "V+N=0, N=-V, 0=V+N, 0=V-E, E-V=0, -V=N; quick: 3 for the 4 main shapes under bp true and u > p, else V=E only); option sets: eliminable_variable_expression "
                     "^(g|k|gv\\[[12]\\])$ + expand_mx + expand_vectors alone / + detect_aliases / without expand_vectors, and for the V=E form also + constant elimination, "
                     "all six, + replace_parameter_values, (alias-like / constant-like shapes) detect_aliases resp. eliminate_constant_assignments without the regex "
                     "(thorough: + replace_parameter_expressions, factor_and_simplify, iterative, all six without expand_vectors, resolve_parameter_values, expansion only); "
                     "models stay piecewise affine so that z3 decides both directions. "
                     "unknowns unbounded reals")
    rep.assumptions += ["parameters/constants fixed at their declared values; unspecified (NaN) parameters free",
                        "real arithmetic; divisors non-zero", "a logged warning or exception from simplify() is 'reported failure'"]
    if not cov.get("pairs"):
        rep.harness_error("no (model, options) pair was compared")
    return rep.finish()


if __name__ == "__main__":
    sys.exit(main())
