"""C22 - delay durations are validated and delay arguments preserved (Engine B + structural).

Real code: casadi.api.transfer_model (real files in a scratch folder) -> generate, simplify,
Model._post_checks, Model.delay_arguments_function.
* acceptance: for every enumerated duration expression the model must be rejected exactly when the
  duration mentions time, a state, a derivative, an algebraic variable or a non-fixed input;
* for accepted models z3 proves every (expression, duration) output of delay_arguments_function
  equal to the reference meaning (ast2z3) of the source arguments for ALL values.
"""
import itertools
import os
import shutil
import sys
import tempfile
import traceback

import z3

from pymoca import ast
from pymoca.backends.casadi import api
from vk.report import Collector, EncodingGap, Report, run_parallel, std_args
from vk.smt import equiv, modelio, ops, pipeline
from vk.smt.ast2z3 import Ref, flat_any
from vk.smt.sx2z3 import sx2z3

PROP = "C22"
ATOMS = {  # name -> (text, allowed)
    "time": ("time", False), "state": ("x", False), "der": ("der(x)", False), "alg": ("a", False),
    "input": ("u", False), "fixed_input": ("uf", True), "param": ("p", True), "const": ("c", True),
    "literal": ("2.5", True),
}
HEAD = """model M
  Real x(start = 1);
  Real a, b, y;
  Real v[3];
  Real w[3];
  input Real u;
  input Real uf(fixed = true);
  parameter Real p = 2;
  constant Real c = 3;
equation
  der(x) = -x + u;
  a = 2 * x;
  b = a + uf * p + c;
"""


def model_text(dur, loop, expr_kind):
    if not loop:
        e = {"var": "x", "expr": "a * x + b"}[expr_kind]
        body = f"  y = delay({e}, {dur});\n  for i in 1:3 loop\n    v[i] = i * a;\n    w[i] = v[i];\n  end for;\n"
    else:
        e = {"var": "v[i]", "expr": "3 * v[i] * p"}[expr_kind]
        body = f"  y = b;\n  for i in 1:3 loop\n    v[i] = i * a * p;\n    w[i] = delay({e}, {dur});\n  end for;\n"
    return HEAD + body + "end M;\n"


def durations(tier):
    out = []
    for k, (t, ok) in ATOMS.items():
        out.append((k, t, ok))
    keys = list(ATOMS)
    for k1, k2 in itertools.combinations(keys, 2):
        t1, o1 = ATOMS[k1]
        t2, o2 = ATOMS[k2]
        out.append((f"{k1}+{k2}", f"{t1} + {t2}", o1 and o2))
        if tier == "thorough":
            out.append((f"{k1}*{k2}", f"{t1} * {t2}", o1 and o2))
            out.append((f"max({k1},{k2})", f"max({t1}, {t2})", o1 and o2))
    out.append(("param-expr", "2 * p + c / 2", True))
    out.append(("nested-alg", "p * (1 + sin(a))", False))
    out.append(("if-time", "if time > 1 then p else c", False))
    return out


class DelayCollector:
    """Reference: (expression values, duration value) of every delay() in generator visiting order."""

    def __init__(self, ref):
        self.ref = ref
        self.out = []

    def visit_eq(self, eq):
        if isinstance(eq, ast.Equation):
            for side in (eq.left, eq.right):
                self.visit_expr(side, None)
        elif isinstance(eq, ast.ForEquation):
            nodes = []
            for e in eq.equations:
                for side in (e.left, e.right):
                    self._find(side, nodes)
            for node in nodes:
                vals, dur = [], None
                for k in self.ref.loop_values(eq.indices):
                    self.ref.loop.update(k)
                    vals.append(self.ref.ev(node.operands[0]))
                    dur = self.ref.ev(node.operands[1])
                for ix in eq.indices:
                    self.ref.loop.pop(ix.name, None)
                self.out.append((vals, dur))
        elif isinstance(eq, ast.IfEquation):
            for blk in eq.blocks:
                for e in blk:
                    self.visit_eq(e)

    def _find(self, node, acc):
        if isinstance(node, ast.Expression):
            for o in node.operands:
                self._find(o, acc)
            op = node.operator.name if isinstance(node.operator, ast.ComponentRef) else node.operator
            if op == "delay":
                acc.append(node)
        elif isinstance(node, ast.IfExpression):
            for o in node.conditions + node.expressions:
                self._find(o, acc)
        elif isinstance(node, list):
            for o in node:
                self._find(o, acc)

    def visit_expr(self, node, _):
        acc = []
        self._find(node, acc)
        for n in acc:
            self.out.append((flat_any(self.ref.ev(n.operands[0])), self.ref.ev(n.operands[1])))


def run_transfer(text, opts):
    d = tempfile.mkdtemp(prefix="verif_c22_")
    try:
        with open(os.path.join(d, "M.mo"), "w") as f:
            f.write(text)
        return api.transfer_model(d, "M", dict(opts))
    finally:
        shutil.rmtree(d, ignore_errors=True)


def check(col, case, text, allowed, opts):
    try:
        m = run_transfer(text, opts)
        accepted, err = True, None
    except ValueError as e:
        accepted, err = False, e
        if "Delay durations" not in str(e):
            col.harness_error(f"{case}: unexpected ValueError {e}")
            return
    except Exception as e:
        col.append("unsupported", f"{case}: {type(e).__name__}: {str(e)[-80:]}")
        col.bump("unsupported_models")
        return
    col.bump("acceptance_decisions")
    if accepted != allowed:
        col.violation(f"{case}:acceptance", f"transfer_model {'accepts' if accepted else 'rejects'} a model whose delay duration is "
                      f"{'allowed' if allowed else 'not allowed'}", {"model_text": text, "options": opts})
        return
    if not accepted:
        return
    flat = pipeline.flat_reference(text, "M")
    ref = Ref(flat, "M")
    dc = DelayCollector(ref)
    for eq in flat.classes["M"].equations:
        dc.visit_eq(eq)
    f = m.delay_arguments_function
    names = modelio.model_in_names(m)
    _, zo, div = sx2z3(f, names, ref.div)
    # flatten both sides to scalar (expression element, duration) pairs: expand_vectors turns a
    # vector-valued delay state into one scalar delay state per element
    impl_pairs = []
    for i in range(len(zo) // 2):
        for k, g in enumerate(zo[2 * i]["dense"]):
            impl_pairs.append((g, zo[2 * i + 1]["dense"][0], 2 * i, k, len(zo[2 * i + 1]["dense"])))
    ref_pairs = [(v, dur) for vals, dur in dc.out for v in vals]
    if len(impl_pairs) != len(ref_pairs) or any(p[4] != 1 for p in impl_pairs):
        col.violation(f"{case}:count", f"{len(impl_pairs)} scalar delay arguments for {len(ref_pairs)} delayed elements", {"model_text": text})
        return
    assume = div.nonzero()
    for canon, aliases in m.alias_relation:
        for a in aliases:
            assume.append(z3.Real(a[1:]) == -z3.Real(canon) if a[0] == "-" else z3.Real(a) == z3.Real(canon))
    for i, ((ge, gd, oi, ok_, _), (we, wd)) in enumerate(zip(impl_pairs, ref_pairs)):
        for which, g, w, o_idx, k in (("expr", ge, we, oi, ok_), ("duration", gd, wd, oi + 1, 0)):
            col.bump("delay_argument_elements")
            if g.get_id() == w.get_id():
                col.count("unsat")
                continue
            r, mod = equiv.check(col, assume + [g != w])
            if r == "sat":
                pt = equiv.point_from_model(mod, [g, w])
                conf = None
                for p in equiv.perturbations(pt, 0):
                    try:
                        gv = modelio.eval_function(f, names, p)[o_idx][k]
                        wv = equiv.z3eval(w, pipeline._Default(p))
                    except Exception:
                        continue
                    if not equiv.close(gv, wv):
                        conf = {"point": p, "impl": gv, "ref": wv}
                        break
                if conf and not len(list(m.alias_relation)):
                    col.violation(f"{case}:arg{i}:{which}", "delay_arguments_function output differs from the source delay() argument", {"model_text": text, "options": opts, "detail": conf})
                else:
                    col.note_inconclusive(f"{case}:arg{i}:{which} sat did not replay")
            elif r == "unknown":
                col.note_inconclusive(f"{case}:arg{i}:{which} unknown")
    col.bump("programs")


def work(item):
    case, text, allowed, opts = item
    col = Collector()
    try:
        check(col, case, text, allowed, opts)
        col.sample({"case": case, "allowed": allowed}, 2)
    except EncodingGap as g:
        col.append("encoding_gaps", f"{case}: {g}")
    except Exception:
        col.harness_error(f"{case}: " + traceback.format_exc()[-1500:])
    return col


def main():
    args = std_args(PROP)
    import logging
    logging.getLogger("pymoca").setLevel(logging.ERROR)
    rep = Report(PROP, args.tier, "translation_validation", args.seed)
    items = []
    optsets = [("default", {}), ("aliases", {"detect_aliases": True}), ("expand", {"expand_vectors": True})]
    if args.tier == "thorough":
        optsets += [("mx", {"expand_mx": True}), ("pv", {"replace_parameter_values": True, "replace_constant_values": True}),
                    ("serial", {"unroll_loops": False})]
    for (k, dur, ok), loop, ek in itertools.product(durations(args.tier), (False, True), ("var", "expr")):
        for on, o in optsets:
            if args.tier == "quick" and on != "default" and ("+" in k and not ok):
                continue
            items.append((f"dur={k}|loop={int(loop)}|{ek}|{on}", model_text(dur, loop, ek), ok, o))
    for col in run_parallel(work, items, args.jobs):
        rep.merge(col)
    cov = rep.coverage
    cov["disagreements_checked"] = rep.queries.get("sat", 0)
    cov["functions_encoded"] = ["api.transfer_model -> generate, simplify, Model._post_checks (executed)", "Model.delay_arguments_function (SX DAG -> z3)"]
    cov["bounds"] = "one delay() per model; duration = each of 9 categories alone and every pair (sum; thorough also product/max) + 3 composite; inside/outside a 3-iteration for-loop; delayed variable or expression"
    rep.assumptions += ["'depends on' is syntactic occurrence in the duration expression", "real arithmetic; divisors non-zero"]
    if not cov.get("acceptance_decisions"):
        rep.harness_error("nothing decided")
    return rep.finish()


if __name__ == "__main__":
    sys.exit(main())
