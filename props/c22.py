"""C22 - delay durations are validated and delay arguments preserved (Engine B + structural).

Real code: casadi.api.transfer_model (real files in a scratch folder) -> generate, simplify,
Model._post_checks, Model.delay_arguments_function.
* acceptance: for every enumerated duration expression the model must be rejected exactly when the
  duration mentions time, a state, a derivative, an algebraic variable or a non-fixed input;
* for accepted models z3 proves every (expression, duration) output of delay_arguments_function
  equal to the reference meaning (ast2z3) of the source arguments for ALL values.

Families (all generated; see main()):
* single: one delay() per model, every category alone / in pairs / composites (the original family);
* rewrite: durations that are a BARE symbol which some simplification pass itself rewrites (alias of
  a state / negated / of an algebraic variable / of a fixed input, constant-assigned algebraic
  variable, parameter and constant with an expression binding, plain parameter / constant / ...),
  crossed with every pass that substitutes delay arguments (detect_aliases, replace_constant_values,
  replace_constant_expressions, replace_parameter_expressions, replace_parameter_values,
  eliminate_constant_assignments, expand_vectors, all together);
* multi: two delay() calls per model, every ORDERED pair of categories (incl. integer and real
  literals), in five placements (two scalar equations, scalar then loop, loop then scalar, both in
  one loop, both in one equation): every duration must be validated and the arguments must come
  out in source order;
* sequence: transfer_model called three times on the same folder with cache=True (thorough: also
  codegen=True): every call must give the same verdict and, for accepted models, a
  delay_arguments_function (of the Model and of the CachedModels) equal to the source arguments;
* shape: ARRAY-valued delayed expressions (vector, 1xn / nx1, true matrices 2x3, 3x2, 2x2) next to a
  scalar delay, with and without expand_vectors: every delay state is paired BY NAME
  ('_pymoca_delay_N[r,c]') with element [r,c] of the N-th delay() call and its duration;
* loopidx: loop delays that use one array through several index expressions (x[i] - x[i-1], x[i+1],
  x[5-i], x[2*i], stencils, two arrays, the loop variable as a factor), optionally a second delay in
  the same loop that indexes the same array differently;
* loopdur: loop delays whose DURATION depends on the loop index (tau[i], i * p, z[i], x[i-1], ...):
  known finding (classes LOOPDUR_*), plus index-independent controls (tau[2], z[2], p, time).
A model with an allowed duration that makes transfer_model raise anything (except environment errors)
is reported as 'not accepted'.
"""
import itertools
import os
import re
import shutil
import sqlite3
import sys
import tempfile
import traceback

import z3

from pymoca import ast
from pymoca.backends.casadi import api
from vk.report import Collector, EncodingGap, Report, run_parallel, std_args
from vk.smt import equiv, modelio, ops, pipeline
from vk.smt.ast2z3 import Ref, flat_any
from vk.smt.sx2z3 import sx2z3

PROP = "C22"
LOOP_INDEX_NAMES = ("i", "j")
ATOMS = {  # name -> (text, allowed)
    "time": ("time", False), "state": ("x", False), "der": ("der(x)", False), "alg": ("a", False),
    "input": ("u", False), "fixed_input": ("uf", True), "param": ("p", True), "const": ("c", True),
    "literal": ("2.5", True),
}
HEAD = """model M
  Real x(start = 1);
  Real a, b, y;
  Real v[3];
  Real w[3];
  input Real u;
  input Real uf(fixed = true);
  parameter Real p = 2;
  constant Real c = 3;
equation
  der(x) = -x + u;
  a = 2 * x;
  b = a + uf * p + c;
"""


def model_text(dur, loop, expr_kind):
    if not loop:
        e = {"var": "x", "expr": "a * x + b"}[expr_kind]
        body = f"  y = delay({e}, {dur});\n  for i in 1:3 loop\n    v[i] = i * a;\n    w[i] = v[i];\n  end for;\n"
    else:
        e = {"var": "v[i]", "expr": "3 * v[i] * p"}[expr_kind]
        body = f"  y = b;\n  for i in 1:3 loop\n    v[i] = i * a * p;\n    w[i] = delay({e}, {dur});\n  end for;\n"
    return HEAD + body + "end M;\n"


def durations(tier):
    out = []
    for k, (t, ok) in ATOMS.items():
        out.append((k, t, ok))
    keys = list(ATOMS)
    for k1, k2 in itertools.combinations(keys, 2):
        t1, o1 = ATOMS[k1]
        t2, o2 = ATOMS[k2]
        out.append((f"{k1}+{k2}", f"{t1} + {t2}", o1 and o2))
        if tier == "thorough":
            out.append((f"{k1}*{k2}", f"{t1} * {t2}", o1 and o2))
            out.append((f"max({k1},{k2})", f"max({t1}, {t2})", o1 and o2))
    out.append(("param-expr", "2 * p + c / 2", True))
    out.append(("nested-alg", "p * (1 + sin(a))", False))
    out.append(("if-time", "if time > 1 then p else c", False))
    return out


# ---- family "rewrite": bare-symbol durations x passes that rewrite that very symbol ---------------
HEAD_RW = """model M
  Real x(start = 1);
  Real a, b, y;
  Real a2, an, aa, af, k;
  Real v[3];
  Real w[3];
  input Real u;
  input Real uf(fixed = true);
  parameter Real p = 2;
  parameter Real q = 2 * p;
  constant Real c = 3;
  constant Real c2 = 2 * c;
equation
  der(x) = -x + u;
  a = 2 * x;
  b = a + uf * p + c;
  a2 = x;
  an = -x;
  aa = a;
  af = uf;
  k = 3;
"""
ALWAYS, NEVER = (lambda o: True), (lambda o: False)
# name -> (text, allowed(options)).  The category of an eliminated variable is that of what it is
# replaced by: an alias of a fixed input IS the fixed input once detect_aliases removed it, a
# constant-assigned algebraic variable IS a constant once eliminate_constant_assignments moved it.
RW_ATOMS = {
    "alias_state": ("a2", NEVER), "neg_alias_state": ("an", NEVER), "alias_alg": ("aa", NEVER),
    "alias_fixed_input": ("af", lambda o: bool(o.get("detect_aliases"))),
    "const_assigned_alg": ("k", lambda o: bool(o.get("eliminate_constant_assignments"))),
    "param_expr": ("q", ALWAYS), "const_expr": ("c2", ALWAYS),
    "alias_state+param": ("a2 + p", NEVER), "neg(neg_alias_state)": ("-an", NEVER),
    "const_expr*param_expr": ("c2 * q", ALWAYS), "const_expr+alias_alg": ("c2 + aa", NEVER),
}
RW_ATOMS.update({k: (t, (ALWAYS if ok else NEVER)) for k, (t, ok) in ATOMS.items()})
RW_OPTSETS = [
    ("default", {}), ("aliases", {"detect_aliases": True}), ("consts", {"replace_constant_values": True}),
    ("cexpr", {"replace_constant_expressions": True}), ("pexpr", {"replace_parameter_expressions": True}),
    ("eca", {"eliminate_constant_assignments": True}), ("expand", {"expand_vectors": True}),
    ("pvals", {"replace_parameter_values": True}),
    ("inline", {"replace_parameter_expressions": True, "replace_constant_expressions": True, "replace_constant_values": True,
                "eliminate_constant_assignments": True, "detect_aliases": True}),
]


def rewrite_items(tier):
    items = []
    for (k, (dur, okf)), (on, o) in itertools.product(RW_ATOMS.items(), RW_OPTSETS):
        # (inside a loop?, delayed expression, definition of v[i] in the loop: it must mention every symbol of the
        # delayed expression, generate() asserts that - see the note at PLACEMENTS)
        variants = [(False, "x", None), (True, "3 * v[i] * p", "i * a * p")]
        if tier == "thorough":
            variants += [(False, "a * x + b + c2", None), (True, "v[i]", "i * a * p"), (False, "aa - an", None),
                         (True, "q * v[i] + c", "i * a * q + c")]
        for n, (loop, e, vdef) in enumerate(variants):
            if "c2" in dur + e and o.get("replace_constant_values") and not o.get("replace_constant_expressions"):
                # replacing constant VALUES while a constant still has an expression binding leaves 'c' free in every
                # function of the model (dae_residual included): documented precondition of that option, not C22's subject
                continue
            if loop:
                body = f"  y = b;\n  for i in 1:3 loop\n    v[i] = {vdef};\n    w[i] = delay({e}, {dur});\n  end for;\n"
            else:
                body = f"  y = delay({e}, {dur});\n  for i in 1:3 loop\n    v[i] = i * a;\n    w[i] = v[i];\n  end for;\n"
            items.append((f"rw:dur={k}|loop={int(loop)}|e{n}|{on}", HEAD_RW + body + "end M;\n", okf(o), o, 1))
    return items


# ---- family "multi": two delays, ordered pairs of categories, five placements -------------------------
M_ATOMS = dict(ATOMS, int_literal=("2", True))
HEAD_M = HEAD.replace("Real a, b, y;", "Real a, b, y, y2;").replace("  Real w[3];\n", "  Real w[3];\n  Real r[3];\n")
# NB every symbol of a delayed expression inside a loop also occurs elsewhere in the loop body: generate()
# asserts that (generator.exitForEquation), a limitation of the translation, not of the duration checks.
_LOOP0 = "  for i in 1:3 loop\n    v[i] = i * a;\n    w[i] = v[i];\n    r[i] = w[i];\n  end for;\n"
PLACEMENTS = {
    "ss": "  y = delay(a * x + b, {d1});\n  y2 = delay(x, {d2});\n" + _LOOP0,
    "sl": "  y = delay(a * x + b, {d1});\n  y2 = b;\n  for i in 1:3 loop\n    v[i] = i * a * p;\n    w[i] = delay(3 * v[i] * p, {d2});\n    r[i] = w[i];\n  end for;\n",
    "ls": "  for i in 1:3 loop\n    v[i] = i * a * p;\n    w[i] = delay(3 * v[i] * p, {d1});\n    r[i] = w[i];\n  end for;\n  y = delay(x, {d2});\n  y2 = b;\n",
    "ll": "  y = b;\n  y2 = a;\n  for i in 1:3 loop\n    v[i] = i * a * p;\n    w[i] = delay(v[i], {d1});\n    r[i] = delay(3 * v[i] * p, {d2});\n  end for;\n",
    "one": "  y = delay(x, {d1}) + 2 * delay(a, {d2});\n  y2 = b;\n" + _LOOP0,
}
M_OPTSETS = [("default", {}), ("aliases", {"detect_aliases": True}), ("expand", {"expand_vectors": True}), ("consts", {"replace_constant_values": True})]


def multi_items(tier):
    items = []
    for (k1, (t1, o1)), (k2, (t2, o2)) in itertools.product(M_ATOMS.items(), repeat=2):
        lit = "literal" in k1 or "literal" in k2
        for pl, (on, o) in itertools.product(PLACEMENTS, M_OPTSETS):
            if tier == "quick":
                # default options: every pair in two placements, pairs with a literal in all five;
                # other option sets: pairs with a literal, two scalar equations
                if not ((on == "default" and (pl in ("ss", "sl") or lit)) or (lit and pl == "ss")):
                    continue
            items.append((f"multi:{k1},{k2}|{pl}|{on}", HEAD_M + PLACEMENTS[pl].format(d1=t1, d2=t2) + "end M;\n", o1 and o2, o, 1))
    if tier == "thorough":  # three delays: a literal, an allowed and a disallowed duration in every order
        for trip in itertools.permutations([("2.5", True), ("p", True), ("time", False)]):
            body = "".join(f"  {lhs} = delay({e}, {t});\n" for lhs, e, (t, _) in zip(("y", "y2", "w[1]"), ("x", "a", "b"), trip))
            body += "  for i in 1:3 loop\n    v[i] = i * a;\n    r[i] = v[i];\n  end for;\n  w[2] = 0;\n  w[3] = 0;\n"
            items.append((f"multi3:{','.join(t for t, _ in trip)}|default", HEAD_M + body + "end M;\n", False, {}, 1))
        for trip in itertools.permutations([("2.5", True), ("p", True), ("uf + c", True)]):
            body = "".join(f"  {lhs} = delay({e}, {t});\n" for lhs, e, (t, _) in zip(("y", "y2", "w[1]"), ("x", "a", "b"), trip))
            body += "  for i in 1:3 loop\n    v[i] = i * a;\n    r[i] = v[i];\n  end for;\n  w[2] = 0;\n  w[3] = 0;\n"
            items.append((f"multi3:{','.join(t for t, _ in trip)}|default", HEAD_M + body + "end M;\n", True, {}, 1))
    return items


# ---- family "sequence": repeated transfer_model on one folder with the model cache on ------------------
def sequence_items(tier):
    items = []
    durs = [d for d in durations("quick") if "+" not in d[0]] + [("param+time", "p + time", False), ("const+fixed_input", "c + uf", True)]
    optsets = [("cache", {"cache": True}), ("cache+aliases", {"cache": True, "detect_aliases": True})]
    if tier == "thorough":
        optsets += [("cache+consts", {"cache": True, "replace_constant_values": True}), ("cache+expand", {"cache": True, "expand_vectors": True})]
    for (k, dur, ok), loop, (on, o) in itertools.product(durs, (False, True), optsets):
        items.append((f"seq:dur={k}|loop={int(loop)}|{on}", model_text(dur, loop, "expr"), ok, o, 3))
    if tier == "thorough":
        for (k, dur, ok) in durs:
            items.append((f"seq:dur={k}|loop=0|codegen", model_text(dur, False, "expr"), ok, {"codegen": True}, 3))
    return items


# ---- family "shape": array-valued delayed expressions (vector, row/column matrix, true matrix) -----------
SHAPES = {"vec3": "[3]", "row1x3": "[1,3]", "col3x1": "[3,1]", "mat2x3": "[2,3]", "mat3x2": "[3,2]", "mat2x2": "[2,2]"}
SHAPE_EXPRS = {"var": "x", "scaled": "2 * x", "sum": "x + p * g", "alg": "g"}
SHAPE_DURS = {"param": ("p", True), "fixed_input+const": ("uf + c", True), "literal": ("2.5", True), "time": ("time", False), "state": ("s", False)}
SHAPE_OPTSETS = [("default", {}), ("expand", {"expand_vectors": True}), ("expand+aliases", {"expand_vectors": True, "detect_aliases": True}),
                 ("aliases", {"detect_aliases": True}), ("expand+consts", {"expand_vectors": True, "replace_constant_values": True})]


def shape_items(tier):
    """One array-valued y = delay(<array expression>, dur) next to a scalar delay declared before or after it.  With
    expand_vectors every element gets its own delay state '_pymoca_delay_N[r,c]', which must be paired with element
    [r,c] of the delayed expression of delay() call N and with that call's duration."""
    items = []
    thorough = tier == "thorough"
    for (sid, dims), (eid, e), (did, (dur, ok)), (on, o), order in itertools.product(
            SHAPES.items(), SHAPE_EXPRS.items(), SHAPE_DURS.items(), SHAPE_OPTSETS, ("scalar-first", "array-first")):
        if not thorough:
            # quick: every shape x 2 expressions x default/expand x 2 orders with a parameter duration; the other
            # expressions, durations and option sets on the true matrices only
            main = eid in ("var", "scaled") and did == "param" and on in ("default", "expand")
            side = sid in ("mat2x3", "mat3x2") and order == "scalar-first" and (
                (did == "param" and on in ("default", "expand", "expand+aliases")) or (eid == "scaled" and on == "expand"))
            if not (main or side):
                continue
        d1 = f"  ys = delay(s + c, 2 * p);\n"
        d2 = f"  y = delay({e}, {dur});\n"
        text = (f"model M\n  Real x{dims}(each start = 1);\n  Real g{dims};\n  Real y{dims};\n  Real s(start = 1);\n  Real ys;\n"
                "  input Real uf(fixed = true);\n  parameter Real p = 2;\n  constant Real c = 3;\nequation\n"
                "  der(x) = -p * x;\n  der(s) = -s;\n  g = 3 * x;\n" + (d1 + d2 if order == "scalar-first" else d2 + d1) + "end M;\n")
        items.append((f"shape:{sid}|{eid}|dur={did}|{order}|{on}", text, ok, o, 1))
    return items


# ---- family "loopidx": delays in a for-loop that use one array through SEVERAL index expressions -------------
LOOP_HEAD = """model M
  Real x[4](each start = 1);
  Real z[4];
  Real y[4], r[4];
  input Real uf(fixed = true);
  input Real un[4];
  input Real ufx[4](each fixed = true);
  parameter Real p = 2;
  parameter Real tau[4] = {1, 2, 3, 4};
  constant Real c = 3;
  constant Real cs[4] = {1, 2, 3, 4};
equation
  for i in 1:4 loop
    der(x[i]) = -p * x[i] + un[i] + ufx[i];
    z[i] = i * x[i] + c;
  end for;
"""
LOOPIDX_EXPRS = {  # id -> (lo, hi, delayed expression)
    "back-diff": (2, 4, "x[i] - x[i-1]"), "fwd-diff": (1, 3, "x[i+1] - x[i]"), "mirror": (1, 4, "x[i] * x[5-i]"),
    "stencil3": (2, 3, "x[i-1] + 2 * x[i] + 3 * x[i+1]"), "two-arrays-shifted": (2, 4, "x[i] - z[i-1]"),
    "two-arrays-same": (1, 4, "x[i] + z[i]"), "same-ref-twice": (1, 4, "x[i] * x[i]"), "strided": (1, 2, "x[2*i] - x[i]"),
    "loopvar-factor": (1, 4, "i * x[i] - x[i] / 2"), "alg-shifted": (1, 3, "z[i+1] / 2 - z[i]"), "shift-only": (2, 4, "3 * x[i-1]"),
}
LOOPIDX_SECOND = {"none": None, "same-array-plain-index": "3 * x[i]", "shifted-again": "x[i-1] * 2"}
LOOPIDX_OPTSETS = [("default", {}), ("expand", {"expand_vectors": True}), ("serial", {"unroll_loops": False}), ("aliases", {"detect_aliases": True})]


def _loop_model(lo, hi, e, dur, e2=None, dur2="p"):
    pre = "".join(f"  y[{k}] = 0;\n  r[{k}] = 0;\n" for k in range(1, 5) if not lo <= k <= hi)
    second = f"    r[i] = delay({e2}, {dur2});\n" if e2 else "    r[i] = y[i] + 1;\n"
    return LOOP_HEAD + pre + f"  for i in {lo}:{hi} loop\n    y[i] = delay({e}, {dur});\n{second}  end for;\nend M;\n"


def loopidx_items(tier):
    items = []
    thorough = tier == "thorough"
    for (eid, (lo, hi, e)), (sid, e2), (on, o), (did, dur) in itertools.product(
            LOOPIDX_EXPRS.items(), LOOPIDX_SECOND.items(), LOOPIDX_OPTSETS, (("param", "p"), ("fixed_input+const", "uf + c"))):
        if e2 and "i-1" in e2 and lo < 2:
            continue
        if not thorough and not ((sid == "none" and did == "param" and on in ("default", "expand"))
                                 or (sid != "none" and did == "fixed_input+const" and on == "default")):
            continue
        items.append((f"loopidx:{eid}|second={sid}|dur={did}|{on}", _loop_model(lo, hi, e, dur, e2), True, o, 1))
    return items


# ---- family "loopdur": loop delays whose DURATION refers to the loop index / a loop-indexed variable ----------
LOOPDUR = {  # id -> (duration, allowed)
    "param-array": ("tau[i]", True), "loopvar*param": ("i * p", True), "const-array": ("cs[i]", True), "fixed-input-array": ("ufx[i]", True),
    "param-array-shifted+const": ("tau[i-1] + c", True),
    "alg-array": ("z[i]", False), "state-array": ("x[i]", False), "state-array-shifted": ("x[i-1]", False), "input-array": ("un[i]", False),
    "param-array+alg-array": ("tau[i] + z[i]", False),
    # controls: fixed elements / whole-model symbols inside a loop (not index dependent)
    "param-element": ("tau[2]", True), "alg-element": ("z[2]", False), "param": ("p", True), "time": ("time", False),
}
LOOPDUR_ALLOWED_CLASS = "loopdur:index-dependent-allowed"
LOOPDUR_DISALLOWED_CLASS = "loopdur:index-dependent-disallowed"


def loopdur_items(tier):
    items = []
    for (did, (dur, ok)), (on, o) in itertools.product(LOOPDUR.items(), LOOPIDX_OPTSETS if tier == "thorough" else LOOPIDX_OPTSETS[:2]):
        lo = 2 if "i-1" in dur else 1
        indexed = "[i" in dur or "i *" in dur
        cls = (LOOPDUR_ALLOWED_CLASS if ok else LOOPDUR_DISALLOWED_CLASS) if indexed else None
        items.append((f"loopdur:{did}|{on}", _loop_model(lo, 4, "x[i] + z[i]", dur), ok, o, 1, cls))
    return items


class DelayCollector:
    """Reference: (expression values, duration value) of every delay() in generator visiting order."""

    def __init__(self, ref):
        self.ref = ref
        self.out = []

    def visit_eq(self, eq):
        if isinstance(eq, ast.Equation):
            for side in (eq.left, eq.right):
                self.visit_expr(side, None)
        elif isinstance(eq, ast.ForEquation):
            nodes = []
            for e in eq.equations:
                for side in (e.left, e.right):
                    self._find(side, nodes)
            for node in nodes:
                vals, durs = [], []
                for k in self.ref.loop_values(eq.indices):
                    self.ref.loop.update(k)
                    vals.append(self.ref.ev(node.operands[0]))
                    durs.append(self.ref.ev(node.operands[1]))       # the duration of THIS iteration
                for ix in eq.indices:
                    self.ref.loop.pop(ix.name, None)
                self.out.append((vals, durs))
        elif isinstance(eq, ast.IfEquation):
            for blk in eq.blocks:
                for e in blk:
                    self.visit_eq(e)

    def _find(self, node, acc):
        if isinstance(node, ast.Expression):
            for o in node.operands:
                self._find(o, acc)
            op = node.operator.name if isinstance(node.operator, ast.ComponentRef) else node.operator
            if op == "delay":
                acc.append(node)
        elif isinstance(node, ast.IfExpression):
            for o in node.conditions + node.expressions:
                self._find(o, acc)
        elif isinstance(node, list):
            for o in node:
                self._find(o, acc)

    def visit_expr(self, node, _):
        acc = []
        self._find(node, acc)
        for n in acc:
            self.out.append((self.ref.ev(n.operands[0]), self.ref.ev(n.operands[1])))   # value keeps its (nested list) shape


def private_parse_cache():
    """pymoca's parser keeps a sqlite text cache under $XDG_CACHE_HOME shared by every process on the
    machine; under load it raises 'database is locked' (C02's subject, not this property's).  Give
    each worker process its own cache folder below the run's scratch root."""
    root = os.environ.get("VERIF_C22_SCRATCH")
    if root:
        d = os.path.join(root, f"xdg{os.getpid()}")
        os.makedirs(d, exist_ok=True)
        os.environ["XDG_CACHE_HOME"] = d


def run_transfer(text, opts, ncalls=1):
    """Outcomes (model or exception) of ncalls consecutive transfer_model calls on ONE scratch folder."""
    private_parse_cache()
    d = tempfile.mkdtemp(prefix="verif_c22_", dir=os.environ.get("VERIF_C22_SCRATCH"))
    out = []
    try:
        with open(os.path.join(d, "M.mo"), "w") as f:
            f.write(text)
        for _ in range(ncalls):
            try:
                out.append(api.transfer_model(d, "M", dict(opts)))
            except Exception as e:
                out.append(e)
        return out
    finally:
        shutil.rmtree(d, ignore_errors=True)


def binding_assumptions(ref, flat, opts):
    """What a value-replacing pass is entitled to assume: the declared binding of the constants /
    parameters it removes (and, for eliminate_constant_assignments, the equations 'v = literal')."""
    out = []
    for name, sym in flat.classes["M"].symbols.items():
        val = sym.value
        if ref.dims.get(name) or val is None or (isinstance(val, ast.Primary) and val.value is None):
            continue
        lit = isinstance(val, ast.Primary)
        if "constant" in sym.prefixes:
            on = opts.get("replace_constant_values") or (not lit and opts.get("replace_constant_expressions"))
        elif "parameter" in sym.prefixes:
            on = opts.get("replace_parameter_values") if lit else opts.get("replace_parameter_expressions")
        else:
            on = False
        if on:
            out.append(z3.Real(name) == ref.ev(val))
    if opts.get("eliminate_constant_assignments"):
        for eq in flat.classes["M"].equations:
            if (isinstance(eq, ast.Equation) and isinstance(eq.left, ast.ComponentRef) and isinstance(eq.right, ast.Primary)
                    and isinstance(eq.right.value, (int, float)) and not ref.dims.get(eq.left.name)):
                out.append(ref.ev(eq.left) == ref.ev(eq.right))
    return out


def symbol_kind(flat, name, opts):
    """'<category>:<enabled pass that removes such a symbol from the model>' of a symbol left free in the delay arguments."""
    sym = flat.classes["M"].symbols.get(name)
    if sym is None:
        # 'tau[i]' / 'i': the placeholder symbols of a for-loop body (loop index, loop-indexed reference)
        return "loop-placeholder" if ("[" in name or name in LOOP_INDEX_NAMES) else "unknown"
    lit = isinstance(sym.value, ast.Primary)
    if "parameter" in sym.prefixes:
        cand = ["replace_parameter_values"] if lit else ["replace_parameter_expressions"]
        kind = "parameter"
    elif "constant" in sym.prefixes:
        cand = ["replace_constant_values"] if lit else ["replace_constant_expressions", "replace_constant_values"]
        kind = "constant"
    else:
        cand, kind = [], ("input" if "input" in sym.prefixes else "variable")
    return kind + ":" + next((c for c in cand if opts.get(c)), "no-pass")


def check(col, case, text, allowed, opts, ncalls=1, cls=None):
    """cls: stable class id used instead of the case id for violations of a whole input class (known findings)."""
    outcomes = run_transfer(text, opts, ncalls)
    for i, r in enumerate(outcomes):
        ccase = case if i == 0 else f"{case}|call{i + 1}"
        if isinstance(r, ValueError) and "Delay durations" in str(r):
            accepted = False
        elif isinstance(r, (sqlite3.Error, OSError)):
            col.harness_error(f"{ccase}: environment trouble in transfer_model: {type(r).__name__}: {str(r)[-300:]}")
            return
        elif isinstance(r, Exception) and allowed:
            # every enumerated model was probed to compile on the unchanged tree, and this one has an allowed duration:
            # "accepts those whose durations depend only on constants, parameters and fixed inputs" - a crash is not acceptance
            col.bump("acceptance_decisions")
            import traceback as tb
            where = tb.extract_tb(r.__traceback__)[-1]
            col.violation(f"{cls or ccase}:acceptance:raises:{type(r).__name__}",
                          f"transfer_model raises {type(r).__name__} ({str(r)[-120:]}) in {where.name} for a model whose delay duration is allowed"
                          + (f" (call #{i + 1} on the same folder)" if i else "") + f" (first seen: {ccase})",
                          {"model_text": text, "options": opts, "calls": i + 1})
            return
        elif isinstance(r, Exception):
            col.append("unsupported", f"{ccase}: {type(r).__name__}: {str(r)[-80:]}")
            col.bump("unsupported_models")
            # a model with a disallowed duration stopped compiling for another reason: neither a proper rejection
            # nor an acceptance - the encoding no longer matches this source
            col.harness_error(f"{ccase}: transfer_model raised {type(r).__name__}: {str(r)[-300:]}")
            return
        else:
            accepted = True
        col.bump("acceptance_decisions")
        if accepted != allowed:
            col.violation(f"{cls or ccase}:acceptance", f"transfer_model {'accepts' if accepted else 'rejects'} a model whose delay duration is "
                          f"{'allowed' if allowed else 'not allowed'}" + (f" (call #{i + 1} on the same folder)" if i else "") + (f" (first seen: {ccase})" if cls else ""),
                          {"model_text": text, "options": opts, "calls": i + 1})
            return
        if accepted:
            verify_arguments(col, ccase, text, r, opts, cls)


def ref_grid(vals):
    """{(row, col): term} and (rows, cols) of a reference value: scalar, vector (column) or list of rows."""
    if not isinstance(vals, list):
        return {(0, 0): vals}, (1, 1)
    if vals and all(isinstance(r, list) for r in vals):
        if any(isinstance(e, list) for r in vals for e in r) or len({len(r) for r in vals}) != 1:
            raise EncodingGap("delayed expression with more than two dimensions / ragged rows")
        return {(i, j): e for i, r in enumerate(vals) for j, e in enumerate(r)}, (len(vals), len(vals[0]))
    if any(isinstance(r, list) for r in vals):
        raise EncodingGap("ragged delayed expression")
    return {(i, 0): e for i, e in enumerate(vals)}, (len(vals), 1)


DELAY_NAME = re.compile(r"^_pymoca_delay_(\d+)(?:\[(\d+)(?:,(\d+))?\])?$")


def pair_by_name(m, zo, calls):
    """Pair every delay state of the model, BY ITS NAME '_pymoca_delay_N' / '_pymoca_delay_N[r]' / '..N[r,c]', with element
    [r,c] of the delayed expression of the N-th delay() call of the source (and that call's duration).  An unsubscripted
    delay state carries the whole value of the call in CasADi's column-major order.
    Returns (pairs, None) or (None, problem); pair = (impl expr, impl duration, output index, element, ref expr, ref duration, label)."""
    pairs, covered = [], {}
    if len(zo) != 2 * len(m.delay_states):
        return None, f"{len(zo)} outputs for {len(m.delay_states)} delay states"
    grids = []
    for vals, dur in calls:
        g, shape = ref_grid(vals)
        dg = ref_grid(dur)[0] if isinstance(dur, list) else None
        grids.append((g, shape, dg, dur))
    for k, name in enumerate(m.delay_states):
        mo = DELAY_NAME.match(name)
        if not mo:
            return None, f"unexpected delay state name {name!r}"
        n = int(mo.group(1))
        if n >= len(grids):
            return None, f"delay state {name!r} but the source has {len(grids)} delay() calls"
        grid, shape, dgrid, dur = grids[n]
        ze, zd = zo[2 * k], zo[2 * k + 1]
        if len(zd["dense"]) != 1:
            return None, f"duration of {name!r} has {len(zd['dense'])} elements"
        if mo.group(2) is None:
            n1, n2 = ze["shape"]
            if (n1, n2) == shape:
                rcs = [(i % n1, i // n1) for i in range(n1 * n2)]
            elif n1 * n2 == shape[0] * shape[1] and min(n1, n2) == 1 and min(shape) == 1:
                rcs = [(i, 0) if shape[1] == 1 else (0, i) for i in range(n1 * n2)]      # orientation of a vector is immaterial
            else:
                return None, f"{name!r} has shape {(n1, n2)}, the delayed expression {shape}"
            elems = list(enumerate(rcs))
        else:
            r = int(mo.group(2)) - 1
            c = int(mo.group(3)) - 1 if mo.group(3) else 0
            rc = (r, c)
            if rc not in grid and shape[0] == 1 and mo.group(3) is None:
                rc = (0, r)
            if rc not in grid and (c, r) in grid and min(shape) == 1:
                rc = (c, r)
            if rc not in grid:
                return None, f"delay state {name!r} but the delayed expression of call {n} has shape {shape}"
            if len(ze["dense"]) != 1:
                return None, f"subscripted delay state {name!r} has {len(ze['dense'])} elements"
            elems = [(0, rc)]
        for idx, rc in elems:
            if (n, rc) in covered:
                return None, f"element {rc} of delay() call {n} is covered by {covered[(n, rc)]!r} and {name!r}"
            covered[(n, rc)] = name
            wd = dgrid[(max(rc), 0)] if dgrid is not None else dur
            pairs.append((ze["dense"][idx], zd["dense"][0], 2 * k, idx, grid[rc], wd, f"{name}@{rc[0] + 1},{rc[1] + 1}"))
    missing = [(n, rc) for n, (grid, _, _, _) in enumerate(grids) for rc in grid if (n, rc) not in covered]
    if missing:
        return None, f"no delay state for elements {missing[:4]} (call, (row, col)) of the source delay() calls"
    return pairs, None


def verify_arguments(col, case, text, m, opts, cls=None):
    """z3: every (expression, duration) output of m.delay_arguments_function equals the source argument."""
    flat = pipeline.flat_reference(text, "M")
    ref = Ref(flat, "M")
    dc = DelayCollector(ref)
    for eq in flat.classes["M"].equations:
        dc.visit_eq(eq)
    try:
        f = m.delay_arguments_function
    except Exception as e:
        # the accepted model cannot even produce its delay arguments.  Class id = what is missing.
        free = re.search(r"variables \[(.*?)\] are free", str(e))
        if free:
            kinds = sorted({symbol_kind(flat, n.strip(), opts) for n in free.group(1).split(",")})
            cid = "delay-args:free-symbol:" + "+".join(kinds)
            what = (f"transfer_model accepts the model but Model.delay_arguments_function cannot be built: the delay arguments still "
                    f"reference [{free.group(1)}] ({', '.join(kinds)}) which simplify() removed from the model's variables (first seen: {case})")
        else:
            cid = f"{case}:delay-args:raises:{type(e).__name__}"
            what = f"delay_arguments_function raises {type(e).__name__}: {str(e)[-200:]}"
        col.violation(cid, what, {"model_text": text, "options": opts})
        return
    if opts.get("codegen"):
        col.bump("programs")  # compiled C behind ca.external: verdict only, values outside the claim
        return
    names = modelio.model_in_names(m)
    _, zo, div = sx2z3(f, names, ref.div)
    # flatten both sides to scalar (expression element, duration) pairs: expand_vectors turns a
    # vector-valued delay state into one scalar delay state per element
    calls = dc.out
    true_matrix = any(min(ref_grid(v)[1]) > 1 for v, _ in calls)
    todo = []  # (label, impl term, ref term, output index, element)
    if not true_matrix:
        # positional pairing: delay arguments come out in source order, elements in order
        impl_pairs = []
        for i in range(len(zo) // 2):
            for k, g in enumerate(zo[2 * i]["dense"]):
                impl_pairs.append((g, zo[2 * i + 1]["dense"][0], 2 * i, k, len(zo[2 * i + 1]["dense"])))
        ref_pairs = []
        for vals, dur in calls:
            fv = flat_any(vals)
            ref_pairs += [(v, dur[j] if isinstance(dur, list) else dur) for j, v in enumerate(fv)]
        if len(impl_pairs) != len(ref_pairs) or any(p[4] != 1 for p in impl_pairs):
            col.violation(f"{case}:count", f"{len(impl_pairs)} scalar delay arguments for {len(ref_pairs)} delayed elements", {"model_text": text})
            return
        for i, ((ge, gd, oi, ok_, _), (we, wd)) in enumerate(zip(impl_pairs, ref_pairs)):
            todo += [(f"arg{i}:expr", ge, we, oi, ok_), (f"arg{i}:duration", gd, wd, oi + 1, 0)]
    # pairing by the NAME of the delay state (the input of the DAE that receives the delayed value)
    named, problem = pair_by_name(m, zo, calls)
    if problem:
        col.violation(f"{case}:delay-state-pairing", "delay states do not match the source delay() calls: " + problem, {"model_text": text, "options": opts})
        return
    for ge, gd, oi, k, we, wd, label in named:
        todo += [(f"{label}:expr", ge, we, oi, k), (f"{label}:duration", gd, wd, oi + 1, 0)]
    col.bump("delay_states_paired_by_name", len(named))
    assume = div.nonzero()
    equalities = binding_assumptions(ref, flat, opts)
    for canon, aliases in m.alias_relation:
        for a in aliases:
            equalities.append(z3.Real(a[1:]) == -z3.Real(canon) if a[0] == "-" else z3.Real(a) == z3.Real(canon))
    assume = assume + equalities
    done = set()
    for label, g, w, o_idx, k in todo:
        if (g.get_id(), w.get_id()) in done:
            continue
        done.add((g.get_id(), w.get_id()))
        col.bump("delay_argument_elements")
        if g.get_id() == w.get_id():
            col.count("unsat")
            continue
        r, mod = equiv.check(col, assume + [g != w])
        if r == "sat":
            pt = equiv.point_from_model(mod, [g, w] + [t for e in equalities for t in e.children()])
            conf = None
            # the solver's point satisfies the alias / binding equalities; perturbed points would not
            for p in ([pt] if equalities else equiv.perturbations(pt, 0)):
                try:
                    gv = modelio.eval_function(f, names, p)[o_idx][k]
                    wv = equiv.z3eval(w, pipeline._Default(p))
                except Exception:
                    continue
                if not equiv.close(gv, wv):
                    conf = {"point": p, "impl": gv, "ref": wv}
                    break
            if conf:
                col.violation(f"{case}:{label}", "delay_arguments_function output differs from the source delay() argument", {"model_text": text, "options": opts, "detail": conf})
            else:
                col.note_inconclusive(f"{case}:{label} sat did not replay")
        elif r == "unknown":
            col.note_inconclusive(f"{case}:{label} unknown")
    col.bump("programs")


def work(item):
    case, text, allowed, opts, ncalls = item[:5]
    cls = item[5] if len(item) > 5 else None
    col = Collector()
    try:
        check(col, case, text, allowed, opts, ncalls, cls)
        col.sample({"case": case, "allowed": allowed, "options": opts, "calls": ncalls}, 2)
    except EncodingGap as g:
        col.append("encoding_gaps", f"{case}: {g}")
    except Exception:
        col.harness_error(f"{case}: " + traceback.format_exc()[-1500:])
    return col


def main():
    args = std_args(PROP)
    import logging
    logging.getLogger("pymoca").setLevel(logging.ERROR)
    rep = Report(PROP, args.tier, "translation_validation", args.seed)
    items = []
    optsets = [("default", {}), ("aliases", {"detect_aliases": True}), ("expand", {"expand_vectors": True})]
    if args.tier == "thorough":
        optsets += [("mx", {"expand_mx": True}), ("pv", {"replace_parameter_values": True, "replace_constant_values": True}),
                    ("serial", {"unroll_loops": False})]
    for (k, dur, ok), loop, ek in itertools.product(durations(args.tier), (False, True), ("var", "expr")):
        for on, o in optsets:
            if args.tier == "quick" and on != "default" and ("+" in k and not ok):
                continue
            items.append((f"dur={k}|loop={int(loop)}|{ek}|{on}", model_text(dur, loop, ek), ok, o, 1))
    n_single = len(items)
    fam = {"rewrite": rewrite_items(args.tier), "multi": multi_items(args.tier), "sequence": sequence_items(args.tier),
           "shape": shape_items(args.tier), "loopidx": loopidx_items(args.tier), "loopdur": loopdur_items(args.tier)}
    for f in fam.values():
        items += f
    # longest items (three transfer_model calls, codegen compiles) first
    items.sort(key=lambda it: (-it[4], "codegen" not in it[0]))
    scratch = tempfile.mkdtemp(prefix="verif_c22_run_")
    os.environ["VERIF_C22_SCRATCH"] = scratch
    try:
        for col in run_parallel(work, items, args.jobs):
            rep.merge(col)
    finally:
        shutil.rmtree(scratch, ignore_errors=True)
    cov = rep.coverage
    cov["disagreements_checked"] = rep.queries.get("sat", 0)
    cov["models_per_family"] = dict({"single": n_single}, **{k: len(v) for k, v in fam.items()})
    cov["functions_encoded"] = ["api.transfer_model -> generate, simplify, Model._post_checks (executed)", "Model.delay_arguments_function (SX DAG -> z3)",
                                "api.save_model / load_model for the sequence family (executed on real files)"]
    thorough = args.tier == "thorough"
    cov["bounds"] = (
        "single: one delay() per model; duration = each of 9 categories alone and every pair (sum; thorough also product/max) + 3 composite; "
        "inside/outside a 3-iteration for-loop; delayed variable or expression; options default / detect_aliases / expand_vectors"
        + (" / expand_mx / replace_parameter+constant_values / unroll_loops=False" if thorough else "") + ". "
        f"rewrite: {len(RW_ATOMS)} durations (11 that a pass rewrites: alias of state, negated alias, alias of alg. variable, alias of fixed "
        "input, constant-assigned alg. variable, parameter / constant with expression binding and 4 combinations; + the 9 plain categories) "
        f"x {len(RW_OPTSETS)} option sets (default, detect_aliases, replace_constant_values, replace_constant_expressions, "
        "replace_parameter_expressions, eliminate_constant_assignments, expand_vectors, replace_parameter_values, all-inline) "
        f"x {'6' if thorough else '2'} (placement, delayed expression) variants. "
        f"multi: two delay() per model, all {len(M_ATOMS)}x{len(M_ATOMS)} ORDERED pairs of categories (9 + integer literal); "
        + ("5 placements (2 scalar eqs, scalar+loop, loop+scalar, same loop, same equation) x 4 option sets; + 12 three-delay models"
           if thorough else
           "default options: 2 placements (2 scalar eqs, scalar then loop) for every pair, all 5 placements for pairs containing a literal; "
           "detect_aliases / expand_vectors / replace_constant_values: pairs containing a literal, 2 scalar eqs") + ". "
        "sequence: 14 durations x inside/outside loop x 3 consecutive transfer_model calls on one folder with cache=True"
        + (", cache+detect_aliases, cache+replace_constant_values, cache+expand_vectors; codegen=True (verdict only) for 14 durations" if thorough
           else " and cache+detect_aliases") + ". "
        f"shape: {len(fam['shape'])} models with an array-valued delayed expression: shapes {', '.join(SHAPES.values())} x expressions "
        f"{', '.join(SHAPE_EXPRS.values())} x durations {', '.join(t for t, _ in SHAPE_DURS.values())} x a scalar delay before/after x options "
        f"{', '.join(n for n, _ in SHAPE_OPTSETS)}" + ("" if thorough else " (quick: all shapes x {x, 2*x} x {default, expand} x both orders with a parameter "
        "duration; the other expressions / durations / option sets on the 2x3 and 3x2 matrices)") + "; delay states paired with source elements BY NAME. "
        f"loopidx: {len(fam['loopidx'])} models, a delay in a for-loop over 1:4 / 2:4 / 1:3 / 2:3 / 1:2 whose expression is one of {len(LOOPIDX_EXPRS)} "
        f"multi-index forms ({', '.join(e for _, _, e in LOOPIDX_EXPRS.values())}) x second delay in the same loop {'/'.join(LOOPIDX_SECOND)} x durations p, uf + c "
        f"x options {', '.join(n for n, _ in LOOPIDX_OPTSETS)}" + ("" if thorough else " (quick: no second delay x p x default/expand; with second delay x uf + c x default)") + ". "
        f"loopdur: {len(LOOPDUR)} loop durations ({', '.join(t for t, _ in LOOPDUR.values())}) x {'4' if thorough else '2'} option sets. "
        "Every delayed element is compared positionally (source order) and by delay-state name. All numeric values unbounded reals."
    )
    rep.assumptions += ["'depends on' is syntactic occurrence in the duration expression; a variable that a pass eliminates counts as what it "
                        "is replaced by (alias of a fixed input under detect_aliases, constant-assigned algebraic variable under "
                        "eliminate_constant_assignments)",
                        "value-replacing options may use the declared binding of the constants / parameters they remove",
                        "the parser's sqlite text cache is private to each worker process (its concurrency is C02's subject)",
                        "codegen: compiled C behind ca.external is not encoded, verdicts only",
                        "delay state '_pymoca_delay_N[r,c]' stands for element [r,c] of the N-th delay() call in generator visiting order",
                        "an exception other than the duration ValueError for a model with an allowed duration counts as 'not accepted' (sqlite / OS errors excepted)",
                        "real arithmetic; divisors non-zero"]
    if not cov.get("acceptance_decisions"):
        rep.harness_error("nothing decided")
    return rep.finish()


if __name__ == "__main__":
    sys.exit(main())
