"""C07 - hierarchical flattening instantiates every component once (translation validation, Engine B).

One Python hierarchy spec (vk/ref/flatten_ref.py) yields both the Modelica text and, by recursive
instantiation written from the specification, the expected flat model.  The real parser + tree.flatten run
on the text; the variable table (dotted names, types, prefixes with input/output only at top level,
dimensions) is compared structurally, and z3 proves for ALL real values of all flat variables that every
flat equation equals exactly one expected instance equation (residuals equal up to sign) - so renaming of
references is checked by meaning, not by spelling."""
import itertools
import json
import sys
import traceback

from vk import flatcmp
from vk.ref.flatten_ref import Cls, Comp, Lib
from vk.report import Collector, Report, run_parallel, std_args

PROP = "C07"
V = lambda p: ("v", p)
N = lambda x: ("n", x)


# ------------------------------------------------------------------------------------------ leaf classes
def leaf(name, variant):
    comps = [Comp("x", "Real"), Comp("p", "Real", ["parameter"], value=N(2))]
    eqs = [(V("x"), ("*", V("p"), N(3)))]
    nested = []
    if variant == "prefixes":
        comps += [Comp("u", "Real", ["input"]), Comp("y", "Real", ["output"]), Comp("dsc", "Real", ["discrete"]),
                  Comp("c", "Real", ["constant"], value=N(5)), Comp("n", "Integer", ["parameter"], value=N(4)), Comp("b", "Boolean"),
                  Comp("po", "Real", ["parameter", "output"], value=N(6)), Comp("di", "Real", ["discrete", "input"])]
        eqs += [(V("y"), ("+", V("u"), V("c"))), (V("dsc"), ("-", V("x"), V("di")))]
    elif variant == "alias":
        comps += [Comp("v", "Volt"), Comp("w", "Volt2", ["input"]), Comp("k", "Count", ["output"])]
        eqs += [(V("v"), ("+", V("x"), V("w")))]
    elif variant == "arrays":
        comps += [Comp("vec", "Real", dims=[3]), Comp("mat", "Real", ["parameter"], dims=[2, 3]), Comp("iv", "Integer", ["input"], dims=[2])]
    elif variant == "der":
        comps += [Comp("s", "Real")]
        eqs += [(("der", V("s")), ("-", V("x"), V("s")))]
    return Cls(name, comps=comps, eqs=eqs, nested=nested)


ALIASES = [Cls("Volt", "type", alias_of="Real"), Cls("Volt2", "type", alias_of="Volt"), Cls("Count", "type", alias_of="Integer")]


def chain(depth, inst, variant, nested_leaf):
    """Top -> L1 -> ... -> Leaf with `inst` instances of the next level at every level."""
    classes = list(ALIASES) if variant == "alias" else []
    lf = leaf("Leaf", variant)
    levels = []
    below = "Leaf"
    path_x = "x"
    for k in range(depth - 1, 0, -1):
        comps = [Comp("a", below)] + ([Comp("b", below)] if inst == 2 else [])
        comps.append(Comp(f"m{k}", "Real"))
        rhs = V("a." + path_x)
        if inst == 2:
            rhs = ("+", rhs, ("*", V("b." + path_x), N(k + 1)))
        levels.append(Cls(f"L{k}", comps=comps, eqs=[(V(f"m{k}"), rhs)]))
        below = f"L{k}"
        path_x = f"m{k}"
    top_comps = [Comp("c1", below)] + ([Comp("c2", below)] if inst == 2 else []) + [Comp("t", "Real")]
    rhs = ("*", V("c1." + path_x), N(2))
    if inst == 2:
        rhs = ("-", rhs, V("c2." + path_x))
    top = Cls("Top", comps=top_comps, eqs=[(V("t"), rhs)], nested=[lf] if nested_leaf else [])
    if nested_leaf:
        # Leaf is only visible inside Top: the intermediate levels must live there too
        top.nested += levels
        for n in top.nested:
            n.parent = top
        return Lib(classes + [top]), "Top"
    return Lib(classes + [lf] + levels + [top]), "Top"


def extends_cases():
    out = []
    A = lambda: Cls("A", comps=[Comp("x", "Real"), Comp("p", "Real", ["parameter"], value=N(2))], eqs=[(V("x"), ("*", V("p"), N(3)))])
    A2 = lambda: Cls("A2", comps=[Comp("z", "Real"), Comp("u", "Real", ["input"])], eqs=[(V("z"), ("+", V("u"), N(1)))])
    B = lambda: Cls("B", extends=["A"], comps=[Comp("y", "Real")], eqs=[(V("y"), ("+", V("x"), N(1)))])
    C = lambda: Cls("C", extends=["B"], comps=[Comp("w", "Real", ["output"])], eqs=[(V("w"), ("-", V("y"), V("x")))])
    out.append(("single", Lib([A(), B()]), "B"))
    out.append(("chain", Lib([A(), B(), C()]), "C"))
    out.append(("multiple", Lib([A(), A2(), Cls("D", extends=["A", "A2"], comps=[Comp("q", "Real")], eqs=[(V("q"), ("*", V("x"), V("z")))])]), "D"))
    out.append(("multiple-rev", Lib([A(), A2(), Cls("D", extends=["A2", "A"], comps=[Comp("q", "Real")], eqs=[(V("q"), ("*", V("x"), V("z")))])]), "D"))
    # inherited component of a model type, referenced from the derived class
    lf = leaf("Leaf", "plain")
    base = Cls("Base", comps=[Comp("l", "Leaf"), Comp("g", "Real")], eqs=[(V("g"), V("l.x"))])
    der = Cls("Der", extends=["Base"], comps=[Comp("h", "Real"), Comp("l2", "Leaf")], eqs=[(V("h"), ("+", V("l.x"), V("l2.x")))])
    out.append(("inherited-component", Lib([lf, base, der]), "Der"))
    out.append(("instance-of-derived", Lib([leaf("Leaf", "plain"), Cls("Base", comps=[Comp("l", "Leaf"), Comp("g", "Real")], eqs=[(V("g"), V("l.x"))]),
                                            Cls("Der", extends=["Base"], comps=[Comp("h", "Real")], eqs=[(V("h"), V("l.x"))]),
                                            Cls("Use", comps=[Comp("d1", "Der"), Comp("d2", "Der"), Comp("r", "Real")], eqs=[(V("r"), ("+", V("d1.h"), V("d2.g")))])]), "Use"))
    # base defined in an enclosing scope (package), derived next to it
    out.append(("package-sibling", Lib([Cls("P", "package", nested=[A(), B()])]), "P.B"))
    # nested class extending a class of the enclosing scope's enclosing scope
    inner = Cls("Inner", extends=["A"], comps=[Comp("k", "Real")], eqs=[(V("k"), ("*", V("x"), N(2)))])
    outer = Cls("Outer", comps=[Comp("i", "Inner"), Comp("j", "Inner"), Comp("o", "Real")], eqs=[(V("o"), ("+", V("i.k"), V("j.x")))], nested=[inner])
    out.append(("nested-extends-global", Lib([A(), outer]), "Outer"))
    # the base's component type is visible only from the base's own scope
    q = Cls("Q", "package", nested=[leaf("Leaf", "plain"), Cls("Base", comps=[Comp("l", "Leaf"), Comp("g", "Real")], eqs=[(V("g"), V("l.x"))])])
    out.append(("type-visible-from-base-only", Lib([q, Cls("Use", extends=["Q.Base"], comps=[Comp("h", "Real")], eqs=[(V("h"), ("*", V("l.x"), N(2)))])]), "Use"))
    # extends of a nested class of a package from inside another package
    out.append(("cross-package", Lib([Cls("P", "package", nested=[A()]), Cls("R", "package", nested=[Cls("E", extends=["P.A"], comps=[Comp("e", "Real")], eqs=[(V("e"), V("x"))])])]), "R.E"))
    return out


def naming_cases():
    out = []
    lf = lambda: leaf("Leaf", "plain")
    # a sub-component with the same instance name as the component containing it; both levels share a variable name
    mid = Cls("Mid", comps=[Comp("m", "Leaf"), Comp("y", "Real"), Comp("x", "Real")], eqs=[(V("y"), ("+", V("m.x"), V("x"))), (V("x"), N(7))])
    top = Cls("Top", comps=[Comp("m", "Mid"), Comp("n", "Mid"), Comp("y", "Real")], eqs=[(V("y"), ("-", V("m.y"), V("n.m.x")))])
    out.append(("same-instance-name", Lib([lf(), mid, top]), "Top"))
    # sibling names that are prefixes of each other
    top = Cls("Top", comps=[Comp("a", "Leaf"), Comp("a2", "Leaf"), Comp("ab", "Leaf"), Comp("a_x", "Real")],
              eqs=[(V("a_x"), ("+", V("a.x"), ("*", V("a2.x"), V("ab.x"))))])
    out.append(("prefix-names", Lib([lf(), top]), "Top"))
    # a nested package that shadows a top-level package of the same name
    lib_top = Cls("Lib", "package", nested=[Cls("Leaf", comps=[Comp("x", "Real")], eqs=[(V("x"), N(1))]),
                                             Cls("Base", comps=[Comp("bx", "Real")], eqs=[(V("bx"), N(2))])])
    lib_in = Cls("Lib", "package", nested=[Cls("Leaf", comps=[Comp("z", "Real")], eqs=[(V("z"), N(3))]),
                                            Cls("Base", comps=[Comp("bz", "Real")], eqs=[(V("bz"), N(4))])])
    m = Cls("M", extends=["Lib.Base"], comps=[Comp("a", "Lib.Leaf"), Comp("r", "Real")], eqs=[(V("r"), ("+", V("a.z"), V("bz")))])
    out.append(("shadowed-package", Lib([lib_top, Cls("Site", "package", nested=[lib_in, m])]), "Site.M"))
    m2 = Cls("M", extends=["Lib.Base"], comps=[Comp("a", "Lib.Leaf"), Comp("r", "Real")], eqs=[(V("r"), ("+", V("a.x"), V("bx")))])
    out.append(("unshadowed-package", Lib([Cls("Lib", "package", nested=[Cls("Leaf", comps=[Comp("x", "Real")], eqs=[(V("x"), N(1))]),
                                                                         Cls("Base", comps=[Comp("bx", "Real")], eqs=[(V("bx"), N(2))])]),
                                           Cls("Site", "package", nested=[m2])]), "Site.M"))
    # local class definitions used twice
    loc = Cls("Loc", comps=[Comp("x", "Real"), Comp("u", "Real", ["input"])], eqs=[(V("x"), ("*", V("u"), N(2)))])
    top = Cls("Top", comps=[Comp("a", "Loc"), Comp("b", "Loc"), Comp("u", "Real", ["input"]), Comp("y", "Real", ["output"])],
              eqs=[(V("y"), ("+", V("a.x"), V("b.x"))), (V("a.u"), V("u")), (V("b.u"), ("neg", V("u")))], nested=[loc])
    out.append(("local-class-twice", Lib([top]), "Top"))
    # nested input/output declared with alias types at depth 2 and 3
    inn = Cls("In", comps=[Comp("v", "Volt", ["input"]), Comp("w", "Volt2", ["output"]), Comp("n", "Volt", ["parameter", "input"], value=N(1))],
              eqs=[(V("w"), ("*", V("v"), V("n")))])
    midc = Cls("MidC", comps=[Comp("l1", "In"), Comp("e", "Volt", ["input"])], eqs=[(V("l1.v"), V("e"))])
    top = Cls("Top", comps=[Comp("m", "MidC"), Comp("top_in", "Volt", ["input"]), Comp("top_out", "Volt2", ["output"])],
              eqs=[(V("m.e"), V("top_in")), (V("top_out"), V("m.l1.w"))])
    out.append(("alias-io-nested", Lib(list(ALIASES) + [inn, midc, top]), "Top"))
    return out


def family(tier):
    items = []
    depths = (1, 2, 3) if tier == "quick" else (1, 2, 3, 4)
    for d, inst, variant, nl in itertools.product(depths, (1, 2), ("plain", "prefixes", "alias", "arrays", "der"), (False, True)):
        if nl and variant == "alias":
            continue
        if tier == "quick" and d == 3 and inst == 2 and variant in ("arrays", "der") and nl:
            continue
        lib, top = chain(d, inst, variant, nl)
        items.append((f"chain[d={d},inst={inst},{variant},{'nested' if nl else 'global'}]", lib, top))
    for cid, lib, top in extends_cases():
        items.append((f"extends[{cid}]", lib, top))
    for cid, lib, top in naming_cases():
        items.append((f"naming[{cid}]", lib, top))
    # every class of every library is also flattened on its own (intermediate levels as roots)
    extra = []
    for cid, lib, top in items:
        if cid.startswith("chain[d=3") or cid.startswith("extends[chain") or cid.startswith("extends[instance"):
            for c in lib.root.nested:
                if c.kind == "model" and c.name != top and c.alias_of is None:
                    extra.append((cid + ":" + c.name, lib, c.name))
    return items + extra


def expected(lib, top):
    vars_, eqs = lib.flatten(top)
    eqs = list(eqs)
    for n, v in vars_.items():
        if "value" in v["attrs"] and not ({"parameter", "constant"} & set(v["prefixes"])):
            eqs.append((("v", n), v["attrs"].pop("value")))
    return vars_, eqs


def work(item):
    cid, lib, top = item
    col = Collector()
    try:
        text = lib.text()
        ev, ee = expected(lib, top)
        flatcmp.compare(col, cid, text, top, ev, ee)
        col.bump("programs")
        col.bump("flat_variables", len(ev))
        col.bump("flat_equations", len(ee))
        col.sample({"case": cid, "class": top, "text": text}, 1)
    except Exception:
        col.harness_error(f"{cid}: " + traceback.format_exc()[-1200:])
    return col


def canary(rep):
    """A wrong expectation (one reference renamed to the sibling instance) must be refuted."""
    lib, top = chain(2, 2, "plain", False)
    ev, ee = expected(lib, top)
    l, r = ee[-1]
    bad = ee[:-1] + [(l, ("*", ("v", "c2.x"), ("n", 2)) if False else ("-", ("*", ("v", "c2.x"), ("n", 2)), ("v", "c2.x")))]
    c = Collector()
    flatcmp.compare(c, "canary", lib.text(), top, ev, bad)
    rep.coverage["canary_detected"] = bool(c.violations)
    if not c.violations:
        rep.harness_error("canary: a reference renamed to the wrong instance was not detected")


def main():
    a = std_args(PROP)
    if a.replay:
        r = json.load(open(a.replay))["replay"]
        from pymoca import ast, parser, tree
        try:
            tree.flatten(parser.parse(r["model_text"], bypass_cache=True), ast.ComponentRef.from_string(r["class"]))
            print("flatten succeeded; re-run the check for the comparison")
        except Exception as e:
            print("flatten raises", type(e).__name__, e)
        items = [it for it in family("thorough") if json.load(open(a.replay))["case"].startswith(it[0])]
        c = work(items[0]) if items else Collector()
        print(c.violations[:2])
        return 1 if c.violations else 0
    rep = Report(PROP, a.tier, "translation_validation", a.seed)
    items = family(a.tier)
    for col in run_parallel(work, items, a.jobs):
        rep.merge(col)
    canary(rep)
    cov = rep.coverage
    cov["disagreements_checked"] = rep.queries.get("sat", 0)
    cov["functions_encoded"] = ["pymoca.parser._parse (concrete)", "pymoca.tree.flatten: flatten_class, flatten_extends, build_instance_tree, flatten_symbols, "
                                "ComponentRefFlattener, find_class (executed on every program; flat equations -> z3 via ast2z3)"]
    cov["bounds"] = ("component chains of depth 1..3 (thorough 4) x 1-2 instances per class x leaf variant {plain, every prefix combination, type aliases of Real/Integer incl. alias of alias, "
                     "arrays of scalars, der} x leaf global or nested in the top class; 10 extends shapes (single, chain, multiple in both orders, inherited component, instances of a derived "
                     "class, package sibling, nested class extending a global class, base whose component type is visible only from the base's scope, cross-package); 6 naming shapes "
                     "(sub-component named like its container, names that are prefixes of each other, nested package shadowing a top-level package, local class used twice, alias-typed "
                     "input/output at depth 2-3); intermediate classes also flattened on their own; all variable values unbounded reals")
    cov["explanation"] = "per flat scalar equation: z3 unsat of (impl residual != +-expected residual) for exactly one expected instance equation"
    rep.assumptions += ["the expected flat model comes from vk/ref/flatten_ref.py (lookup and inheritance rules of the Modelica specification), independent of pymoca.tree",
                        "text -> AST is executed concretely; program structure is a bounded enumerated family",
                        "the 'state' marker that flatten adds to differentiated variables is not a declared prefix and is ignored"]
    if not cov.get("programs"):
        rep.harness_error("no program was compared")
    return rep.finish()


if __name__ == "__main__":
    sys.exit(main())
