"""C07 - hierarchical flattening instantiates every component once (translation validation, Engine B).

One Python hierarchy spec (vk/ref/flatten_ref.py) yields both the Modelica text and, by recursive
instantiation written from the specification, the expected flat model.  The real parser + tree.flatten run
on the text; the variable table (dotted names, types, prefixes with input/output only at top level,
dimensions) is compared structurally, and z3 proves for ALL real values of all flat variables that every
flat equation equals exactly one expected instance equation (residuals equal up to sign) - so renaming of
references is checked by meaning, not by spelling."""
import itertools
import json
import sys
import traceback

from vk import flatcmp
from vk.ref.flatten_ref import Cls, Comp, Lib
from vk.report import Collector, Report, run_parallel, std_args

PROP = "C07"
V = lambda p: ("v", p)
N = lambda x: ("n", x)


# ------------------------------------------------------------------------------------------ leaf classes
def leaf(name, variant):
    comps = [Comp("x", "Real"), Comp("p", "Real", ["parameter"], value=N(2))]
    eqs = [(V("x"), ("*", V("p"), N(3)))]
    nested = []
    if variant == "prefixes":
        comps += [Comp("u", "Real", ["input"]), Comp("y", "Real", ["output"]), Comp("dsc", "Real", ["discrete"]),
                  Comp("c", "Real", ["constant"], value=N(5)), Comp("n", "Integer", ["parameter"], value=N(4)), Comp("b", "Boolean"),
                  Comp("po", "Real", ["parameter", "output"], value=N(6)), Comp("di", "Real", ["discrete", "input"])]
        eqs += [(V("y"), ("+", V("u"), V("c"))), (V("dsc"), ("-", V("x"), V("di")))]
    elif variant == "alias":
        comps += [Comp("v", "Volt"), Comp("w", "Volt2", ["input"]), Comp("k", "Count", ["output"])]
        eqs += [(V("v"), ("+", V("x"), V("w")))]
    elif variant == "arrays":
        comps += [Comp("vec", "Real", dims=[3]), Comp("mat", "Real", ["parameter"], dims=[2, 3]), Comp("iv", "Integer", ["input"], dims=[2])]
    elif variant == "der":
        comps += [Comp("s", "Real")]
        eqs += [(("der", V("s")), ("-", V("x"), V("s")))]
    return Cls(name, comps=comps, eqs=eqs, nested=nested)


ALIASES = [Cls("Volt", "type", alias_of="Real"), Cls("Volt2", "type", alias_of="Volt"), Cls("Count", "type", alias_of="Integer")]


def chain(depth, inst, variant, nested_leaf):
    """Top -> L1 -> ... -> Leaf with `inst` instances of the next level at every level."""
    classes = list(ALIASES) if variant == "alias" else []
    lf = leaf("Leaf", variant)
    levels = []
    below = "Leaf"
    path_x = "x"
    for k in range(depth - 1, 0, -1):
        comps = [Comp("a", below)] + ([Comp("b", below)] if inst == 2 else [])
        comps.append(Comp(f"m{k}", "Real"))
        rhs = V("a." + path_x)
        if inst == 2:
            rhs = ("+", rhs, ("*", V("b." + path_x), N(k + 1)))
        levels.append(Cls(f"L{k}", comps=comps, eqs=[(V(f"m{k}"), rhs)]))
        below = f"L{k}"
        path_x = f"m{k}"
    top_comps = [Comp("c1", below)] + ([Comp("c2", below)] if inst == 2 else []) + [Comp("t", "Real")]
    rhs = ("*", V("c1." + path_x), N(2))
    if inst == 2:
        rhs = ("-", rhs, V("c2." + path_x))
    top = Cls("Top", comps=top_comps, eqs=[(V("t"), rhs)], nested=[lf] if nested_leaf else [])
    if nested_leaf:
        # Leaf is only visible inside Top: the intermediate levels must live there too
        top.nested += levels
        for n in top.nested:
            n.parent = top
        return Lib(classes + [top]), "Top"
    return Lib(classes + [lf] + levels + [top]), "Top"


def extends_cases():
    out = []
    A = lambda: Cls("A", comps=[Comp("x", "Real"), Comp("p", "Real", ["parameter"], value=N(2))], eqs=[(V("x"), ("*", V("p"), N(3)))])
    A2 = lambda: Cls("A2", comps=[Comp("z", "Real"), Comp("u", "Real", ["input"])], eqs=[(V("z"), ("+", V("u"), N(1)))])
    B = lambda: Cls("B", extends=["A"], comps=[Comp("y", "Real")], eqs=[(V("y"), ("+", V("x"), N(1)))])
    C = lambda: Cls("C", extends=["B"], comps=[Comp("w", "Real", ["output"])], eqs=[(V("w"), ("-", V("y"), V("x")))])
    out.append(("single", Lib([A(), B()]), "B"))
    out.append(("chain", Lib([A(), B(), C()]), "C"))
    out.append(("multiple", Lib([A(), A2(), Cls("D", extends=["A", "A2"], comps=[Comp("q", "Real")], eqs=[(V("q"), ("*", V("x"), V("z")))])]), "D"))
    out.append(("multiple-rev", Lib([A(), A2(), Cls("D", extends=["A2", "A"], comps=[Comp("q", "Real")], eqs=[(V("q"), ("*", V("x"), V("z")))])]), "D"))
    # inherited component of a model type, referenced from the derived class
    lf = leaf("Leaf", "plain")
    base = Cls("Base", comps=[Comp("l", "Leaf"), Comp("g", "Real")], eqs=[(V("g"), V("l.x"))])
    der = Cls("Der", extends=["Base"], comps=[Comp("h", "Real"), Comp("l2", "Leaf")], eqs=[(V("h"), ("+", V("l.x"), V("l2.x")))])
    out.append(("inherited-component", Lib([lf, base, der]), "Der"))
    out.append(("instance-of-derived", Lib([leaf("Leaf", "plain"), Cls("Base", comps=[Comp("l", "Leaf"), Comp("g", "Real")], eqs=[(V("g"), V("l.x"))]),
                                            Cls("Der", extends=["Base"], comps=[Comp("h", "Real")], eqs=[(V("h"), V("l.x"))]),
                                            Cls("Use", comps=[Comp("d1", "Der"), Comp("d2", "Der"), Comp("r", "Real")], eqs=[(V("r"), ("+", V("d1.h"), V("d2.g")))])]), "Use"))
    # base defined in an enclosing scope (package), derived next to it
    out.append(("package-sibling", Lib([Cls("P", "package", nested=[A(), B()])]), "P.B"))
    # nested class extending a class of the enclosing scope's enclosing scope
    inner = Cls("Inner", extends=["A"], comps=[Comp("k", "Real")], eqs=[(V("k"), ("*", V("x"), N(2)))])
    outer = Cls("Outer", comps=[Comp("i", "Inner"), Comp("j", "Inner"), Comp("o", "Real")], eqs=[(V("o"), ("+", V("i.k"), V("j.x")))], nested=[inner])
    out.append(("nested-extends-global", Lib([A(), outer]), "Outer"))
    # the base's component type is visible only from the base's own scope
    q = Cls("Q", "package", nested=[leaf("Leaf", "plain"), Cls("Base", comps=[Comp("l", "Leaf"), Comp("g", "Real")], eqs=[(V("g"), V("l.x"))])])
    out.append(("type-visible-from-base-only", Lib([q, Cls("Use", extends=["Q.Base"], comps=[Comp("h", "Real")], eqs=[(V("h"), ("*", V("l.x"), N(2)))])]), "Use"))
    # extends of a nested class of a package from inside another package
    out.append(("cross-package", Lib([Cls("P", "package", nested=[A()]), Cls("R", "package", nested=[Cls("E", extends=["P.A"], comps=[Comp("e", "Real")], eqs=[(V("e"), V("x"))])])]), "R.E"))
    return out


def naming_cases():
    out = []
    lf = lambda: leaf("Leaf", "plain")
    # a sub-component with the same instance name as the component containing it; both levels share a variable name
    mid = Cls("Mid", comps=[Comp("m", "Leaf"), Comp("y", "Real"), Comp("x", "Real")], eqs=[(V("y"), ("+", V("m.x"), V("x"))), (V("x"), N(7))])
    top = Cls("Top", comps=[Comp("m", "Mid"), Comp("n", "Mid"), Comp("y", "Real")], eqs=[(V("y"), ("-", V("m.y"), V("n.m.x")))])
    out.append(("same-instance-name", Lib([lf(), mid, top]), "Top"))
    # sibling names that are prefixes of each other
    top = Cls("Top", comps=[Comp("a", "Leaf"), Comp("a2", "Leaf"), Comp("ab", "Leaf"), Comp("a_x", "Real")],
              eqs=[(V("a_x"), ("+", V("a.x"), ("*", V("a2.x"), V("ab.x"))))])
    out.append(("prefix-names", Lib([lf(), top]), "Top"))
    # a nested package that shadows a top-level package of the same name
    lib_top = Cls("Lib", "package", nested=[Cls("Leaf", comps=[Comp("x", "Real")], eqs=[(V("x"), N(1))]),
                                             Cls("Base", comps=[Comp("bx", "Real")], eqs=[(V("bx"), N(2))])])
    lib_in = Cls("Lib", "package", nested=[Cls("Leaf", comps=[Comp("z", "Real")], eqs=[(V("z"), N(3))]),
                                            Cls("Base", comps=[Comp("bz", "Real")], eqs=[(V("bz"), N(4))])])
    m = Cls("M", extends=["Lib.Base"], comps=[Comp("a", "Lib.Leaf"), Comp("r", "Real")], eqs=[(V("r"), ("+", V("a.z"), V("bz")))])
    out.append(("shadowed-package", Lib([lib_top, Cls("Site", "package", nested=[lib_in, m])]), "Site.M"))
    m2 = Cls("M", extends=["Lib.Base"], comps=[Comp("a", "Lib.Leaf"), Comp("r", "Real")], eqs=[(V("r"), ("+", V("a.x"), V("bx")))])
    out.append(("unshadowed-package", Lib([Cls("Lib", "package", nested=[Cls("Leaf", comps=[Comp("x", "Real")], eqs=[(V("x"), N(1))]),
                                                                         Cls("Base", comps=[Comp("bx", "Real")], eqs=[(V("bx"), N(2))])]),
                                           Cls("Site", "package", nested=[m2])]), "Site.M"))
    # local class definitions used twice
    loc = Cls("Loc", comps=[Comp("x", "Real"), Comp("u", "Real", ["input"])], eqs=[(V("x"), ("*", V("u"), N(2)))])
    top = Cls("Top", comps=[Comp("a", "Loc"), Comp("b", "Loc"), Comp("u", "Real", ["input"]), Comp("y", "Real", ["output"])],
              eqs=[(V("y"), ("+", V("a.x"), V("b.x"))), (V("a.u"), V("u")), (V("b.u"), ("neg", V("u")))], nested=[loc])
    out.append(("local-class-twice", Lib([top]), "Top"))
    # nested input/output declared with alias types at depth 2 and 3
    inn = Cls("In", comps=[Comp("v", "Volt", ["input"]), Comp("w", "Volt2", ["output"]), Comp("n", "Volt", ["parameter", "input"], value=N(1))],
              eqs=[(V("w"), ("*", V("v"), V("n")))])
    midc = Cls("MidC", comps=[Comp("l1", "In"), Comp("e", "Volt", ["input"])], eqs=[(V("l1.v"), V("e"))])
    top = Cls("Top", comps=[Comp("m", "MidC"), Comp("top_in", "Volt", ["input"]), Comp("top_out", "Volt2", ["output"])],
              eqs=[(V("m.e"), V("top_in")), (V("top_out"), V("m.l1.w"))])
    out.append(("alias-io-nested", Lib(list(ALIASES) + [inn, midc, top]), "Top"))
    return out


# ------------------------------------------------------------------- connector components, no connect clause
def _pin(name="Pin", variant="plain"):
    comps = [Comp("v", "Real"), Comp("i", "Real", ["flow"])]
    if variant == "param":
        comps += [Comp("k", "Real", ["parameter"], value=N(3)), Comp("n", "Integer", ["constant"], value=N(2))]
    elif variant == "two-flows":
        comps += [Comp("T", "Real"), Comp("q", "Real", ["flow"])]
    elif variant == "io":
        comps += [Comp("ci", "Real", ["input"]), Comp("co", "Real", ["output"])]
    elif variant == "flow-array":
        comps += [Comp("fv", "Real", ["flow"], dims=[2]), Comp("pv", "Real", dims=[2])]
    return Cls(name, "connector", comps=comps)


def connector_cases(tier):
    """Hierarchies that contain connector components (any depth, 1-2 instances, inherited, nested/qualified connector
    class, connector inside a connector, derived connector) and NOT A SINGLE connect clause: the connector instances
    themselves are not flat variables, their elementary members are, and every unconnected flow variable is 0."""
    out = []
    pin_variants = ("plain", "param", "two-flows", "io", "flow-array")
    for pv, depth, inst in itertools.product(pin_variants, (0, 1, 2), (1, 2)):
        if tier == "quick" and pv in ("param", "io", "flow-array") and (depth, inst) not in ((0, 2), (1, 1), (2, 1)):
            continue
        # TwoPin-like element at `depth` levels below the top; at depth 0 the connectors sit in the top class
        names = ["p", "n"][:inst]
        comps = [Comp(nm, "Pin") for nm in names] + [Comp("u", "Real"), Comp("R", "Real", ["parameter"], value=N(10))]
        rhs = V("p.v") if inst == 1 else ("-", V("p.v"), V("n.v"))
        eqs = [(V("u"), rhs), (("*", V("R"), V("p.i")), V("u"))]
        below, ref = Cls("El", comps=comps, eqs=eqs), "u"
        classes = [_pin("Pin", pv), below]
        for k in range(depth):
            cs = [Comp("r1", below.name), Comp("r2", below.name), Comp(f"s{k}", "Real"), Comp("kk", "Integer", ["discrete"])]
            # references to a sub-component's variable and to a variable of a connector two levels down
            pinpath = "r2." + ("p.v" if k == 0 else "r1." * (k - 1) + "r1.p.v")
            cur = Cls(f"B{k}", comps=cs, eqs=[(V(f"s{k}"), ("+", V("r1." + ref), V(pinpath)))])
            classes.append(cur)
            below, ref = cur, f"s{k}"
        if depth:
            top = Cls("Top", comps=[Comp("b", below.name), Comp("ext", "Pin"), Comp("w", "Real")], eqs=[(V("w"), ("+", V("b." + ref), V("ext.v")))])
            classes.append(top)
            out.append((f"pin={pv},depth={depth},inst={inst}", Lib(classes), "Top"))
        else:
            out.append((f"pin={pv},depth=0,inst={inst}", Lib(classes), "El"))
    # the connector component is inherited / the connector class is derived / nested / qualified / contains a connector
    base = Cls("Base", comps=[Comp("p", "Pin"), Comp("g", "Real")], eqs=[(V("g"), V("p.v"))])
    der = Cls("Der", extends=["Base"], comps=[Comp("n", "Pin"), Comp("h", "Real")], eqs=[(V("h"), ("-", V("p.v"), V("n.v")))])
    out.append(("inherited", Lib([_pin(), base, der]), "Der"))
    out.append(("inherited-instances", Lib([_pin(), Cls("Base", comps=[Comp("p", "Pin"), Comp("g", "Real")], eqs=[(V("g"), V("p.v"))]),
                                            Cls("Der", extends=["Base"], comps=[Comp("h", "Real")], eqs=[(V("h"), V("p.i"))]),
                                            Cls("Use", comps=[Comp("d1", "Der"), Comp("d2", "Der"), Comp("r", "Real")], eqs=[(V("r"), ("+", V("d1.h"), V("d2.p.v")))])]), "Use"))
    hp = Cls("HeatPin", "connector", extends=["Pin"], comps=[Comp("T", "Real"), Comp("q", "Real", ["flow"])])
    out.append(("derived-connector", Lib([_pin(), hp, Cls("M", comps=[Comp("a", "HeatPin"), Comp("b", "Pin"), Comp("z", "Real")], eqs=[(V("z"), ("+", V("a.T"), ("*", V("a.v"), V("b.v"))))]),
                                          Cls("Top", comps=[Comp("m1", "M"), Comp("m2", "M"), Comp("c", "HeatPin")], eqs=[(V("c.T"), V("m1.z"))])]), "Top"))
    out.append(("derived-connector-direct", Lib([_pin(), Cls("HeatPin", "connector", extends=["Pin"], comps=[Comp("T", "Real"), Comp("q", "Real", ["flow"])]),
                                                 Cls("M", comps=[Comp("a", "HeatPin"), Comp("z", "Real")], eqs=[(V("z"), V("a.T"))])]), "M"))
    m = Cls("M", comps=[Comp("a", "Pin"), Comp("b", "Pin"), Comp("z", "Real")], eqs=[(V("z"), ("-", V("a.v"), V("b.v")))], nested=[_pin()])
    out.append(("local-connector-class", Lib([m, Cls("Top", comps=[Comp("m", "M"), Comp("y", "Real")], eqs=[(V("y"), V("m.a.v"))])]), "Top"))
    out.append(("local-connector-class-direct", Lib([Cls("M", comps=[Comp("a", "Pin"), Comp("z", "Real")], eqs=[(V("z"), V("a.v"))], nested=[_pin()])]), "M"))
    out.append(("qualified-connector-class", Lib([Cls("Itf", "package", nested=[_pin(), _pin("Port", "two-flows")]),
                                                  Cls("M", comps=[Comp("a", "Itf.Pin"), Comp("b", "Itf.Port"), Comp("z", "Real")], eqs=[(V("z"), ("+", V("a.v"), V("b.T")))])]), "M"))
    bus = Cls("Bus", "connector", comps=[Comp("a", "Pin"), Comp("b", "Pin"), Comp("s", "Real")])
    out.append(("connector-in-connector", Lib([_pin(), bus, Cls("M", comps=[Comp("bus", "Bus"), Comp("z", "Real")], eqs=[(V("z"), ("+", V("bus.a.v"), V("bus.s")))]),
                                               Cls("Top", comps=[Comp("m", "M"), Comp("x", "Bus")], eqs=[(V("x.s"), V("m.bus.b.v"))])]), "Top"))
    # connector members only (no other variable), and a model whose ONLY components are connectors
    out.append(("only-connectors", Lib([_pin(), Cls("M", comps=[Comp("a", "Pin"), Comp("b", "Pin")], eqs=[(V("a.v"), V("b.v"))]),
                                        Cls("Top", comps=[Comp("m", "M")])]), "Top"))
    # connector and model component with the same member names next to each other
    lk = Cls("Like", comps=[Comp("v", "Real"), Comp("i", "Real")], eqs=[(V("v"), ("*", V("i"), N(2)))])
    out.append(("connector-and-lookalike-model", Lib([_pin(), lk, Cls("M", comps=[Comp("a", "Pin"), Comp("l", "Like"), Comp("a2", "Pin")], eqs=[(V("l.i"), ("+", V("a.v"), V("a2.v")))])]), "M"))
    return out


# ------------------------------------------------------- sibling components with qualified type names
def _gain(name="Gain"):
    return Cls(name, comps=[Comp("k", "Real", ["parameter"], value=N(2)), Comp("u", "Real"), Comp("y", "Real")], eqs=[(V("y"), ("*", V("k"), V("u")))])


def _counter(name="Counter"):
    return Cls(name, comps=[Comp("n", "Integer", ["discrete"]), Comp("on", "Boolean"), Comp("level", "Real", dims=[3])], eqs=[(V("level[1]"), V("n"))])


def _user(types, reps, extra_nested=(), name="Top", inherited=0):
    """A class with one component per entry of `types` (c0, c1, ...) and an equation over one variable of each.
    The first `inherited` components are declared in a base class."""
    comps = [Comp(f"c{i}", t) for i, t in enumerate(types)]
    rhs = None
    for i, t in enumerate(types):
        term = ("*", V(f"c{i}.{reps[t]}"), N(i + 2))
        rhs = term if rhs is None else ("+", rhs, term)
    classes = []
    ext = []
    if inherited:
        classes.append(Cls(name + "Base", comps=comps[:inherited] + [Comp("bw", "Real")], eqs=[(V("bw"), V(f"c0.{reps[types[0]]}"))]))
        ext = [name + "Base"]
    classes.append(Cls(name, extends=ext, comps=comps[inherited:] + [Comp("w", "Real")], eqs=[(V("w"), rhs)], nested=list(extra_nested)))
    return classes


def qualified_cases(tier):
    """Within ONE class, several components whose type names are qualified and share their first (or last)
    identifier but denote different classes - every order, with repeats, inherited, wrapped in two instances."""
    out = []

    def outer():
        return Cls("Outer", comps=[Comp("g", "Gain"), Comp("o", "Real")], eqs=[(V("o"), V("g.y"))], nested=[_gain(), _counter()])

    reps = {"Outer.Gain": "y", "Outer.Counter": "level[2]", "Outer": "o"}
    orders = list(itertools.permutations(list(reps))) + [("Outer.Gain", "Outer.Gain", "Outer.Counter"), ("Outer.Counter", "Outer.Gain", "Outer.Counter"),
                                                          ("Outer", "Outer.Counter", "Outer"), ("Outer.Gain", "Outer.Counter"), ("Outer.Counter", "Outer.Gain")]
    for k, order in enumerate(orders):
        tag = ">".join(order)
        out.append((f"nested-in-model[{tag}]", Lib([outer()] + _user(order, reps)), "Top"))
        if k % 2 == 0 or tier != "quick":
            out.append((f"nested-in-model-2inst[{tag}]", Lib([outer()] + _user(order, reps) + [Cls("Top2", comps=[Comp("t1", "Top"), Comp("t2", "Top")])]), "Top2"))
        if k % 2 == 1 or tier != "quick":
            out.append((f"nested-in-model-inherited[{tag}]", Lib([outer()] + _user(order, reps, inherited=1)), "Top"))
    # a package with a sub-package: names share the first, the first two, or only the last identifier
    def pk():
        sub = Cls("Sub", "package", nested=[Cls("Gain", comps=[Comp("s", "Real"), Comp("k", "Real", ["parameter"], value=N(7))], eqs=[(V("s"), ("+", V("k"), N(1)))]),
                                            Cls("Leaf", comps=[Comp("x", "Real"), Comp("f", "Boolean")], eqs=[(V("x"), N(4))])])
        return Cls("Pk", "package", nested=[_gain(), _counter(), sub])

    reps = {"Pk.Gain": "y", "Pk.Counter": "level[3]", "Pk.Sub.Gain": "s", "Pk.Sub.Leaf": "x"}
    names = list(reps)
    orders = [tuple(names[i:] + names[:i]) for i in range(4)] + [tuple(reversed(names)), ("Pk.Sub.Leaf", "Pk.Sub.Gain"), ("Pk.Sub.Gain", "Pk.Gain"), ("Pk.Gain", "Pk.Sub.Gain", "Pk.Gain")]
    if tier != "quick":
        orders = sorted(set(orders) | set(itertools.permutations(names)))
    for k, order in enumerate(orders):
        tag = ">".join(order)
        out.append((f"package[{tag}]", Lib([pk()] + _user(order, reps)), "Top"))
        if k % 2 == 0 or tier != "quick":
            # the using class lives in another package, two instances of it on top
            site = Cls("Site", "package", nested=_user(order, reps, inherited=1 if k % 3 == 0 else 0) + [Cls("Top2", comps=[Comp("t1", "Top"), Comp("t2", "Top")])])
            out.append((f"package-from-other-package[{tag}]", Lib([pk(), site]), "Site.Top2"))
    # equal LAST identifier, different first; plus an unqualified class of that name
    def leafs():
        return [Cls("P1", "package", nested=[Cls("Leaf", comps=[Comp("x", "Real")], eqs=[(V("x"), N(1))])]),
                Cls("P2", "package", nested=[Cls("Leaf", comps=[Comp("z", "Real"), Comp("x", "Integer", ["parameter"], value=N(3))], eqs=[(V("z"), V("x"))])]),
                Cls("Leaf", comps=[Comp("h", "Real", ["discrete"])])]

    reps = {"P1.Leaf": "x", "P2.Leaf": "z", "Leaf": "h"}
    for order in itertools.permutations(list(reps)):
        out.append((f"same-last-id[{'>'.join(order)}]", Lib(leafs() + _user(order, reps)), "Top"))
    # qualified reference to a class's own nested classes from inside it, next to the unqualified spelling
    o = Cls("Outer", comps=[Comp("g", "Gain"), Comp("g2", "Outer.Gain"), Comp("c", "Outer.Counter"), Comp("o", "Real")],
            eqs=[(V("o"), ("+", V("g.y"), ("*", V("g2.u"), V("c.level[2]"))))], nested=[_gain(), _counter()])
    out.append(("own-nested-qualified", Lib([o, Cls("Top", comps=[Comp("a", "Outer"), Comp("b", "Outer.Counter")], eqs=[(V("b.n"), V("a.c.n"))])]), "Top"))
    return out


def family(tier):
    items = []
    depths = (1, 2, 3) if tier == "quick" else (1, 2, 3, 4)
    for d, inst, variant, nl in itertools.product(depths, (1, 2), ("plain", "prefixes", "alias", "arrays", "der"), (False, True)):
        if nl and variant == "alias":
            continue
        if tier == "quick" and d == 3 and inst == 2 and variant in ("arrays", "der") and nl:
            continue
        lib, top = chain(d, inst, variant, nl)
        items.append((f"chain[d={d},inst={inst},{variant},{'nested' if nl else 'global'}]", lib, top))
    for cid, lib, top in extends_cases():
        items.append((f"extends[{cid}]", lib, top))
    for cid, lib, top in naming_cases():
        items.append((f"naming[{cid}]", lib, top))
    for cid, lib, top in connector_cases(tier):
        items.append((f"connector[{cid}]", lib, top))
    for cid, lib, top in qualified_cases(tier):
        items.append((f"qualified[{cid}]", lib, top))
    # every class of every library is also flattened on its own (intermediate levels as roots)
    extra = []
    for cid, lib, top in items:
        if cid.startswith("chain[d=3") or cid.startswith("extends[chain") or cid.startswith("extends[instance"):
            for c in lib.root.nested:
                if c.kind == "model" and c.name != top and c.alias_of is None:
                    extra.append((cid + ":" + c.name, lib, c.name))
    return items + extra


def expected(lib, top):
    vars_, eqs = lib.flatten(top)
    eqs = list(eqs)
    for n, v in vars_.items():
        if "value" in v["attrs"] and not ({"parameter", "constant"} & set(v["prefixes"])):
            eqs.append((("v", n), v["attrs"].pop("value")))
    # no program of the family has a connect clause: every flow variable is unconnected, hence 0 (spec 9.2)
    for n, v in vars_.items():
        if "flow" in v["prefixes"]:
            for idx in itertools.product(*[range(1, d + 1) for d in v["dims"]]):
                eqs.append((("v", n + ("[" + ",".join(map(str, idx)) + "]" if idx else "")), ("n", 0)))
    return vars_, eqs


def work(item):
    cid, lib, top = item
    col = Collector()
    try:
        text = lib.text()
        ev, ee = expected(lib, top)
        flatcmp.compare(col, cid, text, top, ev, ee)
        col.bump("programs")
        col.bump("flat_variables", len(ev))
        col.bump("flat_equations", len(ee))
        col.sample({"case": cid, "class": top, "text": text}, 1)
    except Exception:
        col.harness_error(f"{cid}: " + traceback.format_exc()[-1200:])
    return col


def canary(rep):
    """A wrong expectation (one reference renamed to the sibling instance) must be refuted."""
    lib, top = chain(2, 2, "plain", False)
    ev, ee = expected(lib, top)
    l, r = ee[-1]
    bad = ee[:-1] + [(l, ("*", ("v", "c2.x"), ("n", 2)) if False else ("-", ("*", ("v", "c2.x"), ("n", 2)), ("v", "c2.x")))]
    c = Collector()
    flatcmp.compare(c, "canary", lib.text(), top, ev, bad)
    rep.coverage["canary_detected"] = bool(c.violations)
    if not c.violations:
        rep.harness_error("canary: a reference renamed to the wrong instance was not detected")


def main():
    a = std_args(PROP)
    if a.replay:
        r = json.load(open(a.replay))["replay"]
        from pymoca import ast, parser, tree
        try:
            tree.flatten(parser.parse(r["model_text"], bypass_cache=True), ast.ComponentRef.from_string(r["class"]))
            print("flatten succeeded; re-run the check for the comparison")
        except Exception as e:
            print("flatten raises", type(e).__name__, e)
        items = [it for it in family("thorough") if json.load(open(a.replay))["case"].startswith(it[0])]
        c = work(items[0]) if items else Collector()
        print(c.violations[:2])
        return 1 if c.violations else 0
    rep = Report(PROP, a.tier, "translation_validation", a.seed)
    items = family(a.tier)
    for col in run_parallel(work, items, a.jobs):
        rep.merge(col)
    canary(rep)
    cov = rep.coverage
    cov["disagreements_checked"] = rep.queries.get("sat", 0)
    cov["functions_encoded"] = ["pymoca.parser._parse (concrete)", "pymoca.tree.flatten: flatten_class, flatten_extends, build_instance_tree, flatten_symbols, "
                                "ComponentRefFlattener, find_class (executed on every program; flat equations -> z3 via ast2z3)"]
    cov["bounds"] = ("component chains of depth 1..3 (thorough 4) x 1-2 instances per class x leaf variant {plain, every prefix combination, type aliases of Real/Integer incl. alias of alias, "
                     "arrays of scalars, der} x leaf global or nested in the top class; 10 extends shapes (single, chain, multiple in both orders, inherited component, instances of a derived "
                     "class, package sibling, nested class extending a global class, base whose component type is visible only from the base's scope, cross-package); 6 naming shapes "
                     "(sub-component named like its container, names that are prefixes of each other, nested package shadowing a top-level package, local class used twice, alias-typed "
                     "input/output at depth 2-3); connector components WITHOUT any connect clause: connector variant {plain, with parameter/constant, two flow variables, input/output members, "
                     "flow and potential arrays} x 0-2 levels below the top x 1-2 connector instances per element, plus inherited connector components, instances of a class inheriting one, a "
                     "connector extending a connector, a connector class local to the model / referenced by qualified name, a connector containing connectors, models consisting of connectors only, "
                     "a connector next to a model with the same member names - expected: leaf members only, every (element of a) flow variable = 0; sibling components with QUALIFIED type names: "
                     "classes nested in a model used as Outer.Gain / Outer.Counter / Outer in all 6 orders, with repeated types and pairs, wrapped in two instances and with the first component "
                     "inherited; package Pk with sub-package (Pk.Gain, Pk.Counter, Pk.Sub.Gain, Pk.Sub.Leaf: rotations, reversal, pairs, repeats; thorough: all 24 orders), used from another package "
                     "in two instances; P1.Leaf / P2.Leaf / Leaf in all 6 orders; a class referring to its own nested classes by qualified and unqualified name; "
                     "intermediate classes also flattened on their own; all variable values unbounded reals")
    cov["explanation"] = "per flat scalar equation: z3 unsat of (impl residual != +-expected residual) for exactly one expected instance equation"
    rep.assumptions += ["the expected flat model comes from vk/ref/flatten_ref.py (lookup and inheritance rules of the Modelica specification), independent of pymoca.tree",
                        "text -> AST is executed concretely; program structure is a bounded enumerated family",
                        "the 'state' marker that flatten adds to differentiated variables is not a declared prefix and is ignored",
                        "no program of the family contains a connect clause (connection sets are C09); an unconnected flow variable is expected to get the equation flow = 0 (Modelica 9.2)"]
    if not cov.get("programs"):
        rep.harness_error("no program was compared")
    return rep.finish()


if __name__ == "__main__":
    sys.exit(main())
