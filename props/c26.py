"""C26 - compiler CLI exit status counts exactly the errors (Engine A, CrossHair).

Real code: tools.compiler.main with the real argparse, list_modelica_files, parse_file, parse_all, the
per-model loops, translate() and the casadi branch's directory inference.  Symbolic 0/1/2 flags decide,
per path argument, existence / kind / parse outcome, validity of the output directory, per model the
flatten / generate / transfer outcome, the target, the -O shape and whether writing the output fails.
Counterexamples are replayed twice: through the harness concretely, then in a real temporary directory
with real files and the unstubbed tool."""
import json
import os
import re
import shutil
import subprocess
import sys
import tempfile

from vk import chx
from vk.paths import REPO
from vk.report import Report, std_args

PROP = "C26"
HARNESS = os.path.join(os.path.dirname(os.path.abspath(__file__)), "h26.py")
NAMES = ["target", "two", "e1", "e2", "e3", "inc2", "inc3", "inc4", "out_ok", "pa", "pb", "pd", "ga", "gb", "opt", "wfail", "inc5"]

GOOD = "model {n}\n  Real x;\nequation\n  der(x) = -x;\nend {n};\n"
NOFLAT = "model {n}\n  extends DoesNotExist;\n  Real x;\nequation\n  x = 1;\nend {n};\n"
SYNTAX = "model {n}\n  Real x\nequation x = ;\nend {n};\n"


def real_env(args):
    """Runs the real tool in a real directory for the flag vector; -> (exit status, expected) or None if
    the flags have no real-world counterpart (listener KeyError, generic generate exception kinds)."""
    a = dict(zip(NAMES, args))
    if a["pa"] == 2 or a["pb"] == 2 or a["pd"] == 2 or a.get("inc5"):
        return None
    d = tempfile.mkdtemp(prefix="c26_")
    try:
        def body(n, parse_kind, gen_kind):
            if parse_kind == 1:
                return SYNTAX.format(n=n)
            return (GOOD if gen_kind == 0 else NOFLAT).format(n=n)
        os.makedirs(os.path.join(d, "lib"))
        if a["e1"]:
            open(os.path.join(d, "lib", "A.mo"), "w").write(body("A", a["pa"], a["ga"]))
        if a["e2"]:
            open(os.path.join(d, "B.mo"), "w").write(body("B", a["pb"], a["gb"]))
        if a["e3"]:
            os.makedirs(os.path.join(d, "d"))
            open(os.path.join(d, "d", "A.mo"), "w").write(body("A2" if a["target"] != 2 else "A", a["pd"], 0))
        open(os.path.join(d, "notes.txt"), "w").write("not modelica")
        if a["out_ok"]:
            os.makedirs(os.path.join(d, "out"))
            if a["wfail"]:
                os.makedirs(os.path.join(d, "out", "A.py"))  # writing out/A.py fails: it is a directory
                os.makedirs(os.path.join(d, "out", "B.py"))
        argv = ["-o", "out"] + ([["-t", "sympy"], ["-t", "casadi"]][a["target"] - 1] if a["target"] else []) + ["-m", "A"] + (["-m", "B"] if a["two"] else [])
        argv += {0: [], 1: ["-O", "expand_mx=True"], 2: ["-O", "expand_mx"]}[a["opt"]]
        argv += ["lib/A.mo"] + (["B.mo"] if a["inc2"] else []) + (["d"] if a["inc3"] else []) + (["notes.txt"] if a["inc4"] else [])
        env = dict(os.environ, PYTHONPATH=f"{REPO}/src:{REPO}")
        p = subprocess.run([sys.executable, "-m", "tools.compiler"] + argv, cwd=d, env=env, capture_output=True, text=True, timeout=300)
        return p.returncode, argv, p.stderr[-400:]
    finally:
        shutil.rmtree(d, ignore_errors=True)


def main():
    a = std_args(PROP)
    from props import h26
    if a.replay:
        r = json.load(open(a.replay))["replay"]
        res = getattr(h26, r.get("function", "cli"))(*r["args"])
        print("harness: exit status minus expected =", res)
        return 0 if res == 0 else 1
    rep = Report(PROP, a.tier, "model_checking", a.seed)
    spec = [("cli", f"target={t},two={two},inc3={i3},inc5=0") for t in range(3) for two in range(2) for i3 in range(2)]
    spec += [("cli", f"target=2,two={two},inc3={i3},inc5=1") for two in range(2) for i3 in range(2)]  # three files with the model's stem
    spec += [("twice", f"target={t}") for t in range(3)]
    spec += [("usage_shapes", ""), ("only_txt", ""), ("reach_cli", "target=0,two=1,inc3=0")]
    ct = 420 if a.tier == "quick" else 1500
    vs = chx.run(HARNESS, spec, jobs=a.jobs, cond_timeout=ct, path_timeout=60)
    reach = [v for v in vs if v.func.startswith("reach_")]
    vs = [v for v in vs if not v.func.startswith("reach_")]
    n = chx.summarize(rep, vs)
    for v in reach:
        rep.coverage["reachability_witness"] = v.kind == "counterexample"
        if v.kind != "counterexample":
            rep.harness_error(f"reachability twin did not produce a witness: {v.kind} {v.detail[:200]}")
    nreal = 0
    for v in vs:
        if v.kind not in ("counterexample", "exception"):
            continue
        argtxt = chx.call_args(v.detail) or ""
        try:
            args = [int(x) for x in re.findall(r"(?:[A-Za-z_]\w*\s*=\s*)?(-?\d+)", argtxt)]
        except Exception:
            args = []
        if v.func == "cli" and len(args) == len(NAMES) - 1:
            args.append(0)
        if v.func == "cli" and len(args) == len(NAMES):
            pins = dict(kv.split("=") for kv in v.pin.split(","))
            for k, val in pins.items():
                args[NAMES.index(k)] = int(val)
            res = h26.cli(*args)
            if res == 0:
                rep.harness_error(f"counterexample cli({argtxt}) did not reproduce concretely")
                continue
            flags = dict(zip(NAMES, args))
            real = real_env(args)
            nreal += real is not None
            case = "cli:" + ",".join(f"{k}={flags[k]}" for k in NAMES if flags[k])
            what = f"tools.compiler.main exit status differs from the number of errors by {res} for flags {flags}"
            if real is not None:
                what += f"; real run `compiler {' '.join(real[1])}` exited {real[0]}"
            else:
                what += "; (no real-environment counterpart for these fault kinds: replayed through the harness only)"
            rep.violation(case, what, {"args": args, "flags": flags, "real_run": real, "crosshair": v.detail})
        else:
            try:
                res = getattr(h26, v.func)(*args)
            except Exception as e:
                res = repr(e)
            want = 1002 if v.func == "usage_shapes" else (0 if v.func == "twice" else 1)
            if res != want:
                rep.violation(f"{v.func}({argtxt})", f"{v.func}{tuple(args)} returned {res}, expected {want}", {"function": v.func, "args": args})
            else:
                rep.harness_error(f"counterexample {v.func}({argtxt}) did not reproduce concretely")
    # CrossHair replaces functools.lru_cache by an uncached call while tracing, so state kept between two invocations in
    # one process by such a cache is invisible to the traced run: the (finite) domain of `twice` is also swept untraced
    import itertools
    nsweep, shown = 0, 0
    for args in itertools.product(range(3), range(3), range(3), range(3), range(3), range(2), range(2), range(3)):
        nsweep += 1
        try:
            res = h26.twice(*args)
        except Exception as e:
            res = repr(e)
        if res != 0 and shown < 5:
            shown += 1
            rep.violation(f"twice{args}", f"two invocations in one process, twice{args}: the second (or first) exit status differs from the number of errors by {res}",
                          {"function": "twice", "args": list(args)})
    cov = rep.coverage
    cov["twice_domain_swept_untraced"] = nsweep
    cov["states"] = max(1, n["confirmed"])
    cov["transitions"] = max(1, len(vs))
    cov["traces_validated_against_impl"] = nreal
    cov["samples"] = [{"function": v.func, "pin": v.pin, "verdict": v.kind, "secs": round(v.secs, 1)} for v in vs][:10]
    cov["exhaustive"] = all(v.kind == "confirmed" for v in vs)
    cov["functions_encoded"] = ["tools.compiler.main, list_modelica_files, parse_file, parse_all, flatten_class, translate (executed symbolically by CrossHair with the real argparse)"]
    cov["bounds"] = ("<= 4 path arguments (a file in a sub-directory, a second file, a directory holding a file with the same stem, a non-Modelica file), 1-2 models, "
                     "target none/sympy/casadi, -O absent/well-formed/malformed; every combination of existence, parse outcome {ok, syntax error, listener KeyError}, "
                     "model outcome {ok, KeyError, other exception}, output directory validity, write failure; 5 usage-error shapes")
    rep.assumptions += ["stubs: pathlib.Path.exists/is_dir/is_file/glob/open, pymoca.parser.parse, pymoca.tree.flatten, sympy generator.generate, casadi api.transfer_model return or raise per the symbolic outcome",
                        "logging and time.perf_counter are cut",
                        "expected status is staged as the tool documents: usage errors, else files with parse errors (+1 when no Modelica file), else failing models",
                        "an exception escaping main() is never 'the number of errors'"]
    return rep.finish()


if __name__ == "__main__":
    sys.exit(main())
