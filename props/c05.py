"""C05 - flattening never changes what later flattening produces (Engine A, CrossHair; props/h05.py).

Symbolic: the request sequence (indices into the library's classes, flatten or CasADi-generate per step in
thorough) and every literal of the library.  Enumerated: 5 generated libraries (component of a class
flattened earlier, extends, type alias in a package, connectors, redeclare, functions).  Oracle: the same
request on a tree unpickled fresh.  Supplementary concrete stages: every ordered pair of classes of every
repository test model, and the real compiler CLI with one vs two -m models."""
import glob
import itertools
import json
import logging
import os
import pickle
import re
import shutil
import subprocess
import sys
import tempfile

from vk import chx
from vk.paths import REPO
from vk.report import Collector, Report, run_parallel, std_args

PROP = "C05"
HARNESS = os.path.join(os.path.dirname(os.path.abspath(__file__)), "h05.py")
LIBS = ["comp", "alias", "conn", "redecl", "func", "imports", "assembled", "pkgconst"]


def repo_pairs(path):
    """Concrete: flatten(a); flatten(b) on one tree vs fresh trees, for the classes of one test model."""
    logging.disable(logging.CRITICAL)
    from props.hflat import flat, same
    from pymoca import parser
    col = Collector()
    try:
        t0 = parser.parse(open(path).read(), bypass_cache=True)
        if t0 is None:
            return col
        P = pickle.dumps(t0)

        def classes(t, prefix=""):
            out = []
            for n, c in t.classes.items():
                out.append(prefix + n)
                out += classes(c, prefix + n + ".")
            return out
        names = classes(t0)[:6]
        for a, b in itertools.product(names, repeat=2):
            t = pickle.loads(P)
            r1, r2 = flat(t, a), flat(t, b)
            f1, f2 = flat(pickle.loads(P), a), flat(pickle.loads(P), b)
            col.bump("repo_pairs")
            if not same(r1, f1) or not same(r2, f2):
                col.violation(f"repo:{os.path.basename(path)}:{a};{b}",
                              f"flatten({a}) then flatten({b}) on one tree of {os.path.basename(path)} differs from flattening fresh parses "
                              f"(second request: {r2[0]} vs fresh {f2[0]})", {"file": path, "sequence": [a, b]})
    except Exception as e:
        col.harness_error(f"{path}: {type(e).__name__}: {e}")
    return col


def _cli_lib(item):
    """Real tools.compiler in a real directory: each model's outcome alone vs together with another."""
    lib, targets = item
    from props.hflat import LIBS as L
    col = Collector()
    d = tempfile.mkdtemp(prefix="c05_")
    try:
        env = dict(os.environ, PYTHONPATH=f"{REPO}/src:{REPO}")
        texts, names = L[lib]
        texts = texts if isinstance(texts, list) else [texts]
        paths = []
        for fi, text in enumerate(texts):
            for i, v in enumerate((3, 4, 5, 6)):
                text = text.replace(str(7001 + i), str(v))
            paths.append(os.path.join(d, f"{lib}{fi}.mo"))
            open(paths[-1], "w").write(text)
        names = [x for x in names] + ["DoesNotExist", "AlsoMissing"]

        def run(models, target):
            argv = [sys.executable, "-m", "tools.compiler", "-o", d] + (["-t", "sympy"] if target else [])
            for m in models:
                argv += ["-m", m]
            for f in os.listdir(d):
                if f.endswith(".py"):
                    os.remove(os.path.join(d, f))
            p = subprocess.run(argv + paths, cwd=d, env=env, capture_output=True, text=True, timeout=600)
            written[0] = sorted(f for f in os.listdir(d) if f.endswith(".py"))
            return p.returncode
        written = [[]]
        files_alone = {}
        for target in targets:
            alone = {}
            for m in names:
                alone[m] = run([m], target)
                files_alone[m] = written[0]
            for a, b in itertools.permutations(names, 2):
                col.bump("cli_invocations_with_two_models")
                got = run([a, b], target)
                if target and written[0] != sorted(set(files_alone[a] + files_alone[b])):
                    col.violation(f"cli:{lib}:sympy:{a},{b}:files",
                                  f"compiler -t sympy -m {a} -m {b} writes {written[0]}, but alone the two requests write {files_alone[a]} and {files_alone[b]}",
                                  {"library": lib, "models": [a, b], "target": target})
                if got != alone[a] + alone[b]:
                    col.violation(f"cli:{lib}:{'sympy' if target else 'flatten'}:{a},{b}",
                                  f"compiler {'-t sympy ' if target else ''}-m {a} -m {b} exits {got}, but alone they exit {alone[a]} and {alone[b]}",
                                  {"library": lib, "models": [a, b], "target": target})
    except Exception as e:
        col.harness_error(f"cli stage {lib}: {type(e).__name__}: {e}")
    finally:
        shutil.rmtree(d, ignore_errors=True)
    return col


def cli_stage(rep, tier, jobs):
    items = [(lib, (t,)) for lib in LIBS for t in ((0, 1) if (tier == "thorough" or lib in ("comp", "conn")) else (0,))]
    for col in run_parallel(_cli_lib, items, jobs):
        rep.merge(col)


def main():
    a = std_args(PROP)
    if a.replay:
        r = json.load(open(a.replay))["replay"]
        if "file" in r:
            c = repo_pairs(r["file"])
            print(c.violations[:2])
            return 1 if c.violations else 0
        os.environ["VERIF_PIN"] = "lib=" + r["lib"]
        from props import h05
        res = getattr(h05, r["function"])(*r["args"])
        print("harness returned", res)
        return 0 if res == 1 else 1
    rep = Report(PROP, a.tier, "model_checking", a.seed)
    from props.hflat import LIBS as L
    spec = []
    for lib in LIBS:
        n = len(L[lib][1])
        for k1 in range(n):
            spec.append(("seq2", f"lib={lib},k1={k1}"))
            if a.tier == "thorough":
                for g1 in (0, 1):
                    spec.append(("seq3", f"lib={lib},k1={k1},g1={g1}"))
    spec.append(("reach_seq2", "lib=comp,k1=0"))
    vs = chx.run(HARNESS, spec, jobs=a.jobs, cond_timeout=300 if a.tier == "quick" else 1500, path_timeout=60)
    reach = [v for v in vs if v.func.startswith("reach_")]
    vs = [v for v in vs if not v.func.startswith("reach_")]
    n = chx.summarize(rep, vs)
    for v in reach:
        rep.coverage["reachability_witness"] = v.kind == "counterexample"
        if v.kind != "counterexample":
            rep.harness_error(f"reachability twin did not produce a witness: {v.kind} {v.detail[:200]}")
    for v in vs:
        if v.kind in ("counterexample", "exception"):
            argtxt = chx.call_args(v.detail) or ""
            args = [int(x) for x in re.findall(r"-?\d+", argtxt)]
            pins = dict(kv.split("=") for kv in v.pin.split(","))
            lib = pins["lib"]
            # replay in a separate process (the harness module is specialised per library at import)
            code = (f"import os,sys;os.environ['VERIF_PIN']='lib={lib}';from props import h05;"
                    f"print('RES',h05.{v.func}(*{args!r}))")
            p = subprocess.run([sys.executable, "-c", code], capture_output=True, text=True, env=dict(os.environ), timeout=600)
            res = re.findall(r"RES (\S+)", p.stdout)
            if res and res[0] == "1":
                rep.harness_error(f"counterexample {v.func}[{v.pin}]({argtxt}) did not reproduce concretely")
                continue
            names = L[lib][1]
            ks = args[0:2] if v.func == "seq2" else [args[1], args[3], args[5]]
            gs = [0, 0] if v.func == "seq2" else [args[0], args[2], args[4]]
            seq = [("generate " if g else "flatten ") + names[k] for g, k in zip(gs, ks) if 0 <= k < len(names)]
            rep.violation(f"{lib}:" + ";".join(seq), f"request sequence {seq} on one tree of library '{lib}' differs from fresh parses (harness: {res or p.stderr[-200:]})",
                          {"lib": lib, "function": v.func, "args": args, "library_text": str(L[lib][0])})
    files = sorted(glob.glob(REPO + "/test/models/*.mo"))
    if a.tier == "quick":
        files = files[::2]
    for col in run_parallel(repo_pairs, files, a.jobs):
        rep.merge(col)
    cli_stage(rep, a.tier, a.jobs)
    cov = rep.coverage
    cov["states"] = max(1, n["confirmed"])
    cov["transitions"] = max(1, len(vs))
    cov["traces_validated_against_impl"] = cov.get("repo_pairs", 0) + cov.get("cli_invocations_with_two_models", 0)
    cov["samples"] = [{"function": v.func, "pin": v.pin, "verdict": v.kind, "secs": round(v.secs, 1)} for v in vs][:10]
    cov["exhaustive"] = all(v.kind == "confirmed" for v in vs)
    cov["functions_encoded"] = ["pymoca.tree.flatten (find_class, flatten_class, build_instance_tree, flatten_symbols, expand_connectors, annotate_states) and casadi generator.generate, "
                                "called repeatedly on one tree (executed symbolically by CrossHair)"]
    cov["bounds"] = ("8 generated libraries (package constants of scalar, array and class type pulled in through dotted references from scalar and array components, component, type alias in a package, connectors, redeclare of a class holding a modified component, a function calling a function, qualified/unqualified imports, a package assembled from three files with Tree.extend) of 2-3 requestable classes with 4 symbolic integer literals each; all request sequences of length 2 (thorough: length 3, each step flatten or "
                     "CasADi generate); concrete: ordered class pairs of the repository's test models (quick: every second file), real CLI with every ordered pair of models per library")
    rep.assumptions += ["the oracle is the same request on an independently unpickled tree", "results are compared as Node.to_json structures (symbolic leaves compared by the solver)"]
    return rep.finish()


if __name__ == "__main__":
    sys.exit(main())
