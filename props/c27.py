"""C27 - assembling a library from several files is order-independent (Engine A, CrossHair; props/h27.py).

Real code: parser.file_to_tree (within-clause placeholder packages; files parsed outside tracing),
Tree.extend / Class._extend / update_parent_refs, tree.flatten.  Symbolic: every literal of the library
(package constants included).  One shard per (library, file permutation, merge style): the flat model of
every class after merging in that order must equal the one after merging in order 0, or both must raise.
Supplementary (thorough): the directory walk of casadi.api._compile_model with os.walk presenting the files
in every order."""
import itertools
import json
import logging
import os
import re
import shutil
import subprocess
import sys
import tempfile

from vk import chx
from vk.report import Collector, Report, run_parallel, std_args

PROP = "C27"
HARNESS = os.path.join(os.path.dirname(os.path.abspath(__file__)), "h27.py")
LIBNAMES = ["pkgconst", "nested", "placeholder-only", "four", "plain"]
NFILES = {"pkgconst": 2, "nested": 3, "placeholder-only": 3, "four": 4, "plain": 3}


def walk_stage(lib):
    """Real casadi.api._compile_model on a real folder; os.walk is wrapped to present the files in every order."""
    logging.disable(logging.CRITICAL)
    os.environ["VERIF_PIN"] = "lib=" + lib
    col = Collector()
    d = tempfile.mkdtemp(prefix="c27_")
    try:
        import importlib
        import vk.chstubs
        importlib.reload(vk.chstubs)
        import props.h27 as h
        importlib.reload(h)
        from pymoca.backends.casadi import api as A
        for i, txt in enumerate(h.FILES):
            for k, v in enumerate((3, 4, 5, 6)):
                txt = txt.replace(str(7001 + k), str(v))
            open(os.path.join(d, f"f{i}.mo"), "w").write(txt)
        real_walk = os.walk
        sigs = {}
        for perm in h.PERMS:
            def walk(folder, followlinks=True, _p=perm):
                for root, dirs, files in real_walk(folder, followlinks=followlinks):
                    yield root, dirs, [f"f{i}.mo" for i in _p]
            A.os = type("osproxy", (), {"walk": staticmethod(walk), "path": os.path, "name": os.name})
            try:
                for name in h.NAMES:
                    try:
                        m = A._compile_model(d, name, A._merge_default_options({}))
                        sig = ("ok", [v.symbol.name() for v in m.states + m.alg_states + m.parameters + m.constants], [str(e) for e in m.equations])
                    except Exception as e:
                        sig = ("raise", type(e).__name__)
                    sigs.setdefault(name, {})[perm] = sig
                    col.bump("api_walk_compiles")
            finally:
                A.os = os
        # same files in sub-folders under IDENTICAL base names (package.mo layout), walked by the real os.walk:
        # must give the same models as the flat layout
        d2 = tempfile.mkdtemp(prefix="c27n_")
        try:
            for i, txt in enumerate(h.FILES):
                for k, v in enumerate((3, 4, 5, 6)):
                    txt = txt.replace(str(7001 + k), str(v))
                sub = os.path.join(d2, *[f"s{j}" for j in range(i + 1)])
                os.makedirs(sub, exist_ok=True)
                open(os.path.join(sub, "package.mo"), "w").write(txt)
            for name in h.NAMES:
                try:
                    m = A._compile_model(d2, name, A._merge_default_options({}))
                    sig = ("ok", [v.symbol.name() for v in m.states + m.alg_states + m.parameters + m.constants], [str(e) for e in m.equations])
                except Exception as e:
                    sig = ("raise", type(e).__name__)
                sigs.setdefault(name, {})[("same-base-names",)] = sig
                col.bump("api_walk_compiles")
        finally:
            shutil.rmtree(d2, ignore_errors=True)
        if sigs and all(by[h.PERMS[0]][0] == "raise" for by in sigs.values()):
            col.bump("walk_stage_vacuous_libraries")  # the CasADi generator rejects every class of this library
        for name, by in sigs.items():
            base = by[h.PERMS[0]]
            for perm, sig in by.items():
                if sig[0] != base[0] or (sig[0] == "ok" and sig != base):
                    col.violation(f"walk:{lib}:{name}:order={''.join(map(str, perm))}",
                                  f"_compile_model({name}) with the files walked in order {perm} gives {sig[0]}, order {h.PERMS[0]} gives {base[0]} or a different model",
                                  {"lib": lib, "class": name, "order": list(perm), "files": h.FILES})
    except Exception as e:
        import traceback
        col.harness_error(f"walk stage {lib}: " + traceback.format_exc()[-600:])
    finally:
        shutil.rmtree(d, ignore_errors=True)
    return col


def main():
    a = std_args(PROP)
    if a.replay:
        r = json.load(open(a.replay))["replay"]
        code = f"import os;os.environ['VERIF_PIN']='lib={r['lib']}';from props import h27;print('RES',h27.order({r['pi']},{r['style']},3,4,5,6))"
        p = subprocess.run([sys.executable, "-c", code], capture_output=True, text=True, env=dict(os.environ))
        print(p.stdout[-300:], p.stderr[-300:])
        return 0 if "RES 1" in p.stdout else 1
    rep = Report(PROP, a.tier, "model_checking", a.seed)
    import math
    spec = []
    for lib in LIBNAMES:
        n = math.factorial(NFILES[lib])
        perms = range(1, n)
        if a.tier == "quick" and lib == "four":
            perms = [p for p in perms if p % 3 == 1]  # 8 of the 23 non-identity orders; all in thorough
        for pi in perms:
            for style in ((0, 1) if (a.tier == "thorough" or lib in ("nested", "pkgconst")) else (pi % 2,)):
                spec.append(("order", f"lib={lib},pi={pi},style={style}"))
    spec.append(("reach_order", "lib=nested,pi=1,style=0"))
    vs = chx.run(HARNESS, spec, jobs=a.jobs, cond_timeout=420 if a.tier == "quick" else 1500, path_timeout=120)
    reach = [v for v in vs if v.func.startswith("reach_")]
    vs = [v for v in vs if not v.func.startswith("reach_")]
    n = chx.summarize(rep, vs)
    for v in reach:
        rep.coverage["reachability_witness"] = v.kind == "counterexample"
        if v.kind != "counterexample":
            rep.harness_error(f"reachability twin did not produce a witness: {v.kind} {v.detail[:200]}")
    for v in vs:
        if v.kind in ("counterexample", "exception"):
            pins = dict(kv.split("=") for kv in v.pin.split(","))
            argtxt = chx.call_args(v.detail) or ""
            args = [int(x) for x in re.findall(r"-?\d+", argtxt)]
            vals = args[2:6] if len(args) >= 6 else [3, 4, 5, 6]
            code = f"import os;os.environ['VERIF_PIN']='lib={pins['lib']}';from props import h27;print('RES',h27.order({pins['pi']},{pins['style']},*{vals!r}),h27.PERMS[{pins['pi']}])"
            p = subprocess.run([sys.executable, "-c", code], capture_output=True, text=True, env=dict(os.environ), timeout=600)
            res = re.findall(r"RES (\S+) (\(.*\))", p.stdout)
            if res and res[0][0] == "1":
                rep.harness_error(f"counterexample order[{v.pin}]({argtxt}) did not reproduce concretely")
                continue
            perm = res[0][1] if res else "?"
            rep.violation(f"{pins['lib']}:order={perm}:style={pins['style']}",
                          f"library '{pins['lib']}': merging the files in order {perm} ({'onto an empty Tree' if pins['style'] == '0' else 'onto the first file'}) gives different flattened "
                          f"models than order (0, 1, ...) ({p.stderr[-150:] if not res else ''})",
                          {"lib": pins["lib"], "pi": int(pins["pi"]), "style": int(pins["style"]), "literals": vals})
    if a.tier == "thorough":
        for col in run_parallel(walk_stage, LIBNAMES, a.jobs):
            rep.merge(col)
    else:
        for col in run_parallel(walk_stage, ["plain", "placeholder-only", "nested"], a.jobs):
            rep.merge(col)
    cov = rep.coverage
    cov["states"] = max(1, n["confirmed"])
    cov["transitions"] = max(1, len(vs))
    cov["traces_validated_against_impl"] = cov.get("api_walk_compiles", 0)
    cov["samples"] = [{"function": v.func, "pin": v.pin, "verdict": v.kind, "secs": round(v.secs, 1)} for v in vs][:10]
    cov["exhaustive"] = all(v.kind == "confirmed" for v in vs)
    cov["functions_encoded"] = ["parser.file_to_tree (concrete, outside tracing)", "ast.Tree.extend / Class._extend / update_parent_refs, tree.flatten (executed symbolically by CrossHair, literals symbolic)",
                                "casadi.api._compile_model directory walk (concrete, os.walk order permuted)"]
    cov["bounds"] = ("5 libraries split into 2-4 files with within clauses (package constant used from a within file; nested package with constant, its own file and files within it; placeholder-only "
                     "package; 4 files incl. a sub-package file with type alias and import; plain top-level models), every file permutation (quick: 8 of 23 for the 4-file library), "
                     "two merge styles; 4 symbolic integer literals per library")
    rep.assumptions += ["only order-independence is demanded, as stated - not equality with an unsplit library", "files are parsed outside tracing; literals are substituted into the parsed trees"]
    return rep.finish()


if __name__ == "__main__":
    sys.exit(main())
