"""C27 - assembling a library from several files is order-independent (Engine A, CrossHair; props/h27.py).

Real code: parser.file_to_tree (within-clause placeholder packages; files parsed outside tracing),
Tree.extend / Class._extend / update_parent_refs, tree.flatten.  Symbolic: every literal of the library
(package constants included).  One shard per (library, file permutation, merge style): the flat model of
every class after merging in that order must equal the one after merging in order 0, or both must raise.
`history` shards re-parse every file at the moment it is merged, with two sets of symbolic literals one after
the other in one process (anything the parser keeps between parses is part of the claim).

Concrete stages (structural facts: which definitions / names / prefixes end up in the merged tree, accept or
reject, identical JSON):
 * sequence: in one new process per library all orders x three merge styles (onto an empty Tree, onto the first
   file's tree, tools.compiler.parse_all on real files) with one set of literals, then with another set under
   the same package / class names, then the first set again; then every order as the first use of freshly
   re-imported pymoca.ast / parser / tree modules; everything must equal the process's first assembly;
 * first use: a file order is assembled (parse and merge interleaved) as the FIRST thing a new process does
   (quick: the reversed order, thorough: every order) and compared with the sequence process's first assembly;
 * walk: casadi.api._compile_model on real folders - os.walk presenting the files in every order, a
   package.mo layout with identical base names, and every distribution of the files over the model folder
   and one or two `library_folders`."""
import itertools
import json
import logging
import math
import os
import re
import shutil
import subprocess
import sys
import tempfile

from vk import chx
from vk.report import Collector, Report, std_args

PROP = "C27"
HARNESS = os.path.join(os.path.dirname(os.path.abspath(__file__)), "h27.py")
LIBNAMES = ["pkgconst", "nested", "placeholder-only", "four", "plain"]
NFILES = {"pkgconst": 2, "nested": 3, "placeholder-only": 3, "four": 4, "plain": 3,
          "imports-only": 3, "qualified-import": 3, "extends-only": 2, "deep": 4, "shadow": 4, "same-name": 3,
          "two-packages": 4, "prefixes": 4}
# libraries added for the classes "own file of a package without constants" / deeper nesting / shadowing
XLIBS = ["imports-only", "qualified-import", "extends-only", "deep", "shadow", "same-name", "two-packages"]
# quick tier: the orders in which the package's own file comes after a file `within` it
XQUICK = {"imports-only": (1, 4), "extends-only": (1,)}
# history shards (library, order index): orders that start with a `within` file
HIST_QUICK = [("pkgconst", 1, 1), ("nested", 5, 0)]
CONCRETE_LIBS = LIBNAMES + XLIBS + ["prefixes"]
WALK_QUICK = ["plain", "placeholder-only", "nested", "imports-only", "pkgconst"]
WALK_THOROUGH = LIBNAMES + XLIBS
LIT_A = (7001, 7002, 7003, 7004)  # the placeholders themselves
LIT_B = (8001, 8002, 8003, 8004)


def _texts(files, vals):
    out = []
    for txt in files:
        for k, v in enumerate(vals):
            txt = txt.replace(str(7001 + k), str(v))
        out.append(txt)
    return out


def _model_sig(m):
    """Structural signature of a CasADi model: variable names per category, attribute expressions, equations."""
    def attrs(vs):
        return [(v.symbol.name(), str(v.value), str(v.start), str(v.min), str(v.max), str(v.nominal)) for v in vs]
    return ("ok", [v.symbol.name() for v in m.states + m.alg_states + m.parameters + m.constants], [str(e) for e in m.equations],
            attrs(m.states + m.alg_states + m.parameters + m.constants))


def walk_stage(arg):
    """Real casadi.api._compile_model on a real folder; os.walk is wrapped to present the files in every order."""
    lib, tier = arg if isinstance(arg, tuple) else (arg, "quick")
    logging.disable(logging.CRITICAL)
    os.environ["VERIF_PIN"] = "lib=" + lib
    col = Collector()
    d = tempfile.mkdtemp(prefix="c27_")
    try:
        import importlib
        import vk.chstubs
        importlib.reload(vk.chstubs)
        import props.h27 as h
        importlib.reload(h)
        from pymoca.backends.casadi import api as A
        texts = _texts(h.FILES, (3, 4, 5, 6))
        for i, txt in enumerate(texts):
            open(os.path.join(d, f"f{i}.mo"), "w").write(txt)

        def compile_(folder, name, options=None):
            try:
                sig = _model_sig(A._compile_model(folder, name, A._merge_default_options(dict(options or {}))))
            except Exception as e:
                sig = ("raise", type(e).__name__)
            col.bump("api_walk_compiles")
            return sig

        real_walk = os.walk
        sigs = {}
        for perm in h.PERMS:
            def walk(folder, followlinks=True, _p=perm):
                for root, dirs, files in real_walk(folder, followlinks=followlinks):
                    yield root, dirs, [f"f{i}.mo" for i in _p]
            A.os = type("osproxy", (), {"walk": staticmethod(walk), "path": os.path, "name": os.name})
            try:
                for name in h.NAMES:
                    sigs.setdefault(name, {})[perm] = compile_(d, name)
            finally:
                A.os = os
        # same files in sub-folders under IDENTICAL base names (package.mo layout), walked by the real os.walk:
        # must give the same models as the flat layout
        d2 = tempfile.mkdtemp(prefix="c27n_")
        try:
            for i, txt in enumerate(texts):
                sub = os.path.join(d2, *[f"s{j}" for j in range(i + 1)])
                os.makedirs(sub, exist_ok=True)
                open(os.path.join(sub, "package.mo"), "w").write(txt)
            for name in h.NAMES:
                sigs.setdefault(name, {})[("same-base-names",)] = compile_(d2, name)
        finally:
            shutil.rmtree(d2, ignore_errors=True)
        # every distribution of the files over the model folder (M) and the library folders (L1, L2) given in the
        # `library_folders` option, in both folder orders: a package may have its own file in one folder and the
        # files within it in another one.  Same models as the flat single-folder layout are demanded.
        folders = ("M", "L1", "L2") if tier == "thorough" else ("M", "L1")
        d3 = tempfile.mkdtemp(prefix="c27f_")
        try:
            for n_assign, assign in enumerate(itertools.product(folders, repeat=len(texts))):
                if set(assign) == {"M"}:
                    continue  # the single-folder layout above
                base = os.path.join(d3, str(n_assign))
                for f in folders:
                    os.makedirs(os.path.join(base, f))
                for i, txt in enumerate(texts):
                    open(os.path.join(base, assign[i], f"f{i}.mo"), "w").write(txt)
                open(os.path.join(base, "L1", "notes.txt"), "w").write("not a Modelica file\n")
                libs = [os.path.join(base, f) for f in folders[1:]]
                for lf_tag, lf in (("", libs), ("rev", libs[::-1])) if len(libs) > 1 else (("", libs),):
                    for name in h.NAMES:
                        key = ("folders", ",".join(assign) + (":" + lf_tag if lf_tag else ""))
                        sigs.setdefault(name, {})[key] = compile_(os.path.join(base, "M"), name, {"library_folders": lf})
                        col.bump("api_library_folder_compiles")
        finally:
            shutil.rmtree(d3, ignore_errors=True)
        if sigs and all(by[h.PERMS[0]][0] == "raise" for by in sigs.values()):
            col.bump("walk_stage_vacuous_libraries")  # the CasADi generator rejects every class of this library
        for name, by in sigs.items():
            base = by[h.PERMS[0]]
            for perm, sig in by.items():
                if sig[0] != base[0] or (sig[0] == "ok" and sig != base):
                    if perm and perm[0] == "folders":
                        col.violation(f"walk:{lib}:{name}:folders={perm[1]}",
                                      f"_compile_model({name}) with the files f0.. distributed over model folder M / library_folders L1.. as {perm[1]} gives {sig[0]}"
                                      f"{' ' + sig[1] if sig[0] == 'raise' else ''}, all files in one folder give {base[0]} or a different model",
                                      {"lib": lib, "class": name, "folders": perm[1], "files": h.FILES})
                        continue
                    col.violation(f"walk:{lib}:{name}:order={''.join(map(str, perm))}",
                                  f"_compile_model({name}) with the files walked in order {perm} gives {sig[0]}, order {h.PERMS[0]} gives {base[0]} or a different model",
                                  {"lib": lib, "class": name, "order": list(perm), "files": h.FILES})
    except Exception as e:
        import traceback
        col.harness_error(f"walk stage {lib}: " + traceback.format_exc()[-600:])
    finally:
        shutil.rmtree(d, ignore_errors=True)
    return col


# ---------------------------------------------------------------------------------------------------------
# concrete assembly stages: fresh parses, parse and merge interleaved, in pristine processes
# ---------------------------------------------------------------------------------------------------------
_LIBS = None


def _lib(lib):
    """(files, names) of a library of props/h27.py, read from the SOURCE text: importing h27 would parse a
    library (the parser of the process would no longer be pristine) and pull in CrossHair and CasADi."""
    global _LIBS
    if _LIBS is None:
        import ast as pyast
        for node in pyast.parse(open(HARNESS).read()).body:
            if isinstance(node, pyast.Assign) and getattr(node.targets[0], "id", "") == "LIBS":
                _LIBS = pyast.literal_eval(node.value)
    return _LIBS[lib]


_prepared = False


def _prepare_parent():
    """Import (not use) pymoca once in the parent, so that the forked children start in milliseconds, and warm up
    the DFA cache of the generated ANTLR recogniser (a cold one costs seconds per process) by running lexer +
    parser alone over the library texts.  No pymoca code besides the generated recogniser runs here: ASTListener
    / file_to_tree / ast have not been used by any process forked afterwards."""
    global _prepared
    if _prepared:
        return
    _prepared = True
    import antlr4
    import pymoca.ast, pymoca.parser, pymoca.tree  # noqa: F401,E401
    import tools.compiler  # noqa: F401
    from pymoca.generated.ModelicaLexer import ModelicaLexer
    from pymoca.generated.ModelicaParser import ModelicaParser
    for lib in CONCRETE_LIBS:
        for txt in _lib(lib)[0]:
            ModelicaParser(antlr4.CommonTokenStream(ModelicaLexer(antlr4.InputStream(txt)))).stored_definition()
    logging.disable(logging.CRITICAL)


def _assemble(texts, perm, style, folder=None):
    """style 0: onto an empty Tree; 1: onto the first file's tree; 2: tools.compiler.parse_all on real files
    listed in this order; 3: parse_all on the folder (its own glob order).  Every file is parsed anew."""
    from pymoca import ast, parser
    if style >= 2:
        from pathlib import Path
        from tools import compiler
        t = ast.Tree(name="ModelicaTree")
        paths = [Path(folder) / f"f{i}.mo" for i in perm] if style == 2 else [Path(folder)]
        files, errors = compiler.parse_all(paths, t)
        if errors or len(files) != len(texts):
            raise ValueError(f"parse_all: {len(files)} files, errors {errors}")
        return t
    t = ast.Tree(name="ModelicaTree") if style == 0 else None
    for i in perm:
        x = parser.parse(texts[i], bypass_cache=True)
        if x is None:
            raise ValueError("library file does not parse")
        if t is None:
            t = x
        else:
            t.extend(x)
    return t


def _parents_ok(c):
    return all(k.parent is c and _parents_ok(k) for k in c.classes.values())


def _observe(texts, names, perm, style, folder=None):
    """(merged tree as JSON taken BEFORE any flatten, parent links consistent, [flat model JSON or raise])."""
    from pymoca import ast, tree
    t = _assemble(texts, perm, style, folder)
    tj = json.loads(json.dumps(ast.Node.to_json(t), sort_keys=True, default=str))
    flats = []
    for n in names:
        try:
            flats.append(("ok", json.dumps(ast.Node.to_json(tree.flatten(t, ast.ComponentRef.from_string(n))), sort_keys=True, default=str)))
        except Exception as e:
            flats.append(("raise", type(e).__name__))
    return tj, _parents_ok(t), flats


def _tree_diffs(a, b, path=""):
    """Names (class path, attribute) where two merged trees differ; the order of dict entries is not compared."""
    out = []
    ca_, cb = a.get("classes", {}), b.get("classes", {})
    if set(ca_) != set(cb):
        out.append((path or "<root>", "classes"))
    for k in sorted(set(ca_) & set(cb)):
        sub = (path + "." + k) if path else k
        for attr in sorted(set(ca_[k]) | set(cb[k])):
            if attr != "classes" and ca_[k].get(attr) != cb[k].get(attr):
                out.append((sub, attr))
        out += _tree_diffs(ca_[k], cb[k], sub)
    return out


def _compare(col, lib, names, files, tag, ref, got, what_ref, what_got):
    """Report every structural difference between two observations of the same library."""
    (tj0, p0, fl0), (tj, p, fl) = ref, got
    if not p:
        col.violation(f"tree:{lib}:<parent-links>", f"library '{lib}' [{tag}] {what_got}: a class of the merged tree has a parent link that is not its enclosing class",
                      {"lib": lib, "stage": tag, "files": files, "got": what_got})
    for path, attr in _tree_diffs(tj0, tj):
        col.violation(f"tree:{lib}:{path}:{attr}",
                      f"library '{lib}' [{tag}]: attribute '{attr}' of class {path} in the merged tree differs between {what_ref} and {what_got}",
                      {"lib": lib, "stage": tag, "files": files, "ref": what_ref, "got": what_got})
    for n, x, y in zip(names, fl0, fl):
        if x[0] != y[0] or (x[0] == "ok" and x[1] != y[1]):
            col.violation(f"flat:{lib}:{n}",
                          f"library '{lib}' [{tag}]: flattening {n} gives {x[0]}{' ' + x[1] if x[0] == 'raise' else ''} for {what_ref} and "
                          f"{y[0]}{' ' + y[1] if y[0] == 'raise' else ' (another model)' if x[0] == 'ok' else ''} for {what_got}",
                          {"lib": lib, "stage": tag, "files": files, "ref": what_ref, "got": what_got})


def first_use_task(arg):
    """In a pristine process: assemble the library in ONE order as the first parser activity; return the observation."""
    lib, pi, style = arg
    logging.disable(logging.CRITICAL)
    try:
        files, names = _lib(lib)
        perm = list(itertools.permutations(range(len(files))))[pi]
        return (lib, pi, style, perm, (names, files, _observe(_texts(files, LIT_A), names, perm, style)), None)
    except Exception:
        import traceback
        return (lib, pi, style, None, None, traceback.format_exc()[-600:])


def _reload_pymoca():
    import importlib
    import pymoca.ast
    import pymoca.parser
    import pymoca.tree
    for m in (pymoca.ast, pymoca.parser, pymoca.tree):
        importlib.reload(m)


def _relabel(obs, a, b):
    s = json.dumps(obs)
    for x, y in zip(a, b):
        s = s.replace(str(x), str(y))
    tj, p, fl = json.loads(s)
    return tj, p, [tuple(f) for f in fl]


def _sequence_plan(perms, rnd, tier):
    """(order, style) pairs of one round.  Round A2 replays the first and the last order only.  thorough: every
    order x styles 0, 1, 2; quick: every order x styles 0, 1 (4-file libraries: alternating), style 2 (real files
    through tools.compiler.parse_all) for every third order.  Style 3 (parse_all on the folder) once."""
    if rnd == "A2":
        return [(p, s) for p in (perms[0], perms[-1]) for s in (0, 1, 2)]
    todo = []
    for pi, p in enumerate(perms):
        for s in (0, 1, 2):
            if tier == "thorough" or (s == 2 and pi % 3 == 0) or (s < 2 and (len(perms) <= 6 or s == (pi + (rnd == "B")) % 2)):
                todo.append((p, s))
    return todo + [(perms[0], 3)]


def sequence_task(arg):
    """One process: all orders x merge styles with literals A, then with literals B (same names), then A again."""
    lib, tier = arg
    logging.disable(logging.CRITICAL)
    col = Collector()
    d = tempfile.mkdtemp(prefix="c27s_")
    try:
        files, names = _lib(lib)
        perms = list(itertools.permutations(range(len(files))))
        refs = {}
        for rnd, lits in (("A", LIT_A), ("B", LIT_B), ("A2", LIT_A)):
            texts = _texts(files, lits)
            folder = os.path.join(d, rnd)
            os.makedirs(folder)
            for i, txt in enumerate(texts):
                open(os.path.join(folder, f"f{i}.mo"), "w").write(txt)
            todo = _sequence_plan(perms, rnd, tier)
            for perm, style in todo:
                obs = _observe(texts, names, perm, style, folder)
                col.bump("assemblies_in_sequence")
                what = f"order {perm} style {style} (round {rnd})"
                if rnd not in refs:
                    refs[rnd] = (obs, what)
                    if rnd == "B":  # other literals under the same names: the first round's result, relabelled
                        _compare(col, lib, names, files, "sequence", _relabel(refs["A"][0], LIT_A, LIT_B), obs,
                                 refs["A"][1] + " with the literals renamed", what)
                    continue
                base = refs["A"] if rnd == "A2" else refs[rnd]
                _compare(col, lib, names, files, "sequence", base[0], obs, base[1], what)
        # every order as the first use of freshly re-imported pymoca modules: whatever ast / parser / tree keep at
        # module level between parses is reset, the ANTLR recogniser stays warm (a new process per order costs
        # seconds; the thorough tier does that too, see _first_use_tasks)
        texts = _texts(files, LIT_A)
        for pi, perm in enumerate(perms):
            for style in ((0, 1) if tier == "thorough" or len(perms) <= 6 else (pi % 2,)):
                _reload_pymoca()
                obs = _observe(texts, names, perm, style)
                col.bump("assemblies_after_module_reload")
                _compare(col, lib, names, files, "fresh-modules", refs["A"][0], obs, refs["A"][1],
                         f"order {perm} style {style} (first use after re-importing pymoca.ast / parser / tree)")
        if all(f[0] == "raise" for f in refs["A"][0][2]):
            col.bump("sequence_stage_vacuous_libraries")
        # the first assembly of this process was the first parser use of a new process: reference of the first-use stage
        col.first_use = (lib, 0, 0, perms[0], (names, files, refs["A"][0]), None)
    except Exception:
        import traceback
        col.harness_error(f"sequence stage {lib}: " + traceback.format_exc()[-600:])
    finally:
        shutil.rmtree(d, ignore_errors=True)
    return col


def _fresh_pool_map(fn, items, jobs):
    """Like run_parallel, but every item runs in its own forked process (parser state is per process)."""
    import multiprocessing as mp
    _prepare_parent()
    ctx = mp.get_context("fork")
    with ctx.Pool(max(1, min(jobs, len(items))), maxtasksperchild=1) as pool:
        return pool.map(fn, items, chunksize=1)


def _first_use_compare(results):
    by_lib = {}
    col = Collector()
    for lib, pi, style, perm, obs, err in results:
        if err:
            col.harness_error(f"first-use stage {lib} pi={pi}: {err}")
            continue
        by_lib.setdefault(lib, []).append((perm, style, obs))
        col.bump("first_use_assemblies")
    for lib, lst in by_lib.items():
        perm0, style0, (names, files, ref) = lst[0]
        for perm, style, (_n, _f, obs) in lst[1:]:
            _compare(col, lib, names, files, "first-use", ref, obs,
                     f"order {perm0} style {style0} (first use in a new process)", f"order {perm} style {style} (first use in a new process)")
    return col


def _first_use_tasks(tier):
    """Orders assembled as the very first parser use of a NEW process (seconds of process start-up each), compared
    with the first assembly (order 0, style 0) of the library's sequence process.  thorough: every order, styles
    alternating; quick: the reversed order (all `within` files before the package's own file) of every library
    with a within clause."""
    tasks = []
    for lib in CONCRETE_LIBS:
        n = math.factorial(NFILES[lib])
        if tier == "thorough":
            tasks += [(lib, pi, pi % 2) for pi in range(1, n)]
        elif lib != "plain":
            tasks.append((lib, n - 1, 1))
    return tasks


def _dispatch(task):
    kind, arg = task
    return kind, {"first": first_use_task, "seq": sequence_task, "walk": walk_stage}[kind](arg)


def concrete_stages(tier, jobs):
    """All concrete stages in one pool of single-use processes, the long tasks first.  -> list of Collector"""
    walk_libs = WALK_THOROUGH if tier == "thorough" else WALK_QUICK
    tasks = [("walk", (lib, tier)) for lib in sorted(walk_libs, key=lambda x: -NFILES[x])]
    tasks += [("seq", (lib, tier)) for lib in sorted(CONCRETE_LIBS, key=lambda x: -NFILES[x])]
    tasks += [("first", t) for t in _first_use_tasks(tier)]
    first, cols = [], []
    for kind, res in _fresh_pool_map(_dispatch, tasks, jobs):
        if kind == "first":
            first.append(res)
        else:
            cols.append(res)
            if getattr(res, "first_use", None):
                first.insert(0, res.first_use)  # references go first
    return cols + [_first_use_compare(first)]


def _concrete_bg(tier, jobs, conn):
    try:
        conn.send(concrete_stages(tier, jobs))
    except Exception:
        import traceback
        col = Collector()
        col.harness_error("concrete stages: " + traceback.format_exc()[-800:])
        conn.send([col])
    finally:
        conn.close()


def start_concrete_stages(tier, jobs):
    """Run the concrete stages in a process of their own, next to the CrossHair shards (they fill the cores the
    last CrossHair shards leave idle).  -> function that waits for and returns the list of Collector."""
    import multiprocessing as mp
    ctx = mp.get_context("fork")
    recv, send = ctx.Pipe(duplex=False)
    proc = ctx.Process(target=_concrete_bg, args=(tier, jobs, send))
    proc.start()
    send.close()

    def wait():
        try:
            cols = recv.recv()
        except EOFError:
            col = Collector()
            col.harness_error("concrete stages: the process ended without a result")
            cols = [col]
        proc.join()
        return cols
    return wait


def _concrete_replay(func, pins, vals):
    code = (f"import os;os.environ['VERIF_PIN']='lib={pins['lib']}';from props import h27;"
            f"print('RES',h27.{func}({pins['pi']},{pins['style']},*{list(vals)!r}),h27.PERMS[{pins['pi']}])")
    p = subprocess.run([sys.executable, "-c", code], capture_output=True, text=True, env=dict(os.environ), timeout=600)
    return re.findall(r"RES (\S+) (\(.*\))", p.stdout), p


def main():
    a = std_args(PROP)
    if a.replay:
        r = json.load(open(a.replay))["replay"]
        if "pi" not in r:  # a case of the concrete stages: run them again for this library only
            case = json.load(open(a.replay))["case"]
            stages = [lambda: walk_stage((r["lib"], "thorough"))] if case.startswith("walk:") else [
                lambda: sequence_task((r["lib"], "thorough")),
                lambda: _first_use_compare(_fresh_pool_map(first_use_task, [(r["lib"], pi, pi % 2) for pi in range(math.factorial(NFILES[r["lib"]]))], a.jobs))]
            for stage in stages:
                hits = [(c, w) for c, w, _ in stage().violations if c == case]
                for c, w in hits[:3]:
                    print("REPRODUCED", c, w)
                if hits:
                    return 1
            return 0
        func = r.get("func", "order")
        res, p = _concrete_replay(func, {"lib": r["lib"], "pi": r["pi"], "style": r["style"]}, r.get("literals", [3, 4, 5, 6]))
        print(p.stdout[-300:], p.stderr[-300:])
        return 0 if res and res[0][0] == "1" else 1
    rep = Report(PROP, a.tier, "model_checking", a.seed)
    spec = []
    for lib, pi, style in (HIST_QUICK if a.tier == "quick" else
                           [(lib, pi, s) for lib in ("pkgconst", "nested") for pi in range(1, math.factorial(NFILES[lib])) for s in (0, 1)]
                           + [("imports-only", pi, pi % 2) for pi in range(1, 6)] + [("four", pi, pi % 2) for pi in (5, 11, 17, 23)] + [("deep", 23, 0), ("deep", 9, 1)]):
        spec.append(("history", f"lib={lib},pi={pi},style={style}"))
    for lib in LIBNAMES:
        n = math.factorial(NFILES[lib])
        perms = range(1, n)
        if a.tier == "quick" and lib == "four":
            perms = [p for p in perms if p % 3 == 1]  # 8 of the 23 non-identity orders; all in thorough
        for pi in perms:
            for style in ((0, 1) if (a.tier == "thorough" or lib in ("nested", "pkgconst")) else (pi % 2,)):
                spec.append(("order", f"lib={lib},pi={pi},style={style}"))
    for lib in XLIBS:
        perms = XQUICK.get(lib, ())
        if a.tier == "thorough":  # every order of the 2- and 3-file libraries, 8 of 23 of the 4-file ones
            perms = [p for p in range(1, math.factorial(NFILES[lib])) if NFILES[lib] < 4 or p % 3 == 2]
        for pi in perms:
            for style in ((0, 1) if (a.tier == "thorough" and NFILES[lib] < 4) else (pi % 2,)):
                spec.append(("order", f"lib={lib},pi={pi},style={style}"))
    spec.append(("reach_order", "lib=nested,pi=1,style=0"))
    wait_concrete = start_concrete_stages(a.tier, max(2, a.jobs // 2))
    vs = chx.run(HARNESS, spec, jobs=a.jobs, cond_timeout=420 if a.tier == "quick" else 1500, path_timeout=120)
    reach = [v for v in vs if v.func.startswith("reach_")]
    vs = [v for v in vs if not v.func.startswith("reach_")]
    # A `history` shard on which CrossHair itself fails (an execution that is not deterministic across paths is what
    # state kept by the parser between parses looks like) is decided by the concrete replay below.
    undecided_hist = [v for v in vs if v.func == "history" and v.kind not in ("confirmed", "counterexample", "exception")]
    for v in undecided_hist:
        pins = dict(kv.split("=") for kv in v.pin.split(","))
        res, p = _concrete_replay("history", pins, [3, 4, 5, 6, 13, 14, 15, 16])
        if res and res[0][0] == "0":
            v.kind, v.detail = "counterexample", f"false when calling history({pins['pi']}, {pins['style']}, 3, 4, 5, 6, 13, 14, 15, 16) [concrete run after: {v.detail[:80]}]"
    n = chx.summarize(rep, vs)
    for v in reach:
        rep.coverage["reachability_witness"] = v.kind == "counterexample"
        if v.kind != "counterexample":
            rep.harness_error(f"reachability twin did not produce a witness: {v.kind} {v.detail[:200]}")
    for v in vs:
        if v.kind in ("counterexample", "exception"):
            pins = dict(kv.split("=") for kv in v.pin.split(","))
            argtxt = chx.call_args(v.detail) or ""
            args = [int(x) for x in re.findall(r"-?\d+", argtxt)]
            if v.func == "history":
                vals = args[2:10] if len(args) >= 10 else [3, 4, 5, 6, 13, 14, 15, 16]
            else:
                vals = args[2:6] if len(args) >= 6 else [3, 4, 5, 6]
            res, p = _concrete_replay(v.func, pins, vals)
            if res and res[0][0] == "1":
                rep.harness_error(f"counterexample {v.func}[{v.pin}]({argtxt}) did not reproduce concretely")
                continue
            perm = res[0][1] if res else "?"
            if v.func == "history":
                rep.violation(f"history:{pins['lib']}:order={perm}:style={pins['style']}",
                              f"library '{pins['lib']}': after the library was parsed and merged once in this process with literals {vals[:4]}, parsing and merging the same files with "
                              f"literals {vals[4:]} in order {perm} gives different flattened models than in order (0, 1, ...) or than trees parsed before any merge "
                              f"({p.stderr[-150:] if not res else ''})",
                              {"func": "history", "lib": pins["lib"], "pi": int(pins["pi"]), "style": int(pins["style"]), "literals": vals})
                continue
            rep.violation(f"{pins['lib']}:order={perm}:style={pins['style']}",
                          f"library '{pins['lib']}': merging the files in order {perm} ({'onto an empty Tree' if pins['style'] == '0' else 'onto the first file'}) gives different flattened "
                          f"models than order (0, 1, ...) ({p.stderr[-150:] if not res else ''})",
                          {"lib": pins["lib"], "pi": int(pins["pi"]), "style": int(pins["style"]), "literals": vals})
    for col in wait_concrete():
        rep.merge(col)
    cov = rep.coverage
    cov["states"] = max(1, n["confirmed"])
    cov["transitions"] = max(1, len(vs))
    cov["traces_validated_against_impl"] = sum(cov.get(k, 0) for k in ("api_walk_compiles", "first_use_assemblies", "assemblies_in_sequence", "assemblies_after_module_reload"))
    cov["samples"] = [{"function": v.func, "pin": v.pin, "verdict": v.kind, "secs": round(v.secs, 1)} for v in vs][:10]
    cov["exhaustive"] = all(v.kind == "confirmed" for v in vs)
    cov["functions_encoded"] = ["parser.file_to_tree (concrete, outside tracing; in `history` shards and the concrete stages re-run for every merge)",
                                "ast.Tree.extend / Class._extend / update_parent_refs, tree.flatten (executed symbolically by CrossHair, literals symbolic)",
                                "tools.compiler.parse_all / list_modelica_files (concrete, real files, listed in every order and as a folder)",
                                "casadi.api._compile_model directory walk (concrete, os.walk order permuted; model folder + library_folders)"]
    n_hist = sum(1 for v in vs if v.func == "history")
    cov["bounds"] = ("CrossHair: 12 libraries split into 2-4 files with within clauses (package constant used from a within file; nested package with constant, its own file and files within it; "
                     "placeholder-only package; 4 files incl. a sub-package file with type alias and import; plain top-level models; package own file with only renamed/unqualified imports and a "
                     "nested package; own file with only qualified imports; own file with only an extends clause (the package itself is flattened); three levels of within clauses; a class name "
                     "shadowed inside the package; package nested in a package of the same name; two packages using each other).  Orders: the first 5 libraries every file permutation (quick: 8 of "
                     "23 for the 4-file library); the 7 added ones in thorough every permutation of the 2-/3-file libraries and 8 of 23 of the 4-file ones, in quick only the orders with the own "
                     "file after a within file of the imports-only / extends-only libraries; two merge styles; 4 symbolic integer literals per library.  "
                     f"`history` shards ({n_hist}): assemble with literals v, then parse and assemble again with literals w in order 0 and in the pinned order (which starts with a within file), "
                     "8 symbolic literals.  Concrete, the same 12 libraries plus one with class prefixes (final encapsulated partial, annotation), two fixed literal sets: in one new process per "
                     "library every order x {empty Tree, first file's tree} (quick: alternating for 4-file libraries) and tools.compiler.parse_all on real files (quick: every third order), with "
                     "literal set A, then B under the same names, then A again, then every order as first use after re-importing pymoca.ast/parser/tree; merged tree JSON + parent links + flat "
                     "models compared; first parser use of a new process: order 0 and the reversed order per library (thorough: every order).  CasADi API walk: every os.walk order, package.mo "
                     "layout, every distribution of the files over the model folder and 1 (quick) or 2 (thorough, both orders) library_folders, for "
                     + ("all 12" if a.tier == "thorough" else "5 (plain, placeholder-only, nested, imports-only, pkgconst)") + " libraries")
    rep.assumptions += ["only order-independence is demanded, as stated - not equality with an unsplit library", "files are parsed outside tracing; literals are substituted into the parsed trees",
                        "the concrete stages compare structure (merged tree JSON, raise/ok, identical flat model JSON) for two fixed literal sets; value-level equality for all literals is decided by the CrossHair shards",
                        "a `history` shard on which CrossHair reports a non-deterministic execution is decided by a concrete run with literals 3..6 / 13..16 (reported only if that run fails)"]
    return rep.finish()


if __name__ == "__main__":
    sys.exit(main())
