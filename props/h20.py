"""CrossHair harness for C20 / C21: one step of transfer_model / load_model from an arbitrary state of the
model folder, the library folders and the cache file.  Modification times (integer nanoseconds), which
files changed since the cache was written, the stored vs current version and options, and the way the
cache file fails to load are symbolic; os.walk / getmtime / open / pickle.load are stubs that present that
state, _compile_model returns a token and save_model is a recorder."""
import io
import os
import pickle
import shutil
import tempfile
import types

import casadi as ca

from pymoca.backends.casadi import api as A
from vk import chstubs
from vk.chstubs import pin

chstubs.install_format_cut()
chstubs.silence(A)

# ---- a real cache database, produced once by the real save_model (outside tracing)
_tmp = tempfile.mkdtemp(prefix="h20_")
try:
    with open(os.path.join(_tmp, "T.mo"), "w") as _f:
        _f.write("model T\n  parameter Real p = 2;\n  Real x(start = 1);\n  Real y;\nequation\n  der(x) = -p * x;\n  y = 2 * x;\nend T;\n")
    import logging
    logging.disable(logging.CRITICAL)
    A.transfer_model(_tmp, "T", {"cache": True})
    with open(os.path.join(_tmp, "T.pymoca_cache"), "rb") as _f:
        _DB = pickle.load(_f)
    logging.disable(logging.NOTSET)
finally:
    shutil.rmtree(_tmp, ignore_errors=True)

_real_open = open
_real_os = os
_real_pickle = pickle
_real_compile = A._compile_model
_real_save = A.save_model
_real_ca = A.ca

FOLDER = "/mdl"
LIBS = ["/lib", "/lib2"]
REGEX = [None, "^a$", "^b$"]
EXC = [None, pickle.UnpicklingError, EOFError, AttributeError, ImportError, IndexError]


class MTime:
    """A modification time with sub-second resolution: q quarter-seconds.  Ordering compares q, while int()
    and float() behave like the real float seconds - so code that truncates mtimes to whole seconds before
    comparing them (a strictly later edit within the same second) is distinguishable from code that does not."""

    def __init__(self, q):
        self.q = q

    def _q(self, other):
        return other.q if isinstance(other, MTime) else other * 4

    def __gt__(self, other):
        return self.q > self._q(other)

    def __lt__(self, other):
        return self.q < self._q(other)

    def __ge__(self, other):
        return self.q >= self._q(other)

    def __le__(self, other):
        return self.q <= self._q(other)

    def __eq__(self, other):
        return self.q == self._q(other)

    def __ne__(self, other):
        return self.q != self._q(other)

    def __hash__(self):
        return hash(self.q)

    def __int__(self):
        return self.q // 4

    def __trunc__(self):
        return self.q // 4

    def __floor__(self):
        return self.q // 4

    def __round__(self, n=None):
        return (self.q + 2) // 4

    def __float__(self):
        return self.q / 4.0


class _CaProxy:
    """casadi with `external` (loading a compiled library) replaced: the library 'is' the cached Function."""

    def __getattr__(self, k):
        return getattr(_real_ca, k)

    @staticmethod
    def external(name, path):
        return _DB[name]


def _run(files, m_cache, cache_exists, db, load_exc, options, raw_kind=0):
    """files: {path: mtime}; returns (result token / 'CACHED' / ('EXC', type), calls)."""
    calls = []

    def walk(folder, followlinks=True):
        out = {}
        for p in files:
            if p.startswith(folder + "/"):
                d, f = p.rsplit("/", 1)
                out.setdefault(d, []).append(f)
        res = []
        for d in sorted(out):
            res.append((d, [], out[d] + (["T.pymoca_cache"] if d == FOLDER and cache_exists else [])))
        return res

    def getmtime(p):
        if p == FOLDER + "/T.pymoca_cache":
            if not cache_exists:
                raise FileNotFoundError(p)
            return MTime(m_cache)
        return MTime(files[p])

    def _open(p, mode="r", *a, **k):
        if not cache_exists:
            raise FileNotFoundError(p)
        return io.BytesIO(b"")

    def _load(f):
        if load_exc is not None:
            raise load_exc("damaged cache file")
        return db

    osm = types.SimpleNamespace(walk=walk, name=os.name, path=types.SimpleNamespace(getmtime=getmtime, join=os.path.join))
    A.os = osm
    A.open = _open
    A.pickle = types.SimpleNamespace(load=_load, dump=pickle.dump, UnpicklingError=pickle.UnpicklingError, PickleError=pickle.PickleError)
    A._compile_model = lambda folder, name, opts: calls.append("compile") or "FRESH"
    A.save_model = lambda *a, **k: calls.append("save")
    A.ca = _CaProxy()
    try:
        try:
            r = A.transfer_model(FOLDER, "T", options)
        except Exception as e:
            return ("EXC", type(e).__name__), calls
    finally:
        A.os, A.pickle, A._compile_model, A.save_model, A.ca = _real_os, _real_pickle, _real_compile, _real_save, _real_ca
        try:
            del A.open
        except AttributeError:
            pass
    return ("FRESH" if r == "FRESH" else "CACHED"), calls


def _near_version(v):
    """Same public version, different local label / dirty marker (PEP 440 '+local'): still another build."""
    if "+" in v:
        pub, loc = v.split("+", 1)
        return pub + "+" + ("x" + loc if not loc.startswith("x") else loc[1:])
    return v + "+other.build"


def _db(version_same, old, codegen):
    db = dict(_DB)
    old = dict(old)
    near = old.pop("__near__", False)
    db["version"] = A.__version__ if version_same else (_near_version(A.__version__) if near else "0.0.other")
    o = dict(_DB["options"])
    o.update(old)
    o["cache"] = not codegen
    o["codegen"] = codegen
    db["options"] = o
    if codegen:
        for k in ("dae_residual", "initial_residual", "variable_metadata", "delay_arguments"):
            db[k] = "/mdl/T_" + k + ".so"
    return db


def stale(m_t: int, m_u: int, m_l: int, m_n: int, m_c: int, ch_t: bool, u_present: bool, u_new: bool, ch_l: bool, ch_n: bool,
          ver_same: bool, da_old: bool, da_new: bool, rx_old: int, rx_new: int, lib_old: int, lib_new: int, codegen: bool, ver_near: bool = False) -> int:
    """
    pre: pin(codegen=codegen, lib_new=lib_new, lib_old=lib_old)
    pre: 0 <= rx_old <= 2 and 0 <= rx_new <= 2 and 0 <= lib_old <= 2 and 0 <= lib_new <= 2
    pre: all(0 <= x <= 9 for x in (m_t, m_u, m_l, m_n, m_c))
    pre: (not ch_t or m_t > m_c) and (not (u_present and u_new) or m_u > m_c) and (not ch_l or m_l > m_c) and (not ch_n or m_n > m_c)
    post: _ == 1
    """
    return _stale(m_t, m_u, m_l, m_n, m_c, ch_t, u_present, u_new, ch_l, ch_n, ver_same, da_old, da_new, rx_old, rx_new, lib_old, lib_new, codegen, True, ver_near)


def stale_other(m_t: int, m_u: int, m_l: int, m_n: int, m_c: int, ch_t: bool, u_present: bool, u_new: bool, ch_l: bool, ch_n: bool,
                ver_same: bool, da_old: bool, da_new: bool, rx_old: int, rx_new: int, lib_old: int, lib_new: int, codegen: bool, ver_near: bool = False) -> int:
    """
    pre: pin(codegen=codegen, lib_new=lib_new, lib_old=lib_old) and lib_old != lib_new
    pre: 0 <= rx_old <= 2 and 0 <= rx_new <= 2 and 0 <= lib_old <= 2 and 0 <= lib_new <= 2
    pre: all(0 <= x <= 9 for x in (m_t, m_u, m_l, m_n, m_c))
    pre: (not ch_t or m_t > m_c) and (not (u_present and u_new) or m_u > m_c) and (not ch_l or m_l > m_c) and (not ch_n or m_n > m_c)
    post: _ == 1
    """
    # same step with a changed library_folders option, NOT counting that change as a reason to recompile:
    # keeps every other invalidation rule covered while the library_folders finding is open
    return _stale(m_t, m_u, m_l, m_n, m_c, ch_t, u_present, u_new, ch_l, ch_n, ver_same, da_old, da_new, rx_old, rx_new, lib_old, lib_new, codegen, False, ver_near)


def _stale(m_t, m_u, m_l, m_n, m_c, ch_t, u_present, u_new, ch_l, ch_n, ver_same, da_old, da_new, rx_old, rx_new, lib_old, lib_new, codegen, count_lib, ver_near=False):
    # library selection: 0 = no library folder, 1 = /lib, 2 = /lib2 ; each library holds L.mo and sub/N.mo
    files = {FOLDER + "/T.mo": m_t}
    if u_present:
        files[FOLDER + "/U.mo"] = m_u
    for lib in LIBS:
        files[lib + "/L.mo"] = m_l
        files[lib + "/sub/N.mo"] = m_n
    lf_old, lf_new = [], []
    for k in (1, 2):
        if lib_old == k:
            lf_old = [LIBS[k - 1]]
        if lib_new == k:
            lf_new = [LIBS[k - 1]]
    rxo = rxn = None  # concrete value per path (no symbolic list indexing)
    for k in (1, 2):
        if rx_old == k:
            rxo = REGEX[k]
        if rx_new == k:
            rxn = REGEX[k]
    old = {"detect_aliases": da_old, "eliminable_variable_expression": rxo, "library_folders": lf_old, "expand_mx": True, "__near__": ver_near}
    new = {"cache": not codegen, "codegen": codegen, "detect_aliases": da_new, "eliminable_variable_expression": rxn, "library_folders": lf_new}
    res, calls = _run(files, m_c, True, _db(ver_same, old, codegen), None, new)
    src_changed = ch_t or (u_present and u_new) or (lib_new != 0 and (ch_l or ch_n))
    must = src_changed or (not ver_same) or (da_old != da_new) or (rx_old != rx_new) or (count_lib and lib_old != lib_new)
    if must:
        return 1 if (res == "FRESH" and calls == ["compile", "save"]) else 0
    # nothing changed: the cache may be used (recompiling is also correct); never an exception
    return 1 if res in ("CACHED", "FRESH") else 0


def reach_stale(m_t: int, m_u: int, m_l: int, m_n: int, m_c: int, ch_t: bool, u_present: bool, u_new: bool, ch_l: bool, ch_n: bool,
                ver_same: bool, da_old: bool, da_new: bool, rx_old: int, rx_new: int, lib_old: int, lib_new: int, codegen: bool, ver_near: bool = False) -> int:
    """
    pre: pin(codegen=codegen, lib_new=lib_new, lib_old=lib_old)
    pre: 0 <= rx_old <= 2 and 0 <= rx_new <= 2 and 0 <= lib_old <= 2 and 0 <= lib_new <= 2
    pre: all(0 <= x <= 9 for x in (m_t, m_u, m_l, m_n, m_c))
    pre: (not ch_t or m_t > m_c) and (not (u_present and u_new) or m_u > m_c) and (not ch_l or m_l > m_c) and (not ch_n or m_n > m_c)
    post: _ == 0
    """
    return stale(m_t, m_u, m_l, m_n, m_c, ch_t, u_present, u_new, ch_l, ch_n, ver_same, da_old, da_new, rx_old, rx_new, lib_old, lib_new, codegen, ver_near)


def damaged(observe: int, exc: int, m_t: int, m_c: int, codegen: bool, ver_same: bool) -> int:
    """
    pre: 0 <= observe <= 3 and 1 <= exc <= 5 and pin(observe=observe, codegen=codegen) and 0 <= m_t <= 3 and 0 <= m_c <= 3
    post: _ == 1
    """
    # what a reader can observe after a crash / during a concurrent write of save_model:
    # 0 no cache file, 1 empty file, 2 strict prefix, 3 complete file.  1 and 2 make the load raise `exc`.
    files = {FOLDER + "/T.mo": m_t}
    new = {"cache": not codegen, "codegen": codegen}
    load_exc = None
    if observe == 2:
        for k in range(1, 6):  # concrete class per path (no symbolic list indexing)
            if exc == k:
                load_exc = EXC[k]
    elif observe == 1:
        load_exc = EOFError  # an empty file always ends the unpickler with EOFError
    res, calls = _run(files, m_c, observe != 0, _db(ver_same, {"expand_mx": True}, codegen), load_exc, new)
    if observe == 3 and ver_same and not (m_t > m_c):
        return 1 if res in ("CACHED", "FRESH") else 0
    return 1 if (res == "FRESH" and calls == ["compile", "save"]) else 0


def reach_damaged(observe: int, exc: int, m_t: int, m_c: int, codegen: bool, ver_same: bool) -> int:
    """
    pre: 0 <= observe <= 3 and 1 <= exc <= 5 and pin(observe=observe, codegen=codegen) and 0 <= m_t <= 3 and 0 <= m_c <= 3
    post: _ == 0
    """
    return damaged(observe, exc, m_t, m_c, codegen, ver_same)
