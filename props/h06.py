"""Harness for C06: deepcopy a tree (or a copy of it), edit any of the trees through the AST API (operation kind,
side, target class and payload literal chosen by the solver), observe every class of every tree after every
edit - by tree.flatten, or through the SymPy/XML backends, which deep-copy the tree themselves.

Oracle: a tree that was unpickled independently and received exactly the edits of that side, so it is
independent by construction.  What an oracle tree shows is a pure function of the edits applied to it (and, for
edits that transplant a class/symbol taken from another tree, of the edits applied to that source tree before),
so the oracle observation is computed from scratch - fresh tree, replay of the edits, observe - once per
distinct edit list and memoised (`oracle`).  An oracle tree is never copied, never shared and never observed
before its last edit."""
import copy
import pickle

from pymoca import ast, parser
from props.hflat import LIBS, inst, flat, same, tpl
from vk.chstubs import pin, PIN

# Libraries of this check only (hflat.py is shared with C05/C27).  "imp": every spelling of an import - an
# unqualified import in the ENCLOSING package, a renaming and a single-class import in the model itself - so that
# the lookup caches pymoca keeps inside the tree are on the path from the flattened class to the edited class;
# Q.Y has an initial equation (remove_initial_equation needs one).
LIBS.setdefault("imp", ("""
package Q
  model X
    Real v = 7001;
  end X;
  model Y
    Real u(start = 7002);
  initial equation
    u = 7002;
  equation
    der(u) = -u;
  end Y;
end Q;
package P
  import Q.*;
  model M
    import QQ = Q;
    import Q.Y;
    X x;
    QQ.X x2;
    Y y;
    Real m;
  equation
    m = x.v + x2.v + y.u + 7003;
  end M;
end P;
""", ["Q.X", "Q.Y", "P.M"]))

LIB = PIN.get("lib", "comp")
NAMES = LIBS[LIB][1]
N = len(NAMES)
tpl(LIB)

# 0-5: the original edit kinds (payload: a fresh node).  6-7: initial equations.  12: classes added the way the CLI
# and the CasADi API assemble a library, Tree.extend with a freshly parsed file ("within P; model NW ...").
# 8-11: the payload is TAKEN FROM
# A TREE, as a user who assembles a library from another one does: find_class() returns a private copy of the
# class, copy.deepcopy(class) / copy.deepcopy(symbol) are the documented way to duplicate a node; such copies
# keep a reference to the parent they were copied under (Class.__deepcopy__ pins it).
KINDS = ["add_symbol", "remove_symbol", "add_equation", "remove_equation", "add_class", "remove_class",
         "add_initial_equation", "remove_initial_equation",
         "add_class(find_class in the next tree, same place)", "add_class(find_class in the same tree, into a new package)",
         "add_class(deepcopy of the next tree's class, into a new package)", "add_symbol(deepcopy of the next tree's symbol)",
         "Tree.extend(parsed file with a class for the same package)"]
NBASE = 6          # kinds of the original family
FROM_TREE = (8, 9, 10, 11)   # kinds whose payload is taken from a source tree (the others build a fresh node)
SAME_TREE_SOURCE = (9,)


def _ref(name):
    return ast.ComponentRef.from_string(name)


def find(t, name):
    return t.find_class(_ref(name), copy=False)


def _leaf(name):
    return name.rsplit(".", 1)[-1]


def _prefix(name):
    return name[:len(name) - len(_leaf(name))]


def _observed_names(nested):
    """Every class of the library plus every place where an edit can put a class."""
    out = list(NAMES) + ["NW"]
    for n in NAMES:
        if "." in n:
            out.append(n.rsplit(".", 1)[0] + ".NW")
    for n in (NAMES if nested else []):
        out.append(_prefix(n) + "NP." + _leaf(n))
    seen = []
    for n in out:
        if n not in seen:
            seen.append(n)
    return seen


OBS = _observed_names(True)
OBS_PLAIN = _observed_names(False)  # without the places only the kinds in FROM_TREE can fill


def _new_package(cls):
    np = ast.Class(name="NP", type="package")
    cls.parent.add_class(np)
    return np


_FILES = {}


def _parsed_file(package, payload):
    """A fresh tree parsed from a file that puts model NW into `package` (parsed once, unpickled per use)."""
    if (package, payload) not in _FILES:
        text = ("within %s;\n" % package if package else "") + "model NW\n  Real q;\nequation\n  q = %d;\nend NW;\n" % payload
        part = parser.parse(text, bypass_cache=True)
        if part is None:
            raise ValueError("file does not parse: " + text)
        _FILES[(package, payload)] = pickle.dumps(part)
    return pickle.loads(_FILES[(package, payload)])


def edit(t, kind, ci, payload, src=None):
    """Apply one edit through the public AST API.  Must behave identically on equal trees.
    src: the tree a transplanted class/symbol is taken from (kinds in FROM_TREE)."""
    cls = find(t, NAMES[ci])
    if kind == 0:
        s = ast.Symbol(name="nw", type=ast.ComponentRef(name="Real"))
        cls.add_symbol(s)
        cls.add_equation(ast.Equation(left=ast.ComponentRef(name="nw"), right=ast.Primary(value=payload)))
    elif kind == 1:
        names = list(cls.symbols.keys())
        if names:
            cls.remove_symbol(cls.symbols[names[-1]])
    elif kind == 2:
        names = list(cls.symbols.keys())
        if names:
            cls.add_equation(ast.Equation(left=ast.ComponentRef(name=names[0]), right=ast.Primary(value=payload)))
    elif kind == 3:
        if cls.equations:
            cls.remove_equation(cls.equations[0])
    elif kind == 4:
        c = ast.Class(name="NW", type="model")
        s = ast.Symbol(name="q", type=ast.ComponentRef(name="Real"))
        c.add_symbol(s)
        c.add_equation(ast.Equation(left=ast.ComponentRef(name="q"), right=ast.Primary(value=payload)))
        cls.parent.add_class(c)
    elif kind == 5:
        cls.parent.remove_class(cls)
    elif kind == 6:
        names = list(cls.symbols.keys())
        if names:
            cls.add_initial_equation(ast.Equation(left=ast.ComponentRef(name=names[0]), right=ast.Primary(value=payload)))
    elif kind == 7:
        if cls.initial_equations:
            cls.remove_initial_equation(cls.initial_equations[0])
    elif kind == 8:
        # replace the class by the (private copy of the) class of the same name found in another tree
        cls.parent.add_class(src.find_class(_ref(NAMES[ci])))
    elif kind == 9:
        # duplicate a class of the same tree inside a new package next to it (a different parent object; nesting it
        # into an existing class of the library could make that class contain itself)
        _new_package(cls).add_class(src.find_class(_ref(NAMES[ci])))
    elif kind == 10:
        _new_package(cls).add_class(copy.deepcopy(find(src, NAMES[ci])))
    elif kind == 11:
        # a component (with its modifications, if it has any) copied over from another tree
        syms = list(find(src, NAMES[ci]).symbols.values())
        pick = [s for s in syms if s.class_modification is not None] or syms
        s = copy.deepcopy(pick[-1])
        s.name = "tr"
        cls.add_symbol(s)
    elif kind == 12:
        t.extend(_parsed_file(_prefix(NAMES[ci])[:-1], payload))


# ---- observation ---------------------------------------------------------------------------------------------
def _sympy(t, name):
    from pymoca.backends.sympy import generator
    try:
        return ("ok", generator.generate(t, name))
    except Exception as e:
        return ("raise", type(e).__name__)


def _xml(t, name):
    from pymoca.backends.xml import generator
    try:
        return ("ok", generator.generate(t, name))
    except Exception as e:
        return ("raise", type(e).__name__)


# mode -> observers; "be": what the backends that deep-copy the tree themselves generate for it
OBSERVERS = {"flat": (flat,), "be": (_sympy, _xml)}


def observe(t, mode):
    # the backend histories use the plain kinds only (every backend call deep-copies the whole tree first)
    return [f(t, name) for name in (OBS if mode == "flat" else OBS_PLAIN) for f in OBSERVERS[mode]]


def all_same(real, expected):
    for name in OBS:
        if not same(flat(real, name), flat(expected, name)):
            return False
    return True


# ---- oracle --------------------------------------------------------------------------------------------------
# An edit list is a tuple of descriptors (kind, class index, payload, edit list of the source tree or None).
_ORACLE = {}


def _oracle_tree(vals, edits):
    t = inst(LIB, list(vals))
    flags = []
    for kind, ci, payload, srcedits in edits:
        try:
            src = None if srcedits is None else _oracle_tree(vals, srcedits)[0]
            edit(t, kind, ci, payload, src)
            flags.append(True)
        except Exception:
            flags.append(False)
    return t, flags


def oracle(vals, edits, mode):
    """(did each edit succeed, observations) of an independent tree that received `edits`."""
    key = (tuple(vals), edits, mode)
    if key not in _ORACLE:
        t, flags = _oracle_tree(vals, edits)
        _ORACLE[key] = (flags, observe(t, mode))
    return _ORACLE[key]


# ---- the explored history ------------------------------------------------------------------------------------
def explore(chain, edits, vals, w=0, mode="flat"):
    """chain 1: orig -> copy;  chain 2: orig -> copy -> (fixed edit of the copy) -> copy of the copy.
    edits: [(kind, side, class index, payload)].  w=1: every existing tree is observed (flattened / generated)
    before each deepcopy and once more before the first edit, so that whatever pymoca caches inside a tree while
    flattening it is present when the tree is copied and edited.
    Returns 1 (holds), 0 (an edit raised on one of two equal trees only), 2+i (tree i differs from its oracle)."""
    # the oracle's edit lists of the whole history, and the oracle itself, are computed before the real trees
    # are touched (no foreign backend call between two backend calls on a real tree)
    nt = chain + 1
    pre = ((0, 0, 99, None),)
    hists = [(), ()] if chain == 1 else [(), pre, pre]
    if w:
        oracle(vals, (), mode)
        oracle(vals, pre, mode)
    steps = []
    for k, s, c, p in edits:
        srcside = s if k in SAME_TREE_SOURCE else (s + 1) % nt
        d = (k, c, p, hists[srcside] if k in FROM_TREE else None)
        hists = hists[:s] + [hists[s] + (d,)] + hists[s + 1:]
        steps.append(list(hists))
    for hs in steps:
        for h in hs:
            oracle(vals, h, mode)

    def check(trees, hs):
        for i, t in enumerate(trees):
            if not all(same(a, b) for a, b in zip(observe(t, mode), oracle(vals, hs[i], mode)[1])):
                return 2 + i
        return 1

    trees = [inst(LIB, list(vals))]
    cur = [()]
    for i in range(chain):
        if i == 1:
            edit(trees[1], 0, 0, 99)
            cur[1] = ((0, 0, 99, None),)
        if w:
            r = check(trees, cur)
            if r != 1:
                return r
        trees.append(copy.deepcopy(trees[-1]))
        cur.append(cur[-1])
    if w:
        r = check(trees, cur)
        if r != 1:
            return r
    for (k, s, c, p), hs in zip(edits, steps):
        src = trees[s if k in SAME_TREE_SOURCE else (s + 1) % nt]
        try:
            edit(trees[s], k, c, p, src)
            ok = True
        except Exception:
            ok = False
        if ok != oracle(vals, hs[s], mode)[0][-1]:
            return 0
        r = check(trees, hs)
        if r != 1:
            return r
    return 1


# function name -> (chain, w, mode); the tuple is (k1, s1, c1, k2, s2, c2), k2 == -1: a single edit
FUNCS = {"hist": (1, 0, "flat"), "hist_cc": (2, 0, "flat"),
         "hist_w": (1, 1, "flat"), "hist_cc_w": (2, 1, "flat"),
         "hist_x": (1, 0, "flat"), "hist_cc_x": (2, 0, "flat"),
         "hist_be": (1, 1, "be"), "hist_cc_be": (2, 1, "be")}


def run(func, tup):
    chain, w, mode = FUNCS[func]
    k1, s1, c1, k2, s2, c2 = tup
    edits = [(k1, s1, c1, 51)] + ([(k2, s2, c2, 52)] if k2 >= 0 else [])
    vals = (11, 12, 3, 4) if chain == 1 else (11, 2, 3, 4)
    return explore(chain, edits, vals, w, mode)


try:
    from crosshair.core import deep_realize
    from crosshair.tracers import NoTracing
except Exception:  # replay without crosshair
    import contextlib
    NoTracing = contextlib.nullcontext

    def deep_realize(x):
        return x


def hist(k1: int, s1: int, c1: int, p1: int, k2: int, s2: int, c2: int, p2: int, v1: int, v2: int) -> int:
    """
    pre: 0 <= k1 <= 5 and 0 <= k2 <= 5 and 0 <= s1 <= 1 and 0 <= s2 <= 1 and 0 <= c1 < N and 0 <= c2 < N and pin(k1=k1, s1=s1)
    pre: p1 == 51 and p2 == 52 and v1 == 11 and v2 == 12
    post: _ == 1
    """
    # The history is chosen by the solver (one path per tuple inside the precondition); the tree code itself
    # then runs concretely: tracing deepcopy/flatten symbolically costs ~10 s per flatten.
    args = deep_realize((k1, s1, c1, p1, k2, s2, c2, p2, v1, v2))
    with NoTracing():
        return _hist(*args)


def _hist(k1, s1, c1, p1, k2, s2, c2, p2, v1, v2):
    return explore(1, [(k1, s1, c1, p1), (k2, s2, c2, p2)], (v1, v2, 3, 4))


def hist_cc(k1: int, s1: int, c1: int, p1: int, k2: int, s2: int, c2: int, p2: int, v1: int) -> int:
    """
    pre: 0 <= k1 <= 5 and 0 <= k2 <= 5 and 0 <= s1 <= 2 and 0 <= s2 <= 2 and 0 <= c1 < N and 0 <= c2 < N and pin(k1=k1, s1=s1)
    pre: p1 == 51 and p2 == 52 and v1 == 11
    post: _ == 1
    """
    args = deep_realize((k1, s1, c1, p1, k2, s2, c2, p2, v1))
    with NoTracing():
        return _hist_cc(*args)


def _hist_cc(k1, s1, c1, p1, k2, s2, c2, p2, v1):
    # copies of copies: orig -> cp -> cp2, an edit between the two copies, then edits on any of the three
    return explore(2, [(k1, s1, c1, p1), (k2, s2, c2, p2)], (v1, 2, 3, 4))


def reach_hist(k1: int, s1: int, c1: int, p1: int, k2: int, s2: int, c2: int, p2: int, v1: int, v2: int) -> int:
    """
    pre: 0 <= k1 <= 5 and 0 <= k2 <= 5 and 0 <= s1 <= 1 and 0 <= s2 <= 1 and 0 <= c1 < N and 0 <= c2 < N and pin(k1=k1, s1=s1)
    pre: p1 == 51 and p2 == 52 and v1 == 11 and v2 == 12
    post: _ == 0
    """
    return hist(k1, s1, c1, p1, k2, s2, c2, p2, v1, v2)
