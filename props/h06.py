"""CrossHair harness for C06: deepcopy a tree, edit either side through the AST API (symbolic operation kind,
side, target class and payload literal), flatten every class of both trees; oracle = two independently
unpickled trees that received the same edits."""
import copy

from pymoca import ast
from props.hflat import LIBS, inst, flat, same, tpl
from vk.chstubs import pin, PIN

LIB = PIN.get("lib", "comp")
NAMES = LIBS[LIB][1]
N = len(NAMES)
tpl(LIB)

KINDS = ["add_symbol", "remove_symbol", "add_equation", "remove_equation", "add_class", "remove_class"]


def find(t, name):
    return t.find_class(ast.ComponentRef.from_string(name), copy=False)


def edit(t, kind, ci, payload):
    """Apply one edit through the public AST API.  Must behave identically on equal trees."""
    cls = find(t, NAMES[ci])
    if kind == 0:
        s = ast.Symbol(name="nw", type=ast.ComponentRef(name="Real"))
        cls.add_symbol(s)
        cls.add_equation(ast.Equation(left=ast.ComponentRef(name="nw"), right=ast.Primary(value=payload)))
    elif kind == 1:
        names = list(cls.symbols.keys())
        if names:
            cls.remove_symbol(cls.symbols[names[-1]])
    elif kind == 2:
        names = list(cls.symbols.keys())
        if names:
            cls.add_equation(ast.Equation(left=ast.ComponentRef(name=names[0]), right=ast.Primary(value=payload)))
    elif kind == 3:
        if cls.equations:
            cls.remove_equation(cls.equations[0])
    elif kind == 4:
        c = ast.Class(name="NW", type="model")
        s = ast.Symbol(name="q", type=ast.ComponentRef(name="Real"))
        c.add_symbol(s)
        c.add_equation(ast.Equation(left=ast.ComponentRef(name="q"), right=ast.Primary(value=payload)))
        cls.parent.add_class(c)
    elif kind == 5:
        cls.parent.remove_class(cls)


def all_same(real, oracle):
    for name in NAMES + ["NW"]:
        if not same(flat(real, name), flat(oracle, name)):
            return False
    return True


try:
    from crosshair.core import deep_realize
    from crosshair.tracers import NoTracing
except Exception:  # replay without crosshair
    import contextlib
    NoTracing = contextlib.nullcontext

    def deep_realize(x):
        return x


def hist(k1: int, s1: int, c1: int, p1: int, k2: int, s2: int, c2: int, p2: int, v1: int, v2: int) -> int:
    """
    pre: 0 <= k1 <= 5 and 0 <= k2 <= 5 and 0 <= s1 <= 1 and 0 <= s2 <= 1 and 0 <= c1 < N and 0 <= c2 < N and pin(k1=k1, s1=s1)
    pre: p1 == 51 and p2 == 52 and v1 == 11 and v2 == 12
    post: _ == 1
    """
    # The history is chosen by the solver (one path per tuple inside the precondition); the tree code itself
    # then runs concretely: tracing deepcopy/flatten symbolically costs ~10 s per flatten.
    args = deep_realize((k1, s1, c1, p1, k2, s2, c2, p2, v1, v2))
    with NoTracing():
        return _hist(*args)


def _hist(k1, s1, c1, p1, k2, s2, c2, p2, v1, v2):
    vals = [v1, v2, 3, 4]
    orig = inst(LIB, vals)
    o_orig, o_copy = inst(LIB, vals), inst(LIB, vals)  # independent by construction
    cp = copy.deepcopy(orig)
    for k, s, c, p in ((k1, s1, c1, p1), (k2, s2, c2, p2)):
        try:
            edit(cp if s else orig, k, c, p)
            ok = True
        except Exception:
            ok = False
        try:
            edit(o_copy if s else o_orig, k, c, p)
            ok2 = True
        except Exception:
            ok2 = False
        if ok != ok2:
            return 0
        if not all_same(orig, o_orig):
            return 2
        if not all_same(cp, o_copy):
            return 3
    return 1


def hist_cc(k1: int, s1: int, c1: int, p1: int, k2: int, s2: int, c2: int, p2: int, v1: int) -> int:
    """
    pre: 0 <= k1 <= 5 and 0 <= k2 <= 5 and 0 <= s1 <= 2 and 0 <= s2 <= 2 and 0 <= c1 < N and 0 <= c2 < N and pin(k1=k1, s1=s1)
    pre: p1 == 51 and p2 == 52 and v1 == 11
    post: _ == 1
    """
    args = deep_realize((k1, s1, c1, p1, k2, s2, c2, p2, v1))
    with NoTracing():
        return _hist_cc(*args)


def _hist_cc(k1, s1, c1, p1, k2, s2, c2, p2, v1):
    # copies of copies: orig -> cp -> cp2, an edit between the two copies, then edits on any of the three
    vals = [v1, 2, 3, 4]
    trees = [inst(LIB, vals)]
    oracles = [inst(LIB, vals), inst(LIB, vals), inst(LIB, vals)]
    trees.append(copy.deepcopy(trees[0]))
    edit(trees[1], 0, 0, 99)
    edit(oracles[1], 0, 0, 99)
    edit(oracles[2], 0, 0, 99)
    trees.append(copy.deepcopy(trees[1]))
    for k, s, c, p in ((k1, s1, c1, p1), (k2, s2, c2, p2)):
        try:
            edit(trees[s], k, c, p)
            ok = True
        except Exception:
            ok = False
        try:
            edit(oracles[s], k, c, p)
            ok2 = True
        except Exception:
            ok2 = False
        if ok != ok2:
            return 0
        for i in range(3):
            if not all_same(trees[i], oracles[i]):
                return 2 + i
    return 1


def reach_hist(k1: int, s1: int, c1: int, p1: int, k2: int, s2: int, c2: int, p2: int, v1: int, v2: int) -> int:
    """
    pre: 0 <= k1 <= 5 and 0 <= k2 <= 5 and 0 <= s1 <= 1 and 0 <= s2 <= 1 and 0 <= c1 < N and 0 <= c2 < N and pin(k1=k1, s1=s1)
    pre: p1 == 51 and p2 == 52 and v1 == 11 and v2 == 12
    post: _ == 0
    """
    return hist(k1, s1, c1, p1, k2, s2, c2, p2, v1, v2)
