"""C09 - connections produce exactly the Modelica connection-set equations (Engine B, QF_LRA).

Real code: tree.flatten end to end (flatten_symbols inside/outside flags, expand_connectors).
For every enumerated program (every ordered sequence of connect clauses over inside and outside
connectors) all flat variables are z3 reals and z3 proves
    And(flat equations)  <=>  And(reference connection-set equations)
with two unsat queries.  The oracle (vk/ref/connect_ref.py) is union-find over the connect graph.
"""
import itertools
import sys
import traceback

import z3

from pymoca import ast
from vk.ref import connect_ref
from vk.report import Collector, EncodingGap, Report, run_parallel, std_args
from vk.smt import equiv, pipeline
from vk.smt.ast2z3 import Ref

PROP = "C09"


def program(k, m, comps, tops, clauses):
    pot = [f"v{i}" for i in range(1, k + 1)]
    flo = [f"i{i}" for i in range(1, m + 1)]
    txt = "connector Pin\n" + "".join(f"  Real {p};\n" for p in pot) + "".join(f"  flow Real {f};\n" for f in flo) + "end Pin;\n"
    ports = sorted({c.split(".")[1] for c in comps})
    txt += "model Comp\n" + "".join(f"  Pin {p};\n" for p in ports) + "end Comp;\n"
    cnames = sorted({c.split(".")[0] for c in comps})
    txt += "model M\n" + "".join(f"  Comp {c};\n" for c in cnames) + "".join(f"  Pin {t};\n" for t in tops)
    txt += "equation\n" + "".join(f"  connect({a}, {b});\n" for a, b in clauses) + "end M;\n"
    return txt, pot, flo


def check(col, k, m, comps, tops, clauses):
    text, pot, flo = program(k, m, comps, tops, clauses)
    case = f"k{k}m{m}:" + ";".join(f"{a}~{b}" for a, b in clauses)
    try:
        flat = pipeline.flat_reference(text, "M")
    except Exception as e:
        col.violation(case + ":raises:" + type(e).__name__, f"flatten raises {type(e).__name__}: {str(e)[:100]}", {"model_text": text})
        return
    fc = flat.classes["M"]
    connectors = list(comps) + list(tops)
    # every connector member (and nothing else) must be a flat variable
    want_vars = {f"{c}.{x}" for c in connectors for x in pot + flo}
    # all component connectors exist even if not in `comps` subset used for clauses
    have = set(fc.symbols)
    if not want_vars <= have:
        col.violation(case + ":variables", f"flat variables {sorted(have)} lack {sorted(want_vars - have)}", {"model_text": text})
        return
    ref = Ref(flat, "M")
    impl = []
    for eq in fc.equations:
        if isinstance(eq, ast.ConnectClause):
            col.violation(case + ":unexpanded", "a connect clause survived flattening", {"model_text": text})
            return
        impl += [r == 0 for r in ref.residual(eq)]
    all_conn = sorted({n.rsplit(".", 1)[0] for n in have})
    inside = {c: ("." in c) for c in all_conn}
    var = lambda c, x: z3.Real(f"{c}.{x}")
    spec = connect_ref.reference_equations(all_conn, inside, pot, flo, clauses, var)
    I, S = z3.And(impl) if impl else z3.BoolVal(True), z3.And(spec) if spec else z3.BoolVal(True)
    for tag, q in (("impl-not-spec", [I, z3.Not(S)]), ("spec-not-impl", [S, z3.Not(I)])):
        r, mod = equiv.check(col, q, 10000)
        if r == "sat":
            pt = equiv.point_from_model(mod, impl + spec)
            # replay in floats on the real flat equations and on the reference list
            iv = [bool(equiv.z3eval(e, pipeline._Default(pt))) for e in impl]
            sv = [bool(equiv.z3eval(e, pipeline._Default(pt))) for e in spec]
            if all(iv) != all(sv):
                col.violation(f"{case}:{tag}", "flattened connection equations and Modelica connection-set semantics have different solutions",
                              {"model_text": text, "point": pt, "flat_equations_hold": iv, "reference_equations_hold": sv})
            else:
                col.note_inconclusive(f"{case}:{tag} sat did not replay")
        elif r == "unknown":
            col.note_inconclusive(f"{case}:{tag} unknown")
    col.bump("programs")
    col.bump("equations", len(impl))


def work(chunk):
    col = Collector()
    for args in chunk:
        try:
            check(col, *args)
        except EncodingGap as g:
            col.append("encoding_gaps", f"{args[-1]}: {g}")
        except Exception:
            col.harness_error(f"{args}: " + traceback.format_exc()[-1200:])
    if chunk:
        k, m, comps, tops, clauses = chunk[0]
        col.sample({"k": k, "m": m, "clauses": clauses, "text": program(k, m, comps, tops, clauses)[0]}, 1)
    return col


def sequences(conns, maxlen):
    pairs = [(a, b) for a in conns for b in conns if a != b]
    for n in range(0, maxlen + 1):
        for seq in itertools.product(pairs, repeat=n):
            yield list(seq)


def main():
    args = std_args(PROP)
    rep = Report(PROP, args.tier, "translation_validation", args.seed)
    progs = []
    comps4, tops = ["a.p", "b.p"], ["P", "Q"]
    if args.tier == "quick":
        for seq in sequences(comps4 + tops, 3):
            progs.append((1, 1, comps4, tops, seq))
        for seq in sequences(comps4 + tops, 2):
            progs.append((2, 2, comps4, tops, seq))
        comps6 = ["a.p", "a.n", "b.p", "b.n", "c.p", "c.n"]
        for seq in sequences(comps6 + tops, 1):
            progs.append((1, 2, comps6, tops, seq))
    else:
        for seq in sequences(comps4 + tops, 4):
            progs.append((1, 1, comps4, tops, seq))
        comps5 = ["a.p", "a.n", "b.p"]
        for seq in sequences(comps5 + tops, 3):
            progs.append((1, 1, comps5, tops, seq))
        for seq in sequences(comps4 + tops, 3):
            progs.append((2, 2, comps4, tops, seq))
        comps6 = ["a.p", "a.n", "b.p", "b.n", "c.p", "c.n"]
        for seq in sequences(comps6 + tops, 2):
            progs.append((2, 1, comps6, tops, seq))
    n = max(1, len(progs) // (args.jobs * 8))
    chunks = [progs[i:i + n] for i in range(0, len(progs), n)]
    for col in run_parallel(work, chunks, args.jobs):
        rep.merge(col)
    # canary: reference with the wrong sign convention must differ from the implementation
    c = Collector()
    text, pot, flo = program(1, 1, comps4, tops, [("a.p", "P")])
    flat = pipeline.flat_reference(text, "M")
    ref = Ref(flat, "M")
    impl = [r == 0 for eq in flat.classes["M"].equations for r in ref.residual(eq)]
    allc = ["a.p", "b.p", "P", "Q"]
    spec = connect_ref.reference_equations(allc, {x: True for x in allc}, pot, flo, [("a.p", "P")], lambda c_, x: z3.Real(f"{c_}.{x}"))
    r, _ = equiv.check(c, [z3.And(impl), z3.Not(z3.And(spec))])
    rep.coverage["canary_detected"] = r == "sat"
    if r != "sat":
        rep.harness_error("canary: wrong sign convention not detected")
    cov = rep.coverage
    cov["disagreements_checked"] = rep.queries.get("sat", 0)
    cov["exhaustive"] = True
    cov["functions_encoded"] = ["tree.flatten -> flatten_symbols (inside/outside), expand_connectors (flat equations -> z3 linear constraints)"]
    cov["bounds"] = ("quick: every ordered sequence of <=3 connect clauses over {a.p, b.p, P, Q} (k=m=1), <=2 (k=m=2), <=1 over 3 components x 2 connectors; "
                     "thorough: <=4 clauses over 4 connectors, <=3 over 5, <=3 with k=m=2, <=2 over 8 connectors; all variable values unbounded reals")
    rep.assumptions += ["components carry no equations of their own, so the flat equations are exactly the connection equations",
                        "'every flow variable that appears in no connection is zero' is applied to inside and outside connectors alike, as the statement says"]
    if not cov.get("programs"):
        rep.harness_error("nothing compared")
    return rep.finish()


if __name__ == "__main__":
    sys.exit(main())
