"""C09 - connections produce exactly the Modelica connection-set equations (Engine B, QF_LRA).

Real code: tree.flatten end to end (flatten_symbols inside/outside flags, expand_connectors).
For every enumerated program (every ordered sequence of connect clauses over inside and outside
connectors) all flat variables are z3 reals and z3 proves
    And(flat equations)  <=>  And(reference connection-set equations)
with two unsat queries.  The oracle (vk/ref/connect_ref.py) is union-find over the connect graph.

Families (see main()): the scalar graphs above; the same graphs under naming schemes in which one
flat name is a string prefix / suffix of another (ports p/p2, top connector inl next to component
inlet, members f/f2); self-connections; array-valued connector members; arrays of components and
of connectors connected element-wise (each scalar graph lifted to N parallel copies in several
clause orders, shifted pairings, whole-array clauses, free enumeration over array elements, 2-D);
connect clauses inside component classes (a connector that is outside for the inner clause and
inside for the outer one), also with arrays; other clause forms (for-loops, slices, parameter
subscripts, whole-array mixed with element clauses); components and the top class carrying linear
equations of their own over connector members (flow alone on a left-hand side, on the right, in
sums, defined by another flow, potentials) while some of their connectors stay unconnected; models
with two connector classes at once (same short name in two packages with more / disjoint / swapped
flow-potential / identical members, local connector classes, inherited members, replaceable
connector redeclared per instance, input/output/parameter/constant members).
"""
import itertools
import sys
import traceback

import z3

from pymoca import ast
from vk.ref import connect_ref
from vk.report import Collector, EncodingGap, Report, run_parallel, std_args
from vk.smt import equiv, pipeline
from vk.smt.ast2z3 import Ref

PROP = "C09"


def program(k, m, comps, tops, clauses, members=None):
    pot = [f"v{i}" for i in range(1, k + 1)]
    flo = [f"i{i}" for i in range(1, m + 1)]
    if members:
        pot, flo = list(members[0]), list(members[1])
        assert (len(pot), len(flo)) == (k, m)
    txt = "connector Pin\n" + "".join(f"  Real {p};\n" for p in pot) + "".join(f"  flow Real {f};\n" for f in flo) + "end Pin;\n"
    ports = sorted({c.split(".")[1] for c in comps})
    txt += "model Comp\n" + "".join(f"  Pin {p};\n" for p in ports) + "end Comp;\n"
    cnames = sorted({c.split(".")[0] for c in comps})
    txt += "model M\n" + "".join(f"  Comp {c};\n" for c in cnames) + "".join(f"  Pin {t};\n" for t in tops)
    txt += "equation\n" + "".join(f"  connect({a}, {b});\n" for a, b in clauses) + "end M;\n"
    return txt, pot, flo


def check(col, k, m, comps, tops, clauses, members=None, scheme=""):
    text, pot, flo = program(k, m, comps, tops, clauses, members)
    case = (f"names[{scheme}]:" if scheme else "") + f"k{k}m{m}:" + ("" if not members else "(" + ",".join(pot) + "|" + ",".join(flo) + "):") + ";".join(f"{a}~{b}" for a, b in clauses)
    try:
        flat = pipeline.flat_reference(text, "M")
    except Exception as e:
        col.violation(case + ":raises:" + type(e).__name__, f"flatten raises {type(e).__name__}: {str(e)[:100]}", {"model_text": text})
        return
    fc = flat.classes["M"]
    connectors = list(comps) + list(tops)
    # every connector member (and nothing else) must be a flat variable
    want_vars = {f"{c}.{x}" for c in connectors for x in pot + flo}
    # all component connectors exist even if not in `comps` subset used for clauses
    have = set(fc.symbols)
    if not want_vars <= have:
        col.violation(case + ":variables", f"flat variables {sorted(have)} lack {sorted(want_vars - have)}", {"model_text": text})
        return
    ref = Ref(flat, "M")
    impl = []
    for eq in fc.equations:
        if isinstance(eq, ast.ConnectClause):
            col.violation(case + ":unexpanded", "a connect clause survived flattening", {"model_text": text})
            return
        impl += [r == 0 for r in ref.residual(eq)]
    all_conn = sorted({n.rsplit(".", 1)[0] for n in have})
    inside = {c: ("." in c) for c in all_conn}
    var = lambda c, x: z3.Real(f"{c}.{x}")
    spec = connect_ref.reference_equations(all_conn, inside, pot, flo, clauses, var)
    I, S = z3.And(impl) if impl else z3.BoolVal(True), z3.And(spec) if spec else z3.BoolVal(True)
    for tag, q in (("impl-not-spec", [I, z3.Not(S)]), ("spec-not-impl", [S, z3.Not(I)])):
        r, mod = equiv.check(col, q, 10000)
        if r == "sat":
            pt = equiv.point_from_model(mod, impl + spec)
            # replay in floats on the real flat equations and on the reference list
            iv = [bool(equiv.z3eval(e, pipeline._Default(pt))) for e in impl]
            sv = [bool(equiv.z3eval(e, pipeline._Default(pt))) for e in spec]
            if all(iv) != all(sv):
                col.violation(f"{case}:{tag}", "flattened connection equations and Modelica connection-set semantics have different solutions",
                              {"model_text": text, "point": pt, "flat_equations_hold": iv, "reference_equations_hold": sv})
            else:
                col.note_inconclusive(f"{case}:{tag} sat did not replay")
        elif r == "unknown":
            col.note_inconclusive(f"{case}:{tag} unknown")
    col.bump("programs")
    col.bump("equations", len(impl))


# ---- general family member: model description dict (see vk/ref/connect_ref.py) ---------------
PARTIAL_ARRAY_CASE = "array-partial:unconnected-element-flow-not-zero"


def _dim(d):
    return "[" + ",".join(map(str, d)) + "]" if d else ""


def model_id(model, extra):
    """Stable, compact identifier of a general family member."""
    pins = "k%dm%d" % (len(model["pot"]), len(model["flo"]))
    if any(d for _, d in model["pot"] + model["flo"]) or extra.get("members_named"):
        pins = ",".join(m + _dim(d) for m, d in model["pot"]) + "|" + ",".join(m + _dim(d) for m, d in model["flo"])
    parts = [pins]
    for cn, cls in model["classes"].items():
        arrays = [(n, d) for n, _, d in cls.get("subs", []) if d] + [(n, d) for n, d in cls.get("pins", []) if d]
        decl = ",".join(n + _dim(d) for n, d in arrays)
        cl = ";".join(f"{a}~{b}" for a, b in cls.get("clauses", []))
        if cn == model["top"]:
            parts.append((decl + ":" if decl else "") + (extra.get("form", "") + ":" if extra.get("form") else "") + cl)
        elif cl or decl:
            parts.append(cn + "{" + (decl + ":" if decl else "") + cl + "}")
    return ":".join(parts)


def _has_connect(eq):
    if isinstance(eq, ast.ConnectClause):
        return True
    if isinstance(eq, ast.ForEquation):
        return any(_has_connect(e) for e in eq.equations)
    if isinstance(eq, ast.IfEquation):
        return any(_has_connect(e) for blk in eq.blocks for e in blk)
    return False


def check_general(col, fam, model, extra=None):
    extra = extra or {}
    top = model["top"]
    text = connect_ref.render(model, extra.get("decls", ""), extra.get("raw"))
    # the few hand-listed clause forms report under one case id per form; everything else per program
    case = fam + ":" + (extra["form"] if fam == "forms" else model_id(model, extra))
    try:
        flat = pipeline.flat_reference(text, top)
    except Exception as e:
        col.violation(case + ":raises:" + type(e).__name__, f"flatten raises {type(e).__name__}: {str(e)[:100]}", {"model_text": text})
        return
    fc = flat.classes[top]
    for eq in fc.equations:
        if _has_connect(eq):
            col.violation(case + ":unexpanded", "a connect clause survived flattening", {"model_text": text})
            return
    ref = Ref(flat, top)
    # exactly the connector members (with the concatenated dimensions) must be flat variables
    want = dict(connect_ref.expected_symbols(model))
    want.update(extra.get("symbols", {}))
    have = {n: tuple(ref.dims[n]) for n in fc.symbols}
    if want != have:
        diff = sorted(set(want.items()) ^ set(have.items()))
        col.violation(case + ":variables", f"flat variables differ from the declared connector members: {diff[:6]}", {"model_text": text})
        return
    impl = []
    for eq in fc.equations:
        impl += [r == 0 for r in ref.residual(eq)]
    spec = connect_ref.general_reference_equations(model, z3.Real)
    T = z3.BoolVal(True)
    I, S = z3.And(impl) if impl else T, z3.And(spec) if spec else T
    for tag, q in (("impl-not-spec", [I, z3.Not(S)]), ("spec-not-impl", [S, z3.Not(I)])):
        r, mod = equiv.check(col, q, 10000)
        if r == "sat":
            pt = equiv.point_from_model(mod, impl + spec)
            iv = [bool(equiv.z3eval(e, pipeline._Default(pt))) for e in impl]
            sv = [bool(equiv.z3eval(e, pipeline._Default(pt))) for e in spec]
            if all(iv) != all(sv):
                vcase = f"{case}:{tag}" if fam != "forms" else f"{case}:different-solutions"
                what = "flattened connection equations and Modelica connection-set semantics have different solutions"
                if fam == "forms":
                    what += " (first seen: " + model_id(model, extra) + ")"
                if tag == "impl-not-spec":
                    # solver-decided diagnosis: is the ONLY difference the missing `flow = 0` of never-connected
                    # elements of an array of which another element is connected?  (impl /\ Z <=> spec)
                    rest = connect_ref.partially_connected_array_rest(model)
                    if rest:
                        Z = connect_ref.general_reference_equations(model, z3.Real, only_zero_for=rest)
                        r1, _ = equiv.check(col, [I, z3.And(Z), z3.Not(S)], 10000)
                        r2, _ = equiv.check(col, [S, z3.Not(z3.And(I, *Z))], 10000)
                        if r1 == "unsat" and r2 == "unsat":
                            vcase = PARTIAL_ARRAY_CASE
                            what = ("an element of an array of connectors that appears in no connect clause gets no `flow = 0` equation when another element "
                                    "of the same array is connected (first seen: " + case + ")")
                            col.bump("programs_differing_only_by_partial_array_default")
                col.violation(vcase, what, {"model_text": text, "point": pt, "flat_equations_hold": iv, "reference_equations_hold": sv})
            else:
                col.note_inconclusive(f"{case}:{tag} sat did not replay")
        elif r == "unknown":
            col.note_inconclusive(f"{case}:{tag} unknown")
    col.bump("programs")
    col.bump("programs_" + fam.split("[")[0])
    col.bump("equations", len(impl))


# ---- rich family member: components with equations of their own / several connector classes -------------
def _names(node, acc):
    """Names of all variables an equation refers to."""
    if isinstance(node, (ast.ComponentRef, ast.Symbol)):
        acc.add(node.name)
    elif isinstance(node, ast.Equation):
        _names(node.left, acc), _names(node.right, acc)
    elif isinstance(node, ast.Expression):
        for o in node.operands:
            _names(o, acc)
    return acc


def check_rich(col, fam, desc, cid):
    text, top = desc["text"], desc["top"]
    case = f"{fam}:{cid}"
    try:
        flat = pipeline.flat_reference(text, top)
    except Exception as e:
        col.violation(case + ":raises:" + type(e).__name__, f"flatten raises {type(e).__name__}: {str(e)[:100]}", {"model_text": text})
        return
    fc = flat.classes[top]
    if any(_has_connect(eq) for eq in fc.equations):
        col.violation(case + ":unexpanded", "a connect clause survived flattening", {"model_text": text})
        return
    # structural: exactly the members of each connector's OWN class plus the declared variables are flat variables,
    # and no equation mentions anything else
    want, have = connect_ref.rich_expected_symbols(desc), set(fc.symbols)
    if want != have:
        col.violation(case + ":variables", f"flat variables differ from the declared ones: {sorted(want ^ have)[:6]}", {"model_text": text})
        return
    used = set()
    for eq in fc.equations:
        _names(eq, used)
    if not used <= have:
        col.violation(case + ":undeclared", f"flat equations mention variables that do not exist: {sorted(used - have)[:6]}", {"model_text": text})
        return
    ref = Ref(flat, top)
    impl = [r == 0 for eq in fc.equations for r in ref.residual(eq)]
    spec = connect_ref.rich_reference_equations(desc, z3.Real)
    T = z3.BoolVal(True)
    I, S = z3.And(impl) if impl else T, z3.And(spec) if spec else T
    for tag, q in (("impl-not-spec", [I, z3.Not(S)]), ("spec-not-impl", [S, z3.Not(I)])):
        r, mod = equiv.check(col, q, 10000)
        if r == "sat":
            pt = equiv.point_from_model(mod, impl + spec)
            iv = [bool(equiv.z3eval(e, pipeline._Default(pt))) for e in impl]
            sv = [bool(equiv.z3eval(e, pipeline._Default(pt))) for e in spec]
            if all(iv) != all(sv):
                col.violation(f"{case}:{tag}", "flattened equations and (model equations + Modelica connection-set semantics) have different solutions",
                              {"model_text": text, "point": pt, "flat_equations_hold": iv, "reference_equations_hold": sv})
            else:
                col.note_inconclusive(f"{case}:{tag} sat did not replay")
        elif r == "unknown":
            col.note_inconclusive(f"{case}:{tag} unknown")
    col.bump("programs")
    col.bump("programs_" + fam.split("[")[0])
    col.bump("equations", len(impl))


def work(chunk):
    col = Collector()
    for args in chunk:
        try:
            if args[0] == "G":
                check_general(col, *args[1:])
            elif args[0] == "R":
                check_rich(col, *args[1:])
            else:
                check(col, *args)
        except EncodingGap as g:
            col.append("encoding_gaps", f"{args[-1]}: {g}")
            col.harness_error(f"encoding gap on {str(args)[:300]}: {g}")
        except Exception:
            col.harness_error(f"{str(args)[:600]}: " + traceback.format_exc()[-1200:])
    if chunk:
        a = chunk[0]
        if a[0] == "R":
            col.sample({"family": a[1], "text": a[2]["text"]}, 1)
        elif a[0] == "G":
            ex = a[3] if len(a) > 3 and a[3] else {}
            col.sample({"family": a[1], "text": connect_ref.render(a[2], ex.get("decls", ""), ex.get("raw"))}, 1)
        else:
            col.sample({"k": a[0], "m": a[1], "clauses": a[4], "text": program(*a[:6])[0]}, 1)
    return col


def sequences(conns, maxlen, ordered=True, selfpairs=False, minlen=0):
    pairs = [(a, b) for i, a in enumerate(conns) for j, b in enumerate(conns)
             if (a != b or selfpairs) and (ordered or i <= j)]
    for n in range(minlen, maxlen + 1):
        for seq in itertools.product(pairs, repeat=n):
            yield list(seq)


# ---- builders of general family members ---------------------------------------------------------
def pin(k=1, m=1, vec=()):
    """Connector members; names in `vec` are arrays of 2."""
    pot = [(f"v{i}" if k > 1 else "v", (2,) if (f"v{i}" if k > 1 else "v") in vec else ()) for i in range(1, k + 1)]
    flo = [(f"i{i}" if m > 1 else "i", (2,) if (f"i{i}" if m > 1 else "i") in vec else ()) for i in range(1, m + 1)]
    return {"pot": pot, "flo": flo}


def flat_model(pn, subs, pins, clauses, classes=None):
    """Top class M with components `subs` [(name, class, dims)] and top connectors `pins` [(name, dims)]."""
    cl = {"Comp": {"pins": [("p", ())]}}
    cl.update(classes or {})
    cl["M"] = {"subs": subs, "pins": pins, "clauses": clauses}
    return dict(pn, classes=cl, top="M")


LIFT_BASE = ["a.p", "b.p", "P", "Q"]


def lifted(pn, base_clauses, n, form):
    """The scalar graph base_clauses over {a.p, b.p, P, Q} as N parallel copies: a, b become arrays of N components
    and P, Q arrays of N connectors (form 'scalartops': P, Q stay scalar and join all copies).
    form: kmajor (copy by copy), cmajor (clause by clause), krev (copies in descending order), shift (right-hand
    side paired with the next copy, cyclically), whole (one clause per base clause between the whole arrays)."""
    tops_arr = form != "scalartops"

    def el(c, k):
        if "." in c:
            return c.replace(".", f"[{k}].")
        return f"{c}[{k}]" if tops_arr else c

    ks = list(range(1, n + 1))
    if form == "whole":
        clauses = list(base_clauses)
    elif form == "cmajor":
        clauses = [(el(a, k), el(b, k)) for a, b in base_clauses for k in ks]
    elif form == "krev":
        clauses = [(el(a, k), el(b, k)) for k in reversed(ks) for a, b in base_clauses]
    elif form == "shift":
        clauses = [(el(a, k), el(b, k % n + 1)) for k in ks for a, b in base_clauses]
    else:
        clauses = [(el(a, k), el(b, k)) for k in ks for a, b in base_clauses]
    td = (n,) if tops_arr else ()
    return flat_model(pn, [("a", "Comp", (n,)), ("b", "Comp", (n,))], [("P", td), ("Q", td)], clauses)


def hier_model(pn, inner, outer, comp_dims=(), pinarr=False):
    """Comp has connectors p, n (p an array of 2 if pinarr, plus r) and a sub-component s with connector q;
    `inner` are Comp's own connect clauses, `outer` the clauses of M over components a (dims comp_dims), b and P."""
    cpins = [("p", (2,)), ("r", ())] if pinarr else [("p", ()), ("n", ())]
    classes = {"Sub": {"pins": [("q", ())]},
               "Comp": {"pins": cpins, "subs": [("s", "Sub", ())], "clauses": inner}}
    return flat_model(pn, [("a", "Comp", comp_dims), ("b", "Comp", ())], [("P", ())], outer, classes)


NAME_SCHEMES = {
    # scheme: (components, ports, top connectors) - which flat names are prefixes/suffixes of which
    "port-prefix": (["a", "b", "c"], ["p", "p2"], ["P", "Q"]),            # a.p      < a.p2
    "port-prefix-rev": (["a", "b", "c"], ["p2", "p"], ["P", "Q"]),        # declared in the other order
    "top-in-comp": (["inlet", "inletb", "b"], ["p", "n"], ["inl", "b_"]),  # inl      < inlet.p, inlet < inletb, b < b_
    "top-prefix": (["a", "b", "c"], ["p", "n"], ["P", "P2"]),              # P        < P2
    "suffix": (["a", "ba", "cba"], ["p", "qp"], ["P", "QP"]),              # suffixes instead of prefixes
    "underscore": (["a", "b", "c"], ["p", "n"], ["a_p", "a_n"]),           # a_p next to a.p
    "all": (["u1", "u12", "x"], ["p", "p2"], ["u", "u1_"]),                # everything at once
}
MEMBER_SCHEMES = [(["f"], ["f2"]), (["f2"], ["f"]), (["v", "v2"], ["i", "i2"]), (["e"], ["e_flow", "e_flow2"])]


def named_programs(thorough):
    out = []
    for scheme, (comps, ports, tops) in NAME_SCHEMES.items():
        c8 = [f"{c}.{p}" for c in comps for p in ports]
        c5 = [f"{comps[0]}.{ports[0]}", f"{comps[0]}.{ports[1]}", f"{comps[1]}.{ports[0]}"]
        for seq in sequences(c8 + tops, 1):
            out.append((1, 1, c8, tops, seq, None, scheme))
        # components are declared from the connector list, so keep all of them declared and enumerate over five
        if thorough:
            for seq in sequences(c8[:4] + tops, 2, minlen=2):
                out.append((1, 1, c8, tops, seq, None, scheme))
        else:
            for seq in sequences(c5 + tops, 2, ordered=False, minlen=2):
                out.append((1, 1, c8, tops, seq, None, scheme))
    c6, tops = ["a.p", "a.n", "b.p", "b.n", "c.p", "c.n"], ["P", "Q"]
    for pot, flo in MEMBER_SCHEMES:
        for seq in sequences(c6 + tops, 1):
            out.append((len(pot), len(flo), c6, tops, seq, (pot, flo), "members"))
        for seq in sequences(c6[:3] + tops, 2, ordered=thorough, minlen=2):
            out.append((len(pot), len(flo), c6, tops, seq, (pot, flo), "members"))
    return out


def form_programs():
    """Other spellings of connect clauses; the oracle always sees the scalar clauses they stand for."""
    out = []
    st = lambda cl, pins=(("s", (2,)), ("t", (2,)), ("u", ())): flat_model(pin(), [], list(pins), cl)
    # whole-array clauses mixed with clauses on single elements of the same arrays
    for cl in ([("s", "t"), ("s[1]", "u")], [("s[1]", "u"), ("s", "t")], [("s", "t"), ("t[2]", "u")], [("s", "t"), ("s[1]", "t[2]")]):
        out.append(("G", "forms", st(cl), {"form": "whole+elem"}))
    for cl in ([("s", "t"), ("s[1]", "t[1]"), ("s[2]", "t[2]")], [("s[2]", "t[2]"), ("s", "t")]):
        out.append(("G", "forms", st(cl), {"form": "whole+same-elem"}))
    # connect clauses in a for-equation
    loop = "  for i in 1:2 loop\n    connect({}, {});\n  end for;\n"
    out.append(("G", "forms", st([("s[1]", "t[1]"), ("s[2]", "t[2]")]), {"raw": loop.format("s[i]", "t[i]"), "form": "for"}))
    m = flat_model(pin(), [("a", "Comp", (2,))], [("t", (2,))], [("a[1].p", "t[1]"), ("a[2].p", "t[2]")])
    out.append(("G", "forms", m, {"raw": loop.format("a[i].p", "t[i]"), "form": "for"}))
    out.append(("G", "forms", st([("s[1]", "u"), ("s[2]", "u")]), {"raw": loop.format("s[i]", "u"), "form": "for"}))
    # slices and parameter-valued subscripts
    s3 = (("s", (3,)), ("t", (3,)), ("u", ()))
    out.append(("G", "forms", st([("s[1]", "t[2]"), ("s[2]", "t[3]")], s3), {"raw": "  connect(s[1:2], t[2:3]);\n", "form": "slice"}))
    out.append(("G", "forms", st([("s[2]", "u")]), {"raw": "  connect(s[k], u);\n", "form": "parameter-subscript",
                                                    "decls": "  parameter Integer k = 2;\n", "symbols": {"k": ()}}))
    return out


def general_programs(thorough):
    out = []
    G = lambda fam, model: out.append(("G", fam, model, None))
    p11 = pin()
    # array-valued connector members
    for seq in sequences(LIFT_BASE, 3 if thorough else 2):
        G("vecmem", flat_model(pin(vec=("v", "i")), [("a", "Comp", ()), ("b", "Comp", ())], [("P", ()), ("Q", ())], seq))
    if thorough:
        for seq in sequences(LIFT_BASE, 2):
            G("vecmem", flat_model(pin(2, 2, vec=("v2", "i1")), [("a", "Comp", ()), ("b", "Comp", ())], [("P", ()), ("Q", ())], seq))
    # scalar graphs lifted to N element-wise connected copies
    for seq in sequences(LIFT_BASE, 3 if thorough else 2, minlen=1):
        for form in (("kmajor", "cmajor", "krev", "shift", "whole", "scalartops") if thorough else ("kmajor", "cmajor", "shift", "whole", "scalartops")):
            G(f"lift[{form},N=2]", lifted(p11, seq, 2, form))
    for seq in sequences(LIFT_BASE, 2 if thorough else 1, minlen=1):
        G("lift[kmajor,N=1]", lifted(p11, seq, 1, "kmajor"))
        for form in ("cmajor", "shift"):
            G(f"lift[{form},N=3]", lifted(p11, seq, 3, form))
        G("lift[kmajor,N=2]", lifted(pin(2, 2), seq, 2, "kmajor"))
        G("lift[kmajor,N=2]", lifted(pin(vec=("i",)), seq, 2, "kmajor"))
    if thorough:
        for seq in sequences(LIFT_BASE, 2, minlen=2):
            for form in ("kmajor", "cmajor", "shift", "whole"):
                G(f"lift[{form},N=3]", lifted(p11, seq, 3, form))
    # free enumeration over the elements of arrays (most members leave part of an array unconnected)
    free = lambda seq, m=False: flat_model(p11, [("n", "Comp", (2,)), ("x", "Comp", ())] + ([("m", "Comp", (2,))] if m else []), [("t", (2,))], seq)
    for seq in sequences(["n[1].p", "n[2].p", "t[1]", "t[2]", "x.p"], 2, minlen=1):
        G("arr-free", free(seq))
    if thorough:
        six = ["n[1].p", "n[2].p", "m[1].p", "m[2].p", "t[1]", "t[2]"]
        for seq in sequences(six, 2, minlen=1):
            G("arr-free", free(seq, True))
        for seq in sequences(six, 3, ordered=False, minlen=3):
            G("arr-free", free(seq, True))
    for seq in sequences(["s[1,1]", "s[1,2]", "s[2,1]", "s[2,2]", "u"], 2 if thorough else 1, minlen=1):
        G("arr-2d", flat_model(p11, [], [("s", (2, 2)), ("u", ())], seq))
    for seq in sequences(["s[1,1]", "s[1,2]", "s[2,1]", "s[2,2]"], 4, ordered=False, minlen=4):
        if len({c for cl in seq for c in cl}) == 4 and (thorough or seq == sorted(seq)):
            G("arr-2d", flat_model(p11, [], [("s", (2, 2)), ("u", ())], seq))
    # connect clauses inside component classes: a.p is outside for Comp's clause and inside for M's
    inner_c, outer_c = ["p", "n", "s.q"], ["a.p", "a.n", "b.p", "P"]
    if thorough:
        for inner in sequences(inner_c, 2):
            for outer in sequences(outer_c, 2):
                if inner:
                    G("hier", hier_model(p11, inner, outer))
    else:
        for inner in sequences(inner_c, 1, minlen=1):
            for outer in list(sequences(outer_c, 1)) + list(sequences(outer_c, 2, ordered=False, minlen=2)):
                G("hier", hier_model(p11, inner, outer))
        for inner in sequences(inner_c, 2, ordered=False, minlen=2):
            for outer in sequences(outer_c, 1):
                G("hier", hier_model(p11, inner, outer))
    for inner in sequences(inner_c, 1, minlen=1):
        for outer in sequences(["a[1].p", "a[2].p", "a[1].n", "P"], 2 if thorough else 1):
            G("hier-arr", hier_model(p11, inner, outer, comp_dims=(2,)))
        G("hier-arr", hier_model(p11, inner, [("a[1].p", "P"), ("a[2].p", "P"), ("a[1].n", "a[2].n")], comp_dims=(2,)))
        G("hier-arr", hier_model(p11, inner, [("a.p", "a.n")], comp_dims=(2,)))
    for inner in sequences(["p[1]", "p[2]", "r"], 2 if thorough else 1, minlen=1):
        for outer in sequences(["a.p[1]", "a.p[2]", "a.r", "P"], 1):
            G("hier-pinarr", hier_model(p11, inner, outer, pinarr=True))
    return out + form_programs()


# equations a component class Comp (connectors p, n; variable x) may carry itself, names local to Comp
COMP_EQUATIONS = {
    "flow-lhs": ["p.i = x"],                                  # flow variable alone on the left-hand side
    "flow-rhs": ["x = p.i"],
    "neg-flow-lhs": ["-p.i = x"],
    "zero-lhs": ["0 = p.i - x"],
    "flow-const": ["p.i = 2*x + 1"],
    "flow-flow": ["p.i = n.i"],                               # one flow defined by the other
    "both-flows": ["p.i = x", "n.i = x"],
    "two-port": ["p.i = x", "n.i = -x", "p.v - n.v = x"],     # resistor-like
    "kirchhoff": ["p.i + n.i = 0", "p.v = n.v"],              # flows only inside a sum
    "pot-lhs": ["p.v = x"],
    "pot-flow": ["p.v = p.i"],
}
# equations of the top class M (variable y) over a top-level connector / a component's connector, flat names
TOP_EQUATIONS = {
    "top:outside-flow-lhs": (["P.i = y"], False),
    "top:outside-flow-rhs": (["y = Q.i"], True),
    "top:inside-flow-lhs": (["c.p.i = y", "a.p.i = y"], False),
    "top:flow-sum": (["P.i + c.n.i = y"], True),
    "top+comp": (["Q.i = y"], False),                        # together with the component equation p.i = x
}


def rich_programs(thorough):
    out = []
    R = lambda fam, desc: out.append(("R", fam, desc, ";".join(f"{a}~{b}" for a, b in desc["clauses"])))
    # (a) components / top class with linear equations of their own; c.*, Q (and more) stay unconnected
    conns = ["a.p", "a.n", "b.p", "P"]
    graphs = list(sequences(conns, 2 if thorough else 1)) + ([] if thorough else list(sequences(conns, 2, ordered=False, minlen=2)))
    if thorough:
        graphs += list(sequences(conns, 3, ordered=False, minlen=3))
    for name, eqs in COMP_EQUATIONS.items():
        for g in graphs:
            R(f"eqs[{name}]", connect_ref.equations_model(eqs, [], g))
        if thorough and name in ("flow-lhs", "two-port"):
            for g in sequences(conns + ["c.p", "Q"], 2, minlen=2):
                if any(c in ("c.p", "Q") for cl in g for c in cl):
                    R(f"eqs[{name}]", connect_ref.equations_model(eqs, [], g))
    for name, (eqs, first) in TOP_EQUATIONS.items():
        for g in graphs:
            R(f"eqs[{name}]", connect_ref.equations_model(["p.i = x"] if name == "top+comp" else [], eqs, g, top_first=first))
    for g in sequences(conns, 2 if thorough else 1):
        R("eqs[flow-lhs,k2m2]", connect_ref.equations_model(["p.i1 = x"], ["P.i2 = y"], g, 2, 2))
    # (b) two connector classes in one model; every clause joins connectors of one class, all orders of the classes
    X, Y = connect_ref.CLASS_CONNECTORS
    pairs = lambda ordered: [(a, b) for cs in (X, Y) for i, a in enumerate(cs) for j, b in enumerate(cs) if (i != j if ordered else i < j)]
    for layout in connect_ref.CLASS_LAYOUTS:
        seqs = [[]] + [[p] for p in pairs(True)]
        seqs += [list(s) for s in itertools.product(pairs(thorough), repeat=2)]
        if thorough:
            seqs += [list(s) for s in itertools.product(pairs(False), repeat=3)]
        for n, seq in enumerate(seqs):
            R(f"classes[{layout}]", connect_ref.classes_model(layout, seq, y_first=thorough and n % 2 == 1))
        if not thorough:
            for seq in ([("y1.p", "y2.p"), ("x1.p", "x2.p")], [("x1.p", "tx"), ("ty", "y1.p"), ("x2.p", "x1.p")]):
                R(f"classes[{layout},y-first]", connect_ref.classes_model(layout, seq, y_first=True))
    return out


def main():
    args = std_args(PROP)
    rep = Report(PROP, args.tier, "translation_validation", args.seed)
    progs = []
    comps4, tops = ["a.p", "b.p"], ["P", "Q"]
    if args.tier == "quick":
        for seq in sequences(comps4 + tops, 3):
            progs.append((1, 1, comps4, tops, seq))
        for seq in sequences(comps4 + tops, 2):
            progs.append((2, 2, comps4, tops, seq))
        comps6 = ["a.p", "a.n", "b.p", "b.n", "c.p", "c.n"]
        for seq in sequences(comps6 + tops, 1):
            progs.append((1, 2, comps6, tops, seq))
    else:
        for seq in sequences(comps4 + tops, 4):
            progs.append((1, 1, comps4, tops, seq))
        comps5 = ["a.p", "a.n", "b.p"]
        for seq in sequences(comps5 + tops, 3):
            progs.append((1, 1, comps5, tops, seq))
        for seq in sequences(comps4 + tops, 3):
            progs.append((2, 2, comps4, tops, seq))
        comps6 = ["a.p", "a.n", "b.p", "b.n", "c.p", "c.n"]
        for seq in sequences(comps6 + tops, 2):
            progs.append((2, 1, comps6, tops, seq))
    thorough = args.tier != "quick"
    n_scalar = len(progs)
    # self-connections connect(c, c) mixed into the scalar graphs
    for seq in sequences(comps4 + tops, 3 if thorough else 2, selfpairs=True, minlen=1):
        if any(a == b for a, b in seq):
            progs.append((1, 1, comps4, tops, seq))
    n_self = len(progs) - n_scalar
    named = named_programs(thorough)
    general = general_programs(thorough)
    rich = rich_programs(thorough)
    progs += named + general + rich
    rep.coverage.update({"programs_scalar_graphs": n_scalar, "programs_self_connections": n_self, "programs_naming_schemes": len(named),
                         "programs_own_equations_and_connector_classes": len(rich)})
    # interleave so that every chunk has a mix of cheap and expensive members
    progs = [p for i in range(args.jobs * 8) for p in progs[i::args.jobs * 8]]
    n = max(1, len(progs) // (args.jobs * 8))
    chunks = [progs[i:i + n] for i in range(0, len(progs), n)]
    for col in run_parallel(work, chunks, args.jobs):
        rep.merge(col)
    # canary: reference with the wrong sign convention must differ from the implementation
    c = Collector()
    text, pot, flo = program(1, 1, comps4, tops, [("a.p", "P")])
    flat = pipeline.flat_reference(text, "M")
    ref = Ref(flat, "M")
    impl = [r == 0 for eq in flat.classes["M"].equations for r in ref.residual(eq)]
    allc = ["a.p", "b.p", "P", "Q"]
    spec = connect_ref.reference_equations(allc, {x: True for x in allc}, pot, flo, [("a.p", "P")], lambda c_, x: z3.Real(f"{c_}.{x}"))
    r, _ = equiv.check(c, [z3.And(impl), z3.Not(z3.And(spec))])
    rep.coverage["canary_detected"] = r == "sat"
    if r != "sat":
        rep.harness_error("canary: wrong sign convention not detected")
    cov = rep.coverage
    cov["disagreements_checked"] = rep.queries.get("sat", 0)
    cov["exhaustive"] = True
    cov["functions_encoded"] = ["tree.flatten -> flatten_symbols (inside/outside per class level, array dimensions), expand_connectors (flat scalar and array equations -> z3 linear constraints)"]
    cov["bounds"] = (
        "quick: (1) scalar graphs: every ordered sequence of <=3 connect clauses over {a.p, b.p, P, Q} (k=m=1), <=2 (k=m=2), <=1 over 3 components x 2 connectors; "
        "(2) the <=2-clause sequences over those 4 connectors that contain a self-connection connect(c, c); "
        "(3) 7 naming schemes in which flat names are string prefixes/suffixes of each other (ports p/p2 in both declaration orders, top connector inl vs components inlet/inletb, "
        "tops P/P2, suffix pairs p/qp a/ba, a_p next to a.p, all at once) and 4 member-name schemes (f/f2, f2/f, v/v2+i/i2, e/e_flow/e_flow2), each with every <=1-clause sequence over "
        "8 connectors and every unordered 2-clause sequence over 5 of them; "
        "(4) array-valued connector members (Real v[2]; flow Real i[2]) x every <=2-clause sequence over 4 connectors; "
        "(5) every non-empty <=2-clause scalar graph lifted to N=2 element-wise connected copies (a[N], b[N] components, P[N], Q[N] connectors) in 5 renderings "
        "(copy-major, clause-major, right-hand side shifted to the next copy, whole-array clauses connect(a.p, P), scalar P/Q joining all copies), 1-clause graphs also with N=1, N=3, "
        "k=m=2 and with an array-valued flow member; (6) every non-empty <=2-clause sequence over the elements {n[1].p, n[2].p, t[1], t[2], x.p}, <=1 clause over s[2,2] and u, "
        "and the 2-D array fully connected by 4 clauses; (7) connect clauses inside component classes (Comp with connectors p, n and sub-component s.q: <=1 inner clause x "
        "(<=1 ordered or 2 unordered outer clauses over {a.p, a.n, b.p, P}), 2 unordered inner clauses x <=1 outer), the same with Comp a[2] and with an array connector Pin p[2] "
        "inside Comp; (8) 11 hand-listed clause forms: whole-array clause mixed with element clauses, for-equation, slice, parameter subscript; "
        "(9) models with equations of their own: Comp (connectors p, n, variable x) carrying one of 11 linear equation sets (p.i = x, x = p.i, -p.i = x, 0 = p.i - x, p.i = 2*x + 1, "
        "p.i = n.i, p.i = x & n.i = x, resistor-like two-port, p.i + n.i = 0 & p.v = n.v, p.v = x, p.v = p.i) or the top class carrying one of 5 (P.i = y, y = Q.i, c.p.i = y & a.p.i = y, "
        "P.i + c.n.i = y, Q.i = y together with p.i = x; written before or after the connect clauses), in M with components a, b, c, top connectors P, Q: every <=1-clause ordered and every "
        "unordered 2-clause sequence over {a.p, a.n, b.p, P} (c.p, c.n, b.n, Q always unconnected), plus k=m=2 with p.i1 = x, P.i2 = y x <=1 clause; the reference is the model's own "
        "equations (read from the same strings) and the connection-set equations; "
        "(10) two connector classes X, Y in one model (x1.p, x2.p, tx of X; y1.p, y2.p, ty of Y) in 9 layouts: same short name Pin in two packages with Y having more members / "
        "disjoint members / flow and potential swapped / identical members, two differently named classes, classes declared locally in two models under one name, Ext extends Base, "
        "replaceable connector redeclared in the Y instances only, a class with input/output/parameter/constant members; each with every ordered <=1-clause sequence, every 2-clause "
        "sequence of unordered pairs (both class orders) and 2 sequences with the Y instances declared first; structural side: flat variables are exactly the members of each "
        "connector's own class and no flat equation mentions an undeclared variable. "
        "thorough: (1) <=4 clauses over 4 connectors, <=3 over 5, <=3 with k=m=2, <=2 over 8 connectors; (2) self-connections in <=3 clauses; (3) ordered 2-clause sequences over 6 connectors "
        "per scheme; (4) <=3 clauses, also mixed scalar/array members with k=m=2; (5) <=3-clause graphs x 6 renderings (also descending copy order), 2-clause graphs with N=3; "
        "(6) <=2 ordered and 3 unordered clauses over 6 array elements, <=2 over the 2-D array; (7) <=2 inner x <=2 outer ordered clauses, <=2 outer over Comp a[2], <=2 inner over Pin p[2]; "
        "(9) every ordered <=2-clause and unordered 3-clause sequence per equation set, for p.i = x and the two-port also the ordered 2-clause sequences over 6 connectors that touch c.p or Q; "
        "(10) ordered <=2-clause and unordered 3-clause sequences per layout, alternating the declaration order of the X and Y instances. "
        "All variable values unbounded reals in every family")
    rep.assumptions += ["in families (1)-(8) and (10) components carry no equations of their own, so the flat equations are exactly the connection equations; in family (9) the "
                        "reference is the conjunction of the model's own linear equations (instantiated per component from the strings rendered into the text) and the connection equations",
                        "input/output members of a connector are equated like potentials; parameter and constant members produce no equation",
                        "'every flow variable that appears in no connection is zero' is applied to inside and outside connectors alike, as the statement says; "
                        "a connector that is connected only by a clause of its own class (as an outside connector) counts as appearing in a connection",
                        "a connect clause between whole arrays, a for-equation, a slice or a parameter subscript stands for the element-wise scalar clauses (Modelica spec 9.1)",
                        "a violation is filed under the class-level case 'array-partial:unconnected-element-flow-not-zero' only when z3 proves "
                        "(flat equations and the missing flow = 0 of never-connected elements of partly connected arrays) <=> reference; otherwise under the program's own id"]
    if not cov.get("programs"):
        rep.harness_error("nothing compared")
    return rep.finish()


if __name__ == "__main__":
    sys.exit(main())
