"""C16 - alias elimination merges variable metadata soundly (Engine B).

Real code: generate() + Model.simplify({'detect_aliases': True}) - the attribute-merging loop of
detect_aliases.  Bounds, nominals and start values are declared as *parameters* (min = lo_x, ...)
so the merged attributes come out of the real code as CasADi expressions in those parameters; z3
proves them equal to the specification for ALL parameter values:
  min = max_i(own/alias lower bounds, -max for negative aliases), max = min_i(...),
  nominal = max_i nominal_i, fixed = or_i fixed_i,
  start = own if declared, else the sign-adjusted explicit start of one of the aliases, else 0.
"""
import itertools
import logging
import sys
import traceback

import casadi as ca
import z3

from vk.report import Collector, EncodingGap, Report, run_parallel, std_args
from vk.smt import equiv, modelio, ops, pipeline
from vk.smt.sx2z3 import sx2z3

PROP = "C16"
INF = z3.Real("__inf__")


def build(n, signs, head, start_mask, attr_mask, fixed_mask, kinds=None):
    """Variables: h (head: state 'x' / input 'u' / none) and a1..an; a1 = (+/-)head or expression."""
    names = []
    if head in ("state", "input"):
        names.append("h")
    names += [f"a{i}" for i in range(1, n + 1)]
    rel = {}  # sign relative to a1
    rel["a1"] = 1
    for i, s in enumerate(signs, start=1):
        rel[f"a{i + 1}"] = rel[f"a{i}"] * s
    hs = 1
    if head in ("state", "input"):
        rel["h"] = 1
    decl, params = [], []
    has = {}
    for k, v in enumerate(names):
        mods = []
        kind = (kinds[k] if kinds else "all") if (attr_mask >> k) & 1 else "none"
        has[v] = {"min": kind in ("all", "min"), "max": kind in ("all", "max"), "nom": kind in ("all", "nom")}
        if has[v]["min"]:
            mods.append(f"min = lo_{v}")
            params.append(f"lo_{v}")
        if has[v]["max"]:
            mods.append(f"max = hi_{v}")
            params.append(f"hi_{v}")
        if has[v]["nom"]:
            mods.append(f"nominal = n_{v}")
            params.append(f"n_{v}")
        if (start_mask >> k) & 1:
            mods.append(f"start = s_{v}")
            params.append(f"s_{v}")
        if (fixed_mask >> k) & 1:
            mods.append("fixed = true")
        m = "(" + ", ".join(mods) + ")" if mods else ""
        pre = "input " if (v == "h" and head == "input") else ""
        decl.append(f"  {pre}Real {v}{m};")
    eqs = []
    if head == "state":
        eqs.append("  der(h) = -h + a%d;" % n)
        eqs.append("  a1 = h;")
    elif head == "input":
        eqs.append("  der(xx) = -xx + a%d;" % n)
        eqs.append("  a1 = h;")
        decl.append("  Real xx;")
    else:
        eqs.append("  der(xx) = -xx + a%d;" % n)
        eqs.append("  a1 = 2 * xx + 1;")
        decl.append("  Real xx;")
    for i, s in enumerate(signs, start=1):
        eqs.append(f"  a{i + 1} = {'-' if s < 0 else ''}a{i};")
    text = ("model S\n" + "".join(f"  parameter Real {p} = 1;\n" for p in params) + "\n".join(decl) +
            "\nequation\n" + "\n".join(eqs) + "\nend S;\n")
    info = {"names": names, "rel": rel, "attr": {v: bool((attr_mask >> k) & 1) for k, v in enumerate(names)}, "has": has,
            "start": {v: bool((start_mask >> k) & 1) for k, v in enumerate(names)},
            "fixed": {v: bool((fixed_mask >> k) & 1) for k, v in enumerate(names)}, "params": params}
    return text, info


def zmax(ts):
    r = ts[0]
    for t in ts[1:]:
        r = z3.If(r >= t, r, t)
    return r


def zmin(ts):
    r = ts[0]
    for t in ts[1:]:
        r = z3.If(r <= t, r, t)
    return r


def attr_term(model, val, psyms, pnames, div):
    mx = ca.MX(val) if not isinstance(val, ca.MX) else val
    f = ca.Function("a", [ca.veccat(*psyms)], [mx])
    _, zo, _ = sx2z3(f, [pnames], div)
    return zo[0]["dense"][0]


def check(col, case, text, info):
    m = pipeline.real_generate(text, "S")
    lg = logging.getLogger("pymoca")
    lvl = lg.level
    lg.setLevel(logging.ERROR)  # conflicting-start warnings are expected and not a failure here
    try:
        m.simplify({"detect_aliases": True})
    except Exception as e:
        col.violation(f"{case}:simplify-raises:{type(e).__name__}",
                      f"simplify(detect_aliases) raises {type(e).__name__}: {str(e)[-80:]} while merging alias metadata",
                      {"model_text": text})
        return
    finally:
        lg.setLevel(lvl)
    remaining = {v.symbol.name(): v for v in m.states + m.alg_states + m.inputs}
    members = info["names"]
    left = [v for v in members if v in remaining]
    if len(left) != 1:
        col.violation(f"{case}:class-size", f"{len(left)} members of one alias class remain ({left}), expected exactly 1", {"model_text": text})
        return
    c = left[0]
    var = remaining[c]
    sgn = {v: info["rel"][v] * info["rel"][c] for v in members}
    P = lambda n: z3.Real(n)
    lo = lambda v: P(f"lo_{v}") if info["has"][v]["min"] else -INF
    hi = lambda v: P(f"hi_{v}") if info["has"][v]["max"] else INF
    nom = lambda v: P(f"n_{v}") if info["has"][v]["nom"] else ops.ZERO
    spec = {
        "min": zmax([lo(v) if sgn[v] > 0 else -hi(v) for v in members]),
        "max": zmin([hi(v) if sgn[v] > 0 else -lo(v) for v in members]),
        "nominal": zmax([nom(v) for v in members]),
    }
    axioms = [INF > 0]
    for p in info["params"]:
        axioms += [P(p) < INF, P(p) > -INF]
    psyms = m._symbols(m.parameters)
    pnames = [s.name() for s in psyms]
    div = ops.Divisors()
    for attr in ("min", "max", "nominal"):
        got = attr_term(m, getattr(var, attr), psyms, pnames, div)
        r, mod = equiv.check(col, axioms + [got != spec[attr]])
        col.bump("attribute_obligations")
        if r == "sat":
            pt = equiv.point_from_model(mod, [got, spec[attr]])
            conf = replay(m, var, attr, psyms, pnames, spec[attr], pt)
            if conf:
                col.violation(f"{case}:{attr}", f"merged {attr} of canonical '{c}' differs from the specification", {"model_text": text, "detail": conf, "canonical": c, "signs": sgn})
            else:
                col.note_inconclusive(f"{case}:{attr} sat did not replay")
        elif r == "unknown":
            col.note_inconclusive(f"{case}:{attr} unknown")
    # fixed
    want_fixed = any(info["fixed"][v] for v in members)
    got_fixed = var.fixed
    try:
        gf = bool(float(ca.MX(got_fixed)) != 0)
    except Exception:
        gf = None
    col.bump("attribute_obligations")
    if gf is None or gf != want_fixed:
        col.violation(f"{case}:fixed", f"merged fixed of canonical '{c}' is {got_fixed!r}, specification {want_fixed}", {"model_text": text})
    # start
    col.bump("attribute_obligations")
    got = attr_term(m, var.start, psyms, pnames, div)
    if info["start"][c]:
        ok_terms = [P(f"s_{c}")]
    else:
        ok_terms = [(P(f"s_{v}") if sgn[v] > 0 else -P(f"s_{v}")) for v in members if v != c and info["start"][v]]
        if not ok_terms:
            ok_terms = [ops.ZERO]
    r, mod = equiv.check(col, axioms + [z3.And([got != t for t in ok_terms])])
    if r == "sat":
        # replay: numerically compare at a generic point (distinct parameter values)
        pt = {p: 1.0 + 0.37 * i for i, p in enumerate(info["params"])}
        gv = modelio.eval_function(ca.Function("a", [ca.veccat(*psyms)], [ca.MX(var.start)]), [pnames], pt)[0][0]
        wv = [equiv.z3eval(t, pt) for t in ok_terms]
        if not any(equiv.close(gv, w) for w in wv):
            col.violation(f"{case}:start", f"merged start of canonical '{c}' is {gv} at {pt}, specification allows {wv}",
                          {"model_text": text, "canonical": c, "signs": sgn, "point": pt})
        else:
            col.note_inconclusive(f"{case}:start sat did not replay")
    elif r == "unknown":
        col.note_inconclusive(f"{case}:start unknown")
    # the metadata function must report the same merged values
    f = m.variable_metadata_function
    _, zo, _ = sx2z3(f, [pnames], div)
    groups = [m.states, m.alg_states, m.inputs]
    for gi, g in enumerate(groups):
        for ri, v in enumerate(g):
            if v is var:
                rows = len(g)
                for ci, attr in enumerate(("value", "min", "max", "start", "fixed", "nominal")):
                    if attr in spec:
                        got = zo[gi]["dense"][ci * rows + ri]
                        r, _ = equiv.check(col, axioms + [got != spec[attr]])
                        col.bump("attribute_obligations")
                        if r == "sat":
                            col.violation(f"{case}:metadata:{attr}", f"variable_metadata_function reports a different merged {attr} for '{c}'", {"model_text": text})
    col.bump("programs")


def replay(m, var, attr, psyms, pnames, spec, pt):
    f = ca.Function("a", [ca.veccat(*psyms)], [ca.MX(getattr(var, attr))])
    for p in equiv.perturbations(pt, 0):
        p = dict(p)
        p["__inf__"] = float("inf")
        try:
            gv = modelio.eval_function(f, [pnames], p)[0][0]
            wv = equiv.z3eval(spec, p)
        except Exception:
            continue
        if not equiv.close(gv, wv):
            return {"point": {k: v for k, v in p.items() if k != "__inf__"}, "impl": gv, "spec": wv}
    return None


def work(item):
    case, args = item
    col = Collector()
    try:
        text, info = build(*args)
        check(col, case, text, info)
        col.sample({"case": case, "text": text}, 1)
    except EncodingGap as g:
        col.append("encoding_gaps", f"{case}: {g}")
    except Exception:
        col.harness_error(f"{case}: " + traceback.format_exc()[-1200:])
    return col


def main():
    args = std_args(PROP)
    rep = Report(PROP, args.tier, "translation_validation", args.seed)
    items = []
    ns = (1, 2, 3) if args.tier == "quick" else (1, 2, 3, 4)
    for n in ns:
        for head in ("expr", "state", "input"):
            nv = n + (1 if head != "expr" else 0)
            if nv < 2:
                continue
            for signs in itertools.product((1, -1), repeat=n - 1):
                masks = range(2 ** nv)
                for sm in masks:
                    # attribute / fixed masks rotate deterministically with the start mask
                    am = (2 ** nv - 1) if sm % 3 != 1 else (sm ^ (2 ** nv - 1)) | 1
                    fm = (sm * 5 + n) % (2 ** nv)
                    if args.tier == "quick" and nv >= 4 and sm % 2:
                        continue
                    tag = "".join("+" if s > 0 else "-" for s in signs)
                    items.append((f"n{n}{tag}:{head}:s{sm}:a{am}:f{fm}", (n, signs, head, sm, am, fm)))
    # one-sided bounds: every variable has only min, only max, only a nominal, all three or nothing
    kinds_all = ("all", "min", "max", "nom")
    for n in ((1, 2) if args.tier == "quick" else (1, 2, 3)):
        for head in ("expr", "state", "input"):
            nv = n + (1 if head != "expr" else 0)
            if nv < 2 or nv > 3:
                continue
            for signs in itertools.product((1, -1), repeat=n - 1):
                for kinds in itertools.product(kinds_all, repeat=nv):
                    if all(k == "all" for k in kinds):
                        continue
                    if args.tier == "quick" and nv == 3 and ("nom" in kinds):
                        continue
                    for am in ((2 ** nv - 1, 2 ** nv - 2) if nv == 2 else (2 ** nv - 1,)):
                        tag = "".join("+" if s > 0 else "-" for s in signs)
                        items.append((f"n{n}{tag}:{head}:kinds[{','.join(kinds)}]:a{am}", (n, signs, head, 0, am, 0, list(kinds))))
    for col in run_parallel(work, items, args.jobs):
        rep.merge(col)
    # canary: nominal compared with min-of-nominals must be sat
    c = Collector()
    r, _ = equiv.check(c, [zmax([z3.Real("n1"), z3.Real("n2")]) != zmin([z3.Real("n1"), z3.Real("n2")])])
    rep.coverage["canary_detected"] = r == "sat"
    cov = rep.coverage
    cov["disagreements_checked"] = rep.queries.get("sat", 0)
    cov["functions_encoded"] = ["Model._simplify_once: detect_aliases attribute merging (executed on MX parameters)", "Model.variable_metadata_function"]
    cov["bounds"] = "alias classes of 2..4 (thorough 5) variables, every sign pattern, canonical = state / input / algebraic, every subset of explicit starts; every combination of one-sided bounds (only min / only max / only nominal / all / none per variable) for classes of 2-3; bounds/nominals/starts unbounded real parameters"
    rep.assumptions += ["unset bounds are +/-inf: modelled by a constant INF with INF > every attribute parameter", "fixed flags are literals"]
    if not cov.get("programs"):
        rep.harness_error("nothing compared")
    return rep.finish()


if __name__ == "__main__":
    sys.exit(main())
