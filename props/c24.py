"""C24 - SymPy backend emits code with the flat model's meaning (Engine B, py2z3).

Real code: backends.sympy.generator.generate.  For every enumerated model the generated module
must compile(); every entry of `self.eqs` is read back with Python's ast module (so Python's
precedence applies) and z3 proves it equal to lhs - rhs of the flat equation for ALL values; the
x / v / p / c / u / y lists must match the flat model's classification; distinct Modelica names must
mangle to distinct Python identifiers (enumerated names here; symbolic strings in the CrossHair part).
"""
import sys
import traceback

import z3

from pymoca import ast, parser, tree
from pymoca.backends.sympy import generator as sgen
from vk.paths import REPO
from vk import exprgen
from vk.report import Collector, EncodingGap, Report, run_parallel, std_args
from vk.smt import equiv, ops, pipeline
from vk.smt.ast2z3 import Ref
from vk.smt.py2z3 import module_lists, py2z3

PROP = "C24"
BATCH = 25
E = exprgen


def arith_trees(tier):
    leaves = ["a", "b", "c", "d"]
    out = []
    ops_ = ["+", "-", "*", "/", "^"]
    import itertools
    for o1, o2 in itertools.product(ops_, ops_):
        out.append(E.Bn(o1, E.Bn(o2, E.V("a"), E.V("b")), E.V("c")))
        out.append(E.Bn(o1, E.V("a"), E.Bn(o2, E.V("b"), E.V("c"))))
    for o in ops_:
        out += [E.Un("-", E.Bn(o, E.V("a"), E.V("b"))), E.Bn(o, E.Un("-", E.V("a")), E.V("b")), E.Bn(o, E.V("a"), E.Un("-", E.V("b"))),
                E.Bn(o, E.Call("sin", E.V("a")), E.Call("cos", E.Bn("+", E.V("b"), E.V("c")))),
                E.Bn(o, E.V("time"), E.N("2")), E.Bn(o, E.N("0.5"), E.Call("der", E.V("x"))),
                E.Call("sin", E.Bn(o, E.V("a"), E.V("b")))]
    out += [E.V("a"), E.N("3"), E.Un("-", E.V("a")), E.Un("-", E.Un("-", E.V("a"))), E.Call("tan", E.V("time")),
            E.Un("-", E.Bn("^", E.V("a"), E.N("2"))), E.Bn("^", E.Un("-", E.V("a")), E.N("2"))]
    if tier == "thorough":
        for o1, o2, o3 in itertools.product(ops_, repeat=3):
            out.append(E.Bn(o1, E.Bn(o2, E.V("a"), E.Bn(o3, E.V("b"), E.V("c"))), E.V("d")))
            out.append(E.Bn(o1, E.V("a"), E.Bn(o2, E.Bn(o3, E.V("b"), E.V("c")), E.V("d"))))
            out.append(E.Bn(o1, E.Bn(o2, E.V("a"), E.V("b")), E.Bn(o3, E.V("c"), E.V("d"))))
    return out


def pr(t):
    # der(x) prints as a call already
    return E.pr(t, "min")


def model_of(texts):
    decl = "  Real a, b, c, d;\n  Real x;\n" + "".join(f"  Real y{i};\n" for i in range(len(texts)))
    eqs = "  der(x) = -x;\n" + "".join(f"  y{i} = {t};\n" for i, t in enumerate(texts))
    return "model M\n" + decl + "equation\n" + eqs + "end M;\n"


def mangle_spec(name):
    """The naming the statement implies: an injective map to identifiers; we only need the inverse
    of whatever the generator emitted, checked for injectivity."""
    return name


def check_module(col, case, text, cls, per_eq_cases=None):
    """Returns False if something structural failed."""
    try:
        src = sgen.generate(parser.parse(text, bypass_cache=True), cls)
    except Exception as e:
        col.violation(f"{case}:generate-raises:{type(e).__name__}", f"sympy generate raises {type(e).__name__}: {str(e)[:100]}", {"model_text": text})
        return False
    try:
        compile(src, "<generated>", "exec")
    except SyntaxError as e:
        col.violation(f"{case}:not-python", f"generated module is not valid Python: {e}", {"model_text": text, "generated": src})
        return False
    lists = module_lists(src)
    flat = pipeline.flat_reference(text, cls)
    fc = flat.classes[cls]
    ref = Ref(flat, cls)
    # identifier -> flat name (inverse of the mangling actually used), injectivity
    ident = {}
    for cat in "xvcpu":
        for idn in lists.get(cat, []):
            ident.setdefault(idn, [])
    syms = sorted(fc.symbols.values(), key=lambda s: s.order)
    # recover mapping by the generator's own order inside each list is fragile; use the rule-free
    # approach: every flat symbol must correspond to exactly one identifier equal to its name with
    # '.' replaced by '__' followed by zero or more '_' (the generator's documented clash rule)
    name_of = {}
    for s in syms:
        base = s.name.replace(".", "__")
        cands = [i for i in ident if i.rstrip("_") == base.rstrip("_") and i.startswith(base)]
        if len(cands) != 1:
            col.violation(f"{case}:symbol:{s.name}", f"flat variable {s.name} has {len(cands)} python symbols ({cands}) in the generated lists",
                          {"model_text": text, "generated": src})
            return False
        if cands[0] in name_of:
            col.violation(f"{case}:mangle-collision:{name_of[cands[0]]}|{s.name}",
                          f"distinct Modelica variables {name_of[cands[0]]} and {s.name} map to the same Python symbol {cands[0]}",
                          {"model_text": text, "generated": src})
            return False
        name_of[cands[0]] = s.name
    names = {i: ref.env[n] for i, n in name_of.items()}
    der = lambda idn: ref.env["der(%s)" % name_of[idn]]
    # classification
    want = {"x": [], "v": [], "c": [], "p": [], "u": [], "y": []}
    for s in syms:
        pf = set(s.prefixes)
        if "state" in pf:
            want["x"].append(s.name)
        elif "constant" in pf:
            want["c"].append(s.name)
        elif "parameter" in pf:
            want["p"].append(s.name)
        elif "input" in pf:
            want["u"].append(s.name)
        else:
            want["v"].append(s.name)
        if "output" in pf:
            want["y"].append(s.name)
    for cat in want:
        got = [name_of.get(i, i) for i in lists.get(cat, [])]
        col.bump("classification_lists")
        if sorted(got) != sorted(want[cat]) or (cat != "v" and got != want[cat]):
            col.violation(f"{case}:list:{cat}", f"generated list {cat} = {got}, flat model classification {want[cat]}", {"model_text": text, "generated": src})
    # equations
    eqs = lists.get("eqs", [])
    if len(eqs) != len(fc.equations):
        col.violation(f"{case}:n-eqs", f"{len(eqs)} generated equations for {len(fc.equations)} flat equations", {"model_text": text, "generated": src})
        return False
    ok = True
    for i, (node, feq) in enumerate(zip(eqs, fc.equations)):
        ec = per_eq_cases[i] if per_eq_cases else f"{case}:eq{i}"
        col.bump("equations")
        try:
            got = py2z3(node, names, ref.div, ref.env["time"], der)
            want_t = ref.residual(feq)[0]
        except EncodingGap as g:
            col.append("encoding_gaps", f"{ec}: {g}")
            continue
        if got.get_id() == want_t.get_id():
            col.count("unsat")
            continue
        r, m = equiv.check(col, ref.div.nonzero() + [got != want_t])
        if r == "sat":
            pt = equiv.point_from_model(m, [got, want_t])
            conf = replay(src, cls, i, name_of, pt, want_t)
            if conf:
                import ast as pyast
                col.violation(ec, f"generated equation `{pyast.unparse(node)}` does not equal lhs - rhs of the flat equation",
                              {"model_text": text, "generated_equation": pyast.unparse(node), "detail": conf})
                ok = False
            else:
                col.note_inconclusive(f"{ec} sat did not replay")
        elif r == "unknown":
            col.note_inconclusive(f"{ec} unknown")
    col.bump("programs")
    return ok


def replay(src, cls, idx, name_of, pt, want_t):
    """Execute the generated module with the real SymPy (solver call stubbed) and evaluate eq idx."""
    import sympy
    import sympy.physics.mechanics as mech
    from pymoca.backends.sympy import runtime
    orig = runtime.OdeModel.compute_fg
    runtime.OdeModel.compute_fg = lambda self: None
    try:
        ns = {}
        exec(compile(src, "<generated>", "exec"), ns)
        mobj = ns[cls]()
    except Exception as e:
        return {"exec_error": repr(e)[:200]}
    finally:
        runtime.OdeModel.compute_fg = orig
    expr = mobj.eqs[idx]
    t = mobj.t
    for p in equiv.perturbations(pt, 0):
        subs = {}
        allsyms = list(mobj.x) + list(mobj.v) + list(mobj.c) + list(mobj.p) + list(mobj.u)
        try:
            e2 = expr
            for s in allsyms:
                nm = name_of.get(str(s).replace("(t)", "").replace(".", "__"), None)
                flat_name = nm if nm is not None else str(s).replace("(t)", "")
                e2 = e2.subs(sympy.Derivative(s, t), p.get("der(%s)" % flat_name, 0.0)) if hasattr(s, "diff") else e2
            for s in allsyms:
                nm = name_of.get(str(s).replace("(t)", "").replace(".", "__"), None)
                flat_name = nm if nm is not None else str(s).replace("(t)", "")
                e2 = e2.subs(s, p.get(flat_name, 0.0))
            e2 = e2.subs(t, p.get("time", 0.0))
            gv = float(e2)
            wv = float(equiv.z3eval(want_t, pipeline._Default(p)))
        except Exception as e:
            continue
        if not equiv.close(gv, wv):
            return {"point": p, "generated": gv, "flat": wv}
    return None


def work(batch):
    col = Collector()
    try:
        kind = batch[0]
        if kind == "exprs":
            trees = batch[1]
            texts = [pr(t) for t in trees]
            text = model_of(texts)
            cases = ["state-eq"] + [f"expr:{t}" for t in texts]
            check_module(col, "batch", text, "M", per_eq_cases=cases)
            col.sample({"equation": "y0 = " + texts[0]}, 1)
        else:
            _, cid, text, cls = batch
            check_module(col, cid, text, cls)
            col.sample({"model": cid}, 1)
    except Exception:
        col.harness_error(traceback.format_exc()[-1500:])
    return col


CLASSIFY = """model M
  constant Real k = 9.81;
  parameter Real m = 2;
  input Real u;
  output Real y;
  output Real pos;
  Real vel;
  Real w;
equation
  der(pos) = vel;
  der(vel) = u / m - k;
  y = 2 * pos + w;
  w = vel * m;
end M;
"""
NAMES = """model N
  Real y;
  Real sum;
  Real abs;
  Real psi;
equation
  y = 1; sum = y + 1; abs = sum * 2; psi = abs - y;
end N;
model M
  N n;
  Real n__y;
  Real sum;
  Real sum_;
  Real len;
equation
  n__y = 2 * n.y;
  sum = n.sum + 1;
  sum_ = sum * 3;
  len = sum_ - n.psi;
end M;
"""


def main():
    args = std_args(PROP)
    rep = Report(PROP, args.tier, "translation_validation", args.seed)
    ts = arith_trees(args.tier)
    items = [("exprs", ts[i:i + BATCH]) for i in range(0, len(ts), BATCH)]
    items += [("model", "classify", CLASSIFY, "M"), ("model", "names", NAMES, "M"),
              ("model", "repo:Spring", open(REPO + "/test/models/Spring.mo").read(), "Spring"),
              ("model", "repo:Aircraft", open(REPO + "/test/models/Aircraft.mo").read(), "Aircraft")]
    for col in run_parallel(work, items, args.jobs):
        rep.merge(col)
    cov = rep.coverage
    cov["disagreements_checked"] = rep.queries.get("sat", 0)
    cov["functions_encoded"] = ["backends.sympy.generator.generate (executed); generated self.eqs entries -> Python ast -> z3 (py2z3)"]
    cov["bounds"] = "expression trees of depth <= 2 (thorough 3) over + - * / ^, unary minus, der, sin/cos/tan, time, printed with the parentheses Modelica requires; variable values unbounded reals"
    rep.assumptions += ["Python's ast module gives the precedence SymPy will see", "sin/cos/pow uninterpreted; divisors non-zero"]
    if not cov.get("equations"):
        rep.harness_error("nothing compared")
    return rep.finish()


if __name__ == "__main__":
    sys.exit(main())
