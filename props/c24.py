"""C24 - SymPy backend emits code with the flat model's meaning (Engine B, py2z3).

Real code: backends.sympy.generator.generate.  For every enumerated model the generated module
must compile(); every entry of `self.eqs` is read back with Python's ast module (so Python's
precedence applies) and z3 proves it equal to lhs - rhs of the flat equation for ALL values; the
x / v / p / c / u / y lists must match the flat model's classification; distinct Modelica names must
mangle to distinct Python identifiers (enumerated names here; symbolic strings in the CrossHair part).

Second observation point (the one the property names: OdeModel.eqs / x / v / p / c / u / y of the EXECUTED module):
the generated module is executed with the real SymPy, so that Python's own name binding applies (locals of
__init__ shadow module-level names and builtins, a later assignment rebinds an earlier one, a call resolves its
callee like any other name).  The SymPy objects found in the lists give symbol -> flat variable (one object per
variable in every list it appears in, distinct variables / time -> distinct objects) and every entry of `eqs`
is translated object by object to z3 (`sympy2z3`) and proved equal to lhs - rhs of the flat equation again.
"""
import itertools
import sys
import traceback

import z3

from pymoca import ast, parser, tree
from pymoca.backends.sympy import generator as sgen
from vk.paths import REPO
from vk import exprgen
from vk.report import Collector, EncodingGap, Report, run_parallel, std_args
from vk.smt import equiv, ops, pipeline
from vk.smt.ast2z3 import Ref
from vk.smt.py2z3 import module_lists, py2z3

PROP = "C24"
BATCH = 25
E = exprgen


def arith_trees(tier):
    leaves = ["a", "b", "c", "d"]
    out = []
    ops_ = ["+", "-", "*", "/", "^"]
    import itertools
    for o1, o2 in itertools.product(ops_, ops_):
        out.append(E.Bn(o1, E.Bn(o2, E.V("a"), E.V("b")), E.V("c")))
        out.append(E.Bn(o1, E.V("a"), E.Bn(o2, E.V("b"), E.V("c"))))
    for o in ops_:
        out += [E.Un("-", E.Bn(o, E.V("a"), E.V("b"))), E.Bn(o, E.Un("-", E.V("a")), E.V("b")), E.Bn(o, E.V("a"), E.Un("-", E.V("b"))),
                E.Bn(o, E.Call("sin", E.V("a")), E.Call("cos", E.Bn("+", E.V("b"), E.V("c")))),
                E.Bn(o, E.V("time"), E.N("2")), E.Bn(o, E.N("0.5"), E.Call("der", E.V("x"))),
                E.Call("sin", E.Bn(o, E.V("a"), E.V("b")))]
    out += [E.V("a"), E.N("3"), E.Un("-", E.V("a")), E.Un("-", E.Un("-", E.V("a"))), E.Call("tan", E.V("time")),
            E.Un("-", E.Bn("^", E.V("a"), E.N("2"))), E.Bn("^", E.Un("-", E.V("a")), E.N("2"))]
    if tier == "thorough":
        for o1, o2, o3 in itertools.product(ops_, repeat=3):
            out.append(E.Bn(o1, E.Bn(o2, E.V("a"), E.Bn(o3, E.V("b"), E.V("c"))), E.V("d")))
            out.append(E.Bn(o1, E.V("a"), E.Bn(o2, E.Bn(o3, E.V("b"), E.V("c")), E.V("d"))))
            out.append(E.Bn(o1, E.Bn(o2, E.V("a"), E.V("b")), E.Bn(o3, E.V("c"), E.V("d"))))
    return out


CALLS = ["abs", "sin", "cos", "tan"]   # the builtin calls that work in the generated module: Python's own abs + the three imports


def call_trees(tier):
    """Every callable builtin (abs is spelled like a PYTHON builtin, sin/cos/tan like the module's imports) alone, with
    signed / operator / literal / time / der() arguments, as either operand of every operator, as base and exponent,
    as divisor, and nested in every other call."""
    a, b = E.V("a"), E.V("b")
    ops_ = ["+", "-", "*", "/", "^"]
    out = []
    for f in CALLS:
        c = lambda *x: E.Call(f, *x)
        out += [c(a), c(E.Un("-", a)), E.Un("-", c(a)), c(E.V("time")), c(E.Call("der", E.V("x"))), c(E.N("2.5")), c(E.Bn("*", E.N("0.1"), a)),
                E.Bn("^", c(a), E.N("2")), E.Bn("^", E.N("2"), c(a)), E.Bn("^", c(a), c(b)), E.Bn("/", E.N("1"), c(a)),
                E.Bn("-", a, c(E.Bn("-", a, b))), E.Un("-", c(E.Un("-", E.Bn("*", a, b))))]
        for o in ops_:
            out += [c(E.Bn(o, a, b)), E.Bn(o, c(a), b), E.Bn(o, a, c(b))]
        for g in CALLS:
            out.append(c(E.Call(g, a)))
        if tier == "thorough":
            for o1, o2 in itertools.product(ops_, ops_):
                out += [E.Bn(o1, c(E.Bn(o2, a, b)), E.V("c")), E.Bn(o1, E.V("c"), c(E.Bn(o2, a, b)))]
    return out


# Real literals as they are spelled in Modelica source.  The generator prints the parsed VALUE, so what matters is
# how many significant digits / which exponent a value needs: short and long mantissas, values whose Python repr
# switches to exponent notation (>= 1e16, < 1e-4), integers beyond 2**53, integral floats.
LITERALS_QUICK = ["7", "123456789", "2.5", "10.0", "1000000.0", "0.1", "9.80665", "123456.7", "1234567.5", "6378137.25", "0.1234567891",
                  "3.141592653589793", "0.000123456789", "1e-3", "1.5e10", "2.5E-7", "6.02214076e23", "1.602176634e-19", "1e22", "12345678.9e-3"]
LITERALS_MORE = ["12345678901234567890", "9007199254740993", "299792458.0", "100000.5", "0.30000000000000004", "1e16", "1.0e5", "123456789.123456789",
                 "0.00001", "5e-324", "1.7976931348623157e308", "4.35e-11", "99999.95", "999999.5", "0.9999995", "1e-5", "123e4", "0.5e0"]


def literal_trees(tier):
    """Every literal alone, negated, as a factor, as a divisor (amplifies a wrong small literal), as a subtrahend
    and as an exponent / a call argument."""
    lits = LITERALS_QUICK + (LITERALS_MORE if tier == "thorough" else [])
    out = []
    for k, txt in enumerate(lits):
        n = E.N(txt)
        out += [n, E.Bn("*", E.V("a"), n), E.Bn("/", E.V("a"), n), E.Bn("-", n, E.V("b"))]
        if tier == "thorough" or k % 2 == 0:
            out += [E.Un("-", n), E.Bn("^", E.V("a"), n), E.Call("sin", E.Bn("*", n, E.V("time"))), E.Bn("+", E.Call("der", E.V("x")), n)]
    out += [E.Un("+", E.V("a")), E.Un("+", E.Bn("*", E.V("a"), E.V("b"))), E.Bn("-", E.V("a"), E.Un("+", E.V("b")))]
    return out


# ---- classification family ------------------------------------------------------------------------------------
# role -> (declaration prefix, declaration suffix, equation template or None)
ROLES = {"state": ("", "", "der({n}) = k0 - {n};"), "state_out": ("output ", "", "der({n}) = k0 - {n};"),
         "out": ("output ", "", "{n} = 2 * q0 + k0;"), "plain": ("", "", "{n} = q0 - k0;"), "in": ("input ", "", None),
         "par": ("parameter ", " = 2", None), "const": ("constant ", " = 3", None),
         # an input whose derivative is used: the flat model makes it input AND state, the template binds its name twice
         "in_state": ("input ", "", "der({n}) = k0 - {n};")}
# (long name, a name contained in it): prefix, suffix, inner part, digit / underscore extension
NAME_PAIRS_QUICK = [("pos", "p"), ("vel", "e"), ("xx", "x")]
NAME_PAIRS_MORE = [("pos", "os"), ("x1", "x"), ("v_x", "v"), ("k0k", "k0"), ("q0", "q")]


def classification_models(tier):
    """Two variables whose names contain one another, in every combination of the roles the SymPy backend
    distinguishes (state / state+output / output / plain / input / input+state / parameter / constant) and both
    declaration orders, next to a fixed state q0 and parameter k0."""
    pairs = NAME_PAIRS_QUICK + (NAME_PAIRS_MORE if tier == "thorough" else [])
    out = []
    for (long_, short), rl, rs, order in itertools.product(pairs, ROLES, ROLES, ("LS", "SL")):
        if tier != "thorough" and "in_state" in (rl, rs) and (long_, short) != pairs[0]:
            continue   # quick: the differentiated-input role meets every other role for the first name pair only
        vs = [(long_, rl), (short, rs)]
        if order == "SL":
            vs.reverse()
        if long_ not in ("q0", "k0k"):
            vs = vs[:1] + [("q0", "state"), ("k0", "par")] + vs[1:]
        else:  # the fixed helpers themselves take part in the containment
            vs = vs + ([("k0", "par")] if long_ == "q0" else [("q0", "state")])
            vs = [v for i, v in enumerate(vs) if v[0] not in [w[0] for w in vs[:i]]]
        decl = "".join(f"  {ROLES[r][0]}Real {n}{ROLES[r][1]};\n" for n, r in vs)
        eqs = "".join("  " + ROLES[r][2].format(n=n) + "\n" for n, r in vs if ROLES[r][2])
        out.append((f"classify[{long_}:{rl},{short}:{rs},{order}]", "model M\n" + decl + "equation\n" + eqs + "end M;\n", "M"))
    return out


# ---- name family ----------------------------------------------------------------------------------------------
NAME_SINGLES = ["sum", "abs", "len", "max", "id", "int", "print",                       # Python builtins
                "keys", "get", "pop", "items", "values", "update", "copy", "psi",       # the generator's own clash list
                "sin", "cos", "OdeModel", "t", "x", "eqs",                              # names the generated module uses itself
                "tan", "u", "v", "p", "c", "y", "x0", "f", "g", "diff", "Matrix", "symbols", "dynamicsymbols", "division", "M",
                "_a", "a_", "a__", "x__y", "A", "a1",
                "lambda", "pass", "is", "None",                                         # Python keywords that are plain Modelica identifiers
                "self", "sympy", "mech"]                                                # names the class template relies on
NAME_PAIRS = [("sum", "sum_"), ("keys", "keys_"), ("psi", "psi_"), ("get", "get__"), ("a", "a_"), ("a_", "a__"), ("x__y", "x_y"), ("A", "a")]


def name_models(tier):
    out = []
    for nm in NAME_SINGLES:
        out.append((f"name:{nm}", f"model M\n  Real {nm};\n  Real zz;\nequation\n  {nm} = 2 * zz;\n  der(zz) = {nm} - zz;\nend M;\n", "M"))
    for a, b in NAME_PAIRS:
        out.append((f"name:{a}+{b}", f"model M\n  Real {a};\n  Real {b};\n  Real zz;\nequation\n  {a} = 2 * zz;\n  {b} = {a} + zz;\n  der(zz) = {b} - {a};\nend M;\n", "M"))
    return out


# ---- name x role x time family ---------------------------------------------------------------------------------
# The name family above declares plain variables only and never mentions `time`.  What a name may shadow depends on
# HOW the generated module creates the symbol (states / variables / inputs are functions of t, parameters and constants
# plain symbols) and on what else the equations refer to (time, an imported function), so here every name takes every
# role in a model whose equations use time (alone, as factor, as power base, as call argument) and a call.
NAME_ROLES = {"state": ("", "", "der({n}) = zz - {n} * time;"), "state_out": ("output ", "", "der({n}) = zz - {n} * time;"),
              "out": ("output ", "", "{n} = 2 * zz + time;"), "plain": ("", "", "{n} = 2 * zz + time;"), "in": ("input ", "", None),
              "in_state": ("input ", "", "der({n}) = zz - {n} * time;"), "par": ("parameter ", " = 2", None), "const": ("constant ", " = 3", None)}
ROLE_NAMES_QUICK = ["t", "x", "sin", "abs", "self", "psi", "lambda", "time_"]


def name_role_models(tier):
    names = ROLE_NAMES_QUICK if tier != "thorough" else ROLE_NAMES_QUICK + [n for n in NAME_SINGLES if n not in ROLE_NAMES_QUICK and n != "M"]
    out = []
    for nm, (role, (pre, suf, eq)) in itertools.product(names, NAME_ROLES.items()):
        f = "cos" if nm != "cos" else "sin"   # a variable called like the function it calls is the callee family's subject
        eqs = ([eq.format(n=nm)] if eq else []) + [f"der(zz) = {nm} - zz * time;", f"ww = {f}(time) * {nm} + time ^ 2 - time;"]
        out.append((f"namerole[{nm}:{role}]", f"model M\n  {pre}Real {nm}{suf};\n  Real zz;\n  Real ww;\nequation\n" + "".join(f"  {e}\n" for e in eqs) + "end M;\n", "M"))
    return out


# ---- callee family ---------------------------------------------------------------------------------------------
# A call's callee is a name like any other in the generated Python: a model variable spelled like the function (or
# like the escaped function name) lives next to a call of that function.
def callee_models(tier):
    roles = ["plain", "par"] + (["state", "in"] if tier == "thorough" else [])
    out = []
    for f, var, role in itertools.product(CALLS, ("{f}", "{f}_"), roles):
        var = var.format(f=f)
        pre, suf, eq = NAME_ROLES[role]
        eqs = ([eq.format(n=var)] if eq else []) + [f"der(zz) = {f}(zz) - {var};", f"ww = {var} * {f}({var} + time);"]
        out.append((f"callee[{f}():{var}:{role}]", f"model M\n  {pre}Real {var}{suf};\n  Real zz;\n  Real ww;\nequation\n" + "".join(f"  {e}\n" for e in eqs) + "end M;\n", "M"))
    return out


# ---- der() family ----------------------------------------------------------------------------------------------
# der() applied to a plain variable, an output and an INPUT (a feed-forward term), in every position an operand can
# take, with a second variable of the same role that is not differentiated, declared before or after it.
DER_USES = {"lhs": ["der({n}) = k0 - q0;"], "rhs": ["w = q0 + k0 * der({n});"], "neg": ["w = -der({n});"], "call": ["w = sin(der({n})) * q0;"],
            "pow-div": ["w = der({n}) ^ 2 / k0;"], "divisor": ["w = q0 / der({n});"], "twice": ["w = der({n}) + q0;", "w2 = k0 - der({n}) * time;"],
            "with-value": ["w = {n} * der({n}) - {n};"], "both": ["w = der({n}) - der({m});"]}
DER_ROLES = {"plain": "", "out": "output ", "in": "input "}


def der_models(tier):
    out = []
    for (role, pre), (use, eqs), order in itertools.product(DER_ROLES.items(), DER_USES.items(), ("first", "last")):
        if tier != "thorough" and role != "in" and order == "last":
            continue
        mine = [f"  {pre}Real n1;\n", f"  {pre}Real m1;\n"]
        if order == "last":
            mine.reverse()
        decl = mine[0] + "  Real q0;\n  parameter Real k0 = 2;\n  Real w;\n  Real w2;\n" + mine[1]
        body = ["der(q0) = k0 - q0 + m1;"] + [e.format(n="n1", m="m1") for e in eqs]
        out.append((f"der[{role}:{use}:{order}]", "model M\n" + decl + "equation\n" + "".join(f"  {e}\n" for e in body) + "end M;\n", "M"))
    return out


# ---- dotted names in every role --------------------------------------------------------------------------------
# A component instance gives flat names inst.x; the generator mangles them to inst__x and the class template turns
# '__' back into '.' for the SymPy symbol names.  The inner model has one variable of every role, uses time, a Python
# builtin call, an imported call and (second variant) the derivative of its input; the instance name itself is taken
# from the clash lists.
DOTTED_INNER = ("model N\n  input Real u;\n  output Real y;\n  Real x;\n  parameter Real k = 2;\n  constant Real c = 3;\nequation\n"
                "  der(x) = k * cos(time) - x * u;\n  y = abs(x) * c + {du} / time;\nend N;\n")
DOTTED_INSTANCES_QUICK = ["n", "t", "self", "abs", "sin"]
DOTTED_INSTANCES_MORE = ["time_", "x", "psi", "lambda", "sum", "eqs", "a_", "M"]


def dotted_models(tier):
    out = []
    for inst, du in itertools.product(DOTTED_INSTANCES_QUICK + (DOTTED_INSTANCES_MORE if tier == "thorough" else []), ("u", "der(u)")):
        text = DOTTED_INNER.format(du=du) + f"model M\n  N {inst};\n  N other;\n  Real zz;\nequation\n  der(zz) = {inst}.y - zz * time + other.x;\nend M;\n"
        out.append((f"dotted[{inst}:{du}]", text, "M"))
    return out


# ---- the model itself lives in a package ----------------------------------------------------------------------
PACKAGED_BODY = "  Real x;\n  Real y;\n  parameter Real k = 2;\nequation\n  der(x) = k * sin(time) - x;\n  y = abs(x) + cos(x) / k;\n"


def packaged_models(tier):
    return [("pkgclass[P.M]", "package P\nmodel M\n" + PACKAGED_BODY + "end M;\nend P;\n", "P.M"),
            ("pkgclass[P.Q.M]", "package P\npackage Q\nmodel M\n" + PACKAGED_BODY + "end M;\nend Q;\nend P;\n", "P.Q.M")]


# ---- equation shapes -------------------------------------------------------------------------------------------
# Everything above writes `variable = expression`.  The generated entry is `lhs - (rhs)`, so what stands on the LEFT
# matters too: sums, differences, products, quotients, powers, signs, literals, der(), calls and time on the left of
# every kind of right-hand side.
EQ_LHS = ["a + b", "a - b", "a * b", "a / b", "a ^ b", "-a", "-(a + b)", "-a - b", "0", "2.5", "der(x) + a", "der(x) * 2 - a", "-der(x)", "sin(a)",
          "abs(a) - b", "time", "time - a", "(a - b) - c", "a - (b - c)", "a / (b / c)"]
EQ_RHS = ["c", "c - d", "-c", "0", "der(x)", "c * time", "-(c - d)", "abs(c)"]


def equation_shapes(tier):
    rhs = EQ_RHS if tier == "thorough" else EQ_RHS[:5]
    return [(l, r) for l in EQ_LHS for r in rhs]


def pr(t):
    # der(x) prints as a call already
    return E.pr(t, "min")


def model_of(texts):
    decl = "  Real a, b, c, d;\n  Real x;\n" + "".join(f"  Real y{i};\n" for i in range(len(texts)))
    eqs = "  der(x) = -x;\n" + "".join(f"  y{i} = {t};\n" for i, t in enumerate(texts))
    return "model M\n" + decl + "equation\n" + eqs + "end M;\n"


def mangle_spec(name):
    """The naming the statement implies: an injective map to identifiers; we only need the inverse
    of whatever the generator emitted, checked for injectivity."""
    return name


def check_module(col, case, text, cls, per_eq_cases=None):
    """Returns False if something structural failed."""
    try:
        src = sgen.generate(parser.parse(text, bypass_cache=True), cls)
    except Exception as e:
        col.violation(f"{case}:generate-raises:{type(e).__name__}", f"sympy generate raises {type(e).__name__}: {str(e)[:100]}", {"model_text": text})
        return False
    try:
        compile(src, "<generated>", "exec")
    except SyntaxError as e:
        col.violation(f"{case}:not-python", f"generated module is not valid Python: {e}", {"model_text": text, "generated": src})
        return False
    real, err = instantiate(src, cls)
    if err:
        # valid syntax but the module cannot be imported / the model class cannot be instantiated (solver stubbed)
        col.violation(f"{case}:exec-raises:{err[0]}", f"generated module compiles but executing it / instantiating {cls} raises {err[0]}: {err[1]}",
                      {"model_text": text, "generated": src})
    col.bump("modules_executed")
    lists = module_lists(src)
    flat = pipeline.flat_reference(text, cls)
    fc = flat.classes[cls]
    ref = Ref(flat, cls)
    # identifier -> flat name (inverse of the mangling actually used), injectivity
    ident = {}
    for cat in "xvcpu":
        for idn in lists.get(cat, []):
            ident.setdefault(idn, [])
    syms = sorted(fc.symbols.values(), key=lambda s: s.order)
    # recover mapping by the generator's own order inside each list is fragile; use the rule-free
    # approach: every flat symbol must correspond to exactly one identifier equal to its name with
    # '.' replaced by '__' followed by zero or more '_' (the generator's documented clash rule)
    name_of = {}
    exact = {s.name: s.name.replace(".", "__") for s in syms if s.name.replace(".", "__") in ident}
    for s in syms:
        base = s.name.replace(".", "__")
        if s.name in exact:
            cands = [base]
        else:
            cands = [i for i in ident if i.rstrip("_") == base.rstrip("_") and i.startswith(base)]
            # an identifier that IS another variable's own name belongs to that variable (x and x_ side by side),
            # unless nothing else is left - then the two variables really share it
            free = [i for i in cands if i not in exact.values()]
            cands = free or cands
        if len(cands) != 1:
            col.violation(f"{case}:symbol:{s.name}", f"flat variable {s.name} has {len(cands)} python symbols ({cands}) in the generated lists",
                          {"model_text": text, "generated": src})
            return False
        if cands[0] in name_of:
            col.violation(f"{case}:mangle-collision:{name_of[cands[0]]}|{s.name}",
                          f"distinct Modelica variables {name_of[cands[0]]} and {s.name} map to the same Python symbol {cands[0]}",
                          {"model_text": text, "generated": src})
            return False
        name_of[cands[0]] = s.name
    names = {i: ref.env[n] for i, n in name_of.items()}
    der = lambda idn: ref.env["der(%s)" % name_of[idn]]
    # classification
    want = {"x": [], "v": [], "c": [], "p": [], "u": [], "y": []}
    for s in syms:
        pf = set(s.prefixes)
        if "state" in pf:
            want["x"].append(s.name)
        elif "constant" in pf:
            want["c"].append(s.name)
        elif "parameter" in pf:
            want["p"].append(s.name)
        elif "input" in pf:
            want["u"].append(s.name)
        else:
            want["v"].append(s.name)
        if "state" in pf and "input" in pf:
            # a differentiated input: the flat model classifies it as input AND state (time-varying, supplied from outside)
            want["u"].append(s.name)
        if "output" in pf:
            want["y"].append(s.name)
    for cat in want:
        got = [name_of.get(i, i) for i in lists.get(cat, [])]
        col.bump("classification_lists")
        if sorted(got) != sorted(want[cat]) or (cat != "v" and got != want[cat]):
            col.violation(f"{case}:list:{cat}", f"generated list {cat} = {got}, flat model classification {want[cat]}", {"model_text": text, "generated": src})
    # equations
    eqs = lists.get("eqs", [])
    if len(eqs) != len(fc.equations):
        col.violation(f"{case}:n-eqs", f"{len(eqs)} generated equations for {len(fc.equations)} flat equations", {"model_text": text, "generated": src})
        return False
    ok = True
    for i, (node, feq) in enumerate(zip(eqs, fc.equations)):
        ec = per_eq_cases[i] if per_eq_cases else f"{case}:eq{i}"
        col.bump("equations")
        try:
            got = py2z3_abs(node, names, ref.div, ref.env["time"], der)
            want_t = ref.residual(feq)[0]
        except EncodingGap as g:
            col.append("encoding_gaps", f"{ec}: {g}")
            continue
        if got.get_id() == want_t.get_id():
            col.count("unsat")
            continue
        r, m = equiv.check(col, ref.div.nonzero() + [got != want_t])
        if r == "sat":
            pt = equiv.point_from_model(m, [got, want_t])
            conf = replay(src, cls, i, name_of, pt, want_t)
            if conf:
                import ast as pyast
                col.violation(ec, f"generated equation `{pyast.unparse(node)}` does not equal lhs - rhs of the flat equation",
                              {"model_text": text, "generated_equation": pyast.unparse(node), "detail": conf})
                ok = False
            else:
                col.note_inconclusive(f"{ec} sat did not replay")
        elif r == "unknown":
            col.note_inconclusive(f"{ec} unknown")
    if real is not None:
        check_objects(col, case, text, src, cls, lists, name_of, ref, fc, per_eq_cases, real)
    col.bump("programs")
    return ok


def instantiate(src, cls, evaluate=True):
    """Execute the generated module with the real SymPy and instantiate the class (compute_fg, the solver call,
    stubbed).  evaluate=False: SymPy's automatic evaluation is switched off while the module runs, so every entry of
    `eqs` keeps the operator tree the generated code spelled out (same Python name binding, same objects in the lists).
    -> (instance, None) or (None, (exception type name, message))."""
    import sympy
    from pymoca.backends.sympy import runtime
    orig = runtime.OdeModel.compute_fg
    runtime.OdeModel.compute_fg = lambda self: None
    try:
        ns = {}
        with sympy.evaluate(evaluate):
            exec(compile(src, "<generated>", "exec"), ns)
            # a packaged model P.M cannot keep its dotted name as a Python class: accept the mangled or the short one
            name = next((n for n in (cls, cls.replace(".", "__"), cls.replace(".", "_"), cls.split(".")[-1]) if n in ns), cls)
            return ns[name](), None
    except Exception as e:
        return None, (type(e).__name__, str(e)[:120])
    finally:
        runtime.OdeModel.compute_fg = orig


def exec_module(src, cls):
    """-> None, or (exception type name, message)."""
    return instantiate(src, cls)[1]


# ---- the executed module: SymPy objects -> z3 -----------------------------------------------------------------
class ForeignSymbol(Exception):
    pass


def py2z3_abs(node, names, div, time_term, der):
    """py2z3 with Python's builtin abs() given its meaning (the shared translator knows the imported sin/cos/tan
    only): innermost calls first, every `abs(e)` becomes a fresh name bound to If(e >= 0, e, -e).  Any other callee
    spelling (abs_, Abs, ...) stays an unknown function and cannot be proved equal to the flat abs()."""
    import ast as pyast
    import copy
    names = dict(names)

    class Lift(pyast.NodeTransformer):
        def visit_Call(self, n):
            self.generic_visit(n)
            if isinstance(n.func, pyast.Name) and n.func.id == "abs" and "abs" not in names and len(n.args) == 1 and not n.keywords:
                v = py2z3(n.args[0], names, div, time_term, der)
                k = "abs#%d" % len(names)
                names[k] = z3.If(v >= 0, v, -v)
                return pyast.copy_location(pyast.Name(id=k, ctx=pyast.Load()), n)
            return n

    if not any(isinstance(n, pyast.Call) and isinstance(n.func, pyast.Name) and n.func.id == "abs" for n in pyast.walk(node)):
        return py2z3(node, names, div, time_term, der)
    return py2z3(Lift().visit(copy.deepcopy(node)), names, div, time_term, der)


def sympy2z3(expr, terms, ders, time_sym, time_term, div):
    """An entry of the executed module's `eqs` (a SymPy object, evaluated or unevaluated) -> z3.
    terms: SymPy symbol object -> z3 term of the flat variable it stands for, ders: the same for its time derivative.
    Symbols are looked up BY OBJECT, so what a name was bound to when the equation was built is what counts."""
    import sympy
    from sympy.core.function import AppliedUndef

    def is_recip(e):
        return isinstance(e, sympy.Pow) and e.exp == -1

    def cond(c):
        if c is sympy.true or c is True:
            return z3.BoolVal(True)
        if c is sympy.false or c is False:
            return z3.BoolVal(False)
        if isinstance(c, sympy.Equality):
            return go(c.lhs) == go(c.rhs)
        raise EncodingGap("sympy condition " + type(c).__name__)

    def go(e):
        if isinstance(e, (bool, int, float)):
            return ops.const(e)
        if e in terms:
            return terms[e]
        if e == time_sym:
            return time_term
        if isinstance(e, sympy.Integer):
            return ops.const(int(e))
        if isinstance(e, sympy.Rational):
            return z3.RealVal(f"{e.p}/{e.q}")
        if isinstance(e, sympy.Float):
            if e._prec != 53:
                raise EncodingGap("sympy Float of precision %d" % e._prec)
            return ops.const(float(e))
        if isinstance(e, (sympy.Symbol, AppliedUndef)):
            raise ForeignSymbol(str(e))
        if isinstance(e, sympy.Derivative):
            if e.expr in ders and tuple(e.variable_count) == ((time_sym, 1),):
                return ders[e.expr]
            if isinstance(e.expr, (sympy.Symbol, AppliedUndef)) and e.expr not in terms:
                raise ForeignSymbol(str(e.expr))
            raise EncodingGap("sympy derivative " + str(e))
        if isinstance(e, sympy.Add):
            vs = [go(a) for a in e.args]
            return sum(vs[1:], vs[0])
        if isinstance(e, sympy.Mul):
            if e.args[0] == -1 and len(e.args) > 1:   # how SymPy spells a unary minus
                return -go(sympy.Mul(*e.args[1:], evaluate=False))
            num = [go(a) for a in e.args if not is_recip(a)]
            den = [go(a.base) for a in e.args if is_recip(a)]
            n = ops.ONE
            if num:
                n = num[0]
                for v in num[1:]:
                    n = n * v
            if not den:
                return n
            d = den[0]
            for v in den[1:]:
                d = d * v
            return div.div(n, d)
        if isinstance(e, sympy.Pow):
            if is_recip(e):
                return div.div(ops.ONE, go(e.base))
            return ops.z_pow(go(e.base), go(e.exp))
        if isinstance(e, sympy.Abs):
            v = go(e.args[0])
            return z3.If(v >= 0, v, -v)
        if isinstance(e, (sympy.sin, sympy.cos, sympy.tan)):
            return ops.elem(type(e).__name__, go(e.args[0]))
        if isinstance(e, sympy.Piecewise):   # SymPy's own d/dt bookkeeping when evaluation is off: conditions on numbers
            r = ops.ZERO
            for val, c in reversed(e.args):
                r = z3.If(cond(c), go(val), r)
            return z3.simplify(r)
        raise EncodingGap("sympy node " + type(e).__name__)

    return go(expr)


def object_maps(inst, lists, name_of, ref):
    """Symbol objects of an executed instance, matched by position with the identifiers of the generated lists.
    -> (terms, ders, flat name of each object, problems [(case suffix, text)])."""
    terms, ders, flat_of, problems = {}, {}, {}, []
    bound = {}
    for cat in "xvcpuy":
        objs = list(getattr(inst, cat))
        idents = lists.get(cat, [])
        if len(objs) != len(idents):
            problems.append((f"objects:{cat}", f"executed list {cat} has {len(objs)} entries, the generated source lists {len(idents)}"))
            continue
        for idn, o in zip(idents, objs):
            flat = name_of.get(idn)
            if flat is None:
                continue
            if idn in bound and bound[idn][0] != o:
                problems.append((f"rebound:{flat}", f"variable {flat} is the SymPy object {bound[idn][0]!r} in list {bound[idn][1]} and {o!r} in list {cat}"))
            bound.setdefault(idn, (o, cat))
            if o in flat_of and flat_of[o] != flat:
                problems.append((f"object-collision:{flat_of[o]}|{flat}", f"distinct Modelica variables {flat_of[o]} and {flat} are the same SymPy object {o!r}"))
                continue
            if o == inst.t:
                problems.append((f"symbol-is-time:{flat}", f"variable {flat} is the SymPy object {o!r}, which is the model's time symbol"))
                continue
            flat_of[o] = flat
            terms[o] = ref.env[flat]
            ders[o] = ref.env["der(%s)" % flat]
    return terms, ders, flat_of, problems


def check_objects(col, case, text, src, cls, lists, name_of, ref, fc, per_eq_cases, real):
    """The executed module (see the module docstring).  `real` is the instance built with SymPy evaluating as usual."""
    import ast as pyast
    terms, ders, flat_of, problems = object_maps(real, lists, name_of, ref)
    seen = set()
    for suffix, what in problems:
        if suffix not in seen:
            seen.add(suffix)
            col.violation(f"{case}:{suffix}", what, {"model_text": text, "generated": src})
    col.bump("executed_symbol_objects", len(flat_of))
    if any(sfx.startswith(("object-collision:", "symbol-is-time:", "objects:")) for sfx in seen):
        return   # no symbol -> variable map to read the equations with (like a mangling collision at source level)
    raw, err = instantiate(src, cls, evaluate=False)
    views = []
    if raw is not None and len(raw.eqs) == len(real.eqs):
        t2, d2, _, p2 = object_maps(raw, lists, name_of, ref)
        if len(p2) == len(problems):
            views.append((raw, t2, d2))
    views.append((real, terms, ders))
    if len(real.eqs) != len(fc.equations):
        col.violation(f"{case}:n-eqs-executed", f"{len(real.eqs)} executed equations for {len(fc.equations)} flat equations", {"model_text": text, "generated": src})
        return
    for i, feq in enumerate(fc.equations):
        ec = (per_eq_cases[i] if per_eq_cases else f"{case}:eq{i}") + ":executed"
        col.bump("executed_equations")
        try:
            want_t = ref.residual(feq)[0]
        except EncodingGap as g:
            col.append("encoding_gaps", f"{ec}: {g}")
            continue
        verdict = None
        for inst, tm, dr in views:
            try:
                got = sympy2z3(inst.eqs[i], tm, dr, inst.t, ref.env["time"], ref.div)
            except ForeignSymbol as f:
                col.violation(ec + ":foreign-symbol", f"executed equation `{real.eqs[i]}` contains the symbol {f}, which is none of the model's x / v / c / p / u symbols nor time",
                              {"model_text": text, "generated": src})
                verdict = "violation"
                break
            except EncodingGap as g:
                verdict = ("gap", str(g))
                continue
            if got.get_id() == want_t.get_id():
                col.count("unsat")
                verdict = "unsat"
                break
            r, m = equiv.check(col, ref.div.nonzero() + [got != want_t])
            if r == "unsat":
                verdict = "unsat"
                break
            if r == "sat":
                conf = replay_objects(real, i, flat_of, equiv.point_from_model(m, [got, want_t]), want_t)
                if conf:
                    col.violation(ec, f"executed equation `{real.eqs[i]}` (source `{pyast.unparse(lists['eqs'][i])}`) does not equal lhs - rhs of the flat equation",
                                  {"model_text": text, "executed_equation": str(real.eqs[i]), "detail": conf})
                    verdict = "violation"
                    break
            verdict = ("open", r)
        if isinstance(verdict, tuple) and verdict[0] == "gap":
            col.append("encoding_gaps", f"{ec}: {verdict[1]}")
        elif isinstance(verdict, tuple):
            col.note_inconclusive(f"{ec} {'sat did not replay' if verdict[1] == 'sat' else verdict[1]}")


def replay_objects(inst, idx, flat_of, pt, want_t):
    """Evaluate entry idx of the really executed `eqs` numerically, substituting the model's own symbol OBJECTS."""
    import sympy
    from sympy.core.function import AppliedUndef
    t = inst.t
    expr = sympy.sympify(inst.eqs[idx])
    for p in equiv.perturbations(pt, 0):
        try:
            e2 = expr.subs({sympy.Derivative(o, t): p.get("der(%s)" % n, 0.0) for o, n in flat_of.items() if isinstance(o, AppliedUndef)})
            e2 = e2.subs({o: p.get(n, 0.0) for o, n in flat_of.items()})
            e2 = e2.subs(t, p.get("time", 0.0))
            gv = float(e2)
            wv = float(equiv.z3eval(want_t, pipeline._Default(p)))
        except Exception:
            continue
        if not equiv.close(gv, wv):
            return {"point": p, "generated": gv, "flat": wv}
    return None


def replay(src, cls, idx, name_of, pt, want_t):
    """Execute the generated module with the real SymPy (solver call stubbed) and evaluate eq idx."""
    import sympy
    mobj, err = instantiate(src, cls)
    if err:
        return {"exec_error": "%s: %s" % err}
    expr = mobj.eqs[idx]
    t = mobj.t
    for p in equiv.perturbations(pt, 0):
        subs = {}
        allsyms = list(mobj.x) + list(mobj.v) + list(mobj.c) + list(mobj.p) + list(mobj.u)
        try:
            e2 = expr
            for s in allsyms:
                nm = name_of.get(str(s).replace("(t)", "").replace(".", "__"), None)
                flat_name = nm if nm is not None else str(s).replace("(t)", "")
                e2 = e2.subs(sympy.Derivative(s, t), p.get("der(%s)" % flat_name, 0.0)) if hasattr(s, "diff") else e2
            for s in allsyms:
                nm = name_of.get(str(s).replace("(t)", "").replace(".", "__"), None)
                flat_name = nm if nm is not None else str(s).replace("(t)", "")
                e2 = e2.subs(s, p.get(flat_name, 0.0))
            e2 = e2.subs(t, p.get("time", 0.0))
            gv = float(e2)
            wv = float(equiv.z3eval(want_t, pipeline._Default(p)))
        except Exception as e:
            continue
        if not equiv.close(gv, wv):
            return {"point": p, "generated": gv, "flat": wv}
    return None


def work(batch):
    col = Collector()
    try:
        kind = batch[0]
        if kind == "exprs":
            trees = batch[1]
            texts = [pr(t) for t in trees]
            text = model_of(texts)
            cases = ["state-eq"] + [f"expr:{t}" for t in texts]
            check_module(col, "batch", text, "M", per_eq_cases=cases)
            col.sample({"equation": "y0 = " + texts[0]}, 1)
        elif kind == "eqs":
            text = "model M\n  Real a, b, c, d;\n  Real x;\nequation\n" + "".join(f"  {l} = {r};\n" for l, r in batch[1]) + "end M;\n"
            check_module(col, "eqshape-batch", text, "M", per_eq_cases=[f"eqshape:{l} = {r}" for l, r in batch[1]])
            col.sample({"equation": "%s = %s" % batch[1][0]}, 1)
        elif kind == "models":
            for cid, text, cls in batch[1]:
                check_module(col, cid, text, cls)
            col.sample({"model": batch[1][0][0]}, 1)
        else:
            _, cid, text, cls = batch
            check_module(col, cid, text, cls)
            col.sample({"model": cid}, 1)
    except Exception:
        col.harness_error(traceback.format_exc()[-1500:])
    return col


CLASSIFY = """model M
  constant Real k = 9.81;
  parameter Real m = 2;
  input Real u;
  output Real y;
  output Real pos;
  Real vel;
  Real w;
equation
  der(pos) = vel;
  der(vel) = u / m - k;
  y = 2 * pos + w;
  w = vel * m;
end M;
"""
NAMES = """model N
  Real y;
  Real sum;
  Real abs;
  Real psi;
equation
  y = 1; sum = y + 1; abs = sum * 2; psi = abs - y;
end N;
model M
  N n;
  Real n__y;
  Real sum;
  Real sum_;
  Real len;
equation
  n__y = 2 * n.y;
  sum = n.sum + 1;
  sum_ = sum * 3;
  len = sum_ - n.psi;
end M;
"""


def main():
    args = std_args(PROP)
    rep = Report(PROP, args.tier, "translation_validation", args.seed)
    import sympy.physics.mechanics  # noqa: F401  (imported before the workers fork)
    from pymoca.backends.sympy import runtime  # noqa: F401  (pulls in scipy.integrate: seconds, once)
    ts = arith_trees(args.tier) + literal_trees(args.tier) + call_trees(args.tier)
    fam = (classification_models(args.tier) + name_models(args.tier) + name_role_models(args.tier) + callee_models(args.tier) + der_models(args.tier)
           + dotted_models(args.tier) + packaged_models(args.tier))
    shapes = equation_shapes(args.tier)
    items = [("models", fam[i:i + BATCH]) for i in range(0, len(fam), BATCH)]
    items += [("exprs", ts[i:i + BATCH]) for i in range(0, len(ts), BATCH)]
    items += [("eqs", shapes[i:i + 2 * BATCH]) for i in range(0, len(shapes), 2 * BATCH)]
    items += [("model", "classify", CLASSIFY, "M"), ("model", "names", NAMES, "M"),
              ("model", "repo:Spring", open(REPO + "/test/models/Spring.mo").read(), "Spring"),
              ("model", "repo:Aircraft", open(REPO + "/test/models/Aircraft.mo").read(), "Aircraft")]
    import gc
    gc.collect()
    gc.freeze()   # the workers are forked: keep the collector from touching (= copying) the parent's whole heap in each of them
    for col in run_parallel(work, items, args.jobs):
        rep.merge(col)
    cov = rep.coverage
    cov["disagreements_checked"] = rep.queries.get("sat", 0)
    cov["functions_encoded"] = ["backends.sympy.generator.generate (executed); generated self.eqs entries -> Python ast -> z3 (py2z3)",
                                "the generated module executed with the real SymPy (solver call stubbed): eqs entries as SymPy objects -> z3 (sympy2z3), "
                                "symbols resolved through the objects in self.x / v / c / p / u / y"]
    cov["bounds"] = ("expression trees of depth <= 2 (thorough 3) over + - * / ^, unary minus / plus, der, sin/cos/tan, time, printed with the parentheses Modelica requires; "
                     f"{len(call_trees(args.tier))} call shapes ({len(call_trees(args.tier)) // len(CALLS)} for each of abs (a Python builtin) / sin / cos / tan (module imports)): signed, operator, literal, time, der() arguments, "
                     "the call as either operand of every operator, as base / exponent / divisor, nested in every other call" + (", under two operator levels" if args.tier == "thorough" else "") + "; "
                     f"{len(LITERALS_QUICK) + (len(LITERALS_MORE) if args.tier == 'thorough' else 0)} numeric literal spellings (1..18 significant digits, exponent forms, values whose repr uses exponent notation" + ("; integers beyond 2**53, the smallest subnormal and the largest double" if args.tier == "thorough" else "") + ") "
                     "alone / negated / as factor, divisor, subtrahend, exponent, call argument, next to der(); variable values unbounded reals; "
                     f"classification: {len(classification_models(args.tier))} models with two variables whose names contain one another ({len(NAME_PAIRS_QUICK) + (len(NAME_PAIRS_MORE) if args.tier == 'thorough' else 0)} name pairs) "
                     "in all 8x8 role combinations (state, state+output, output, plain, input, differentiated input = input+state, parameter, constant" + ("" if args.tier == "thorough" else "; quick: the differentiated input meets every role for the first name pair only") + ") and both declaration orders, plus one hand-written model; "
                     f"der(): {len(der_models(args.tier))} models applying der() to a plain variable / an output / an input in {len(DER_USES)} operand positions (lhs, factor, negated, call argument, power base, divisor, "
                     "twice, next to the variable's value, next to der() of a sibling) with an undifferentiated sibling of the same role declared after it" + (" or before it" if args.tier == "thorough" else " (inputs: or before it)") + "; "
                     f"names: {len(NAME_SINGLES)} single names (Python builtins, the generator's clash list, names used by the generated module incl. OdeModel's attributes and the model's own class name, underscores, Python keywords, self/sympy/mech) and "
                     f"{len(NAME_PAIRS)} pairs name / name_ ; {len(name_role_models(args.tier))} models giving each of {len(name_role_models(args.tier)) // len(NAME_ROLES)} names every one of {len(NAME_ROLES)} roles in equations that use time "
                     "(factor, power base, call argument, alone) and a call; "
                     f"{len(callee_models(args.tier))} models with a variable spelled like a called function or its escaped name (f / f_ for abs, sin, cos, tan) as plain variable / parameter" + (" / state / input" if args.tier == "thorough" else "") + "; "
                     f"{len(dotted_models(args.tier))} models with a component instance (flat names inst.x in the roles output / state / parameter / constant / plain, with and without a differentiated member) "
                     f"whose instance name is taken from the clash lists; {len(packaged_models(args.tier))} models declared inside a package (dotted class name); "
                     f"{len(equation_shapes(args.tier))} equations with a non-trivial LEFT side ({len(EQ_LHS)} shapes: sums, differences, products, quotients, powers, signs, literals, der(), calls, time) against "
                     f"{len(EQ_RHS) if args.tier == 'thorough' else 5} right sides; "
                     "every generated module is compiled AND executed / instantiated with the real SymPy (solver call stubbed); every equation is proved twice: from the generated source text and from the "
                     "SymPy object the executed module built (automatic evaluation off, falling back to the evaluated object), with one SymPy object per variable across the lists and none equal to another variable's or to time")
    rep.assumptions += ["Python's ast module gives the precedence SymPy will see", "sin/cos/pow uninterpreted; divisors non-zero",
                        "builtin calls are limited to what the generated module imports (sin, cos, tan) plus abs (Python's builtin, which SymPy objects support): exp/sqrt/log/... are printed as bare calls without an import "
                        "(NameError on execution), min/max reach Python's builtins, which cannot compare SymPy objects (TypeError); both are treated as outside the backend's subset",
                        "der() of a parameter / constant is not enumerated (Modelica defines it as 0; the flat reference keeps it as a free term)",
                        "the executed-module view runs the generated code under sympy.evaluate(False) to keep the operator tree (same name binding, same symbol objects); SymPy's automatic evaluation itself is trusted",
                        "a sat answer is reported only if it replays numerically (atol 1e-9 + rtol 1e-9): a wrong literal that is tiny in absolute terms shows up through the a / literal and a * literal positions"]
    if not cov.get("equations"):
        rep.harness_error("nothing compared")
    return rep.finish()


if __name__ == "__main__":
    sys.exit(main())
