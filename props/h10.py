"""CrossHair harness for C10: the prefix flags of the subject variable are symbolic and flow through the
real tree.flatten / annotate_states / Generator.exitClass classification."""
import pickle

from pymoca import parser, tree
from pymoca.backends.casadi import generator
from vk import chstubs
from vk.chstubs import pin, PIN

chstubs.install_format_cut()
chstubs.install_casadi_realizers()
chstubs.silence(generator, tree)

TYPES = ["Real", "Integer", "Boolean", "String"]
VALUES = ["1.5", "2", "true", '"a"']
VARIABILITY = [None, "discrete", "parameter", "constant"]
CAUSALITY = [None, "input", "output"]


def model_text(t, p, d, o, prefixes=""):
    """t type index, p placement (0 top-level x, 1 nested c.w), d der usage, o order (0: subject first)."""
    ty, val = TYPES[t], VALUES[t]
    decl = f"{prefixes} {ty} SUBJ = {val};".strip()
    c_eq, m_eq, m_ieq = ["q = 1;"], [], []
    if p == 0:
        ref = "x"
        if d == 1:
            m_eq.append("der(x) = z;")
        elif d == 2:
            m_eq.append("z = 2 * der(x) + 1;")
        elif d == 3:
            m_ieq.append("der(x) = 0;")
        elif d == 5:
            # the subject follows a closed sub-expression inside der(): der(2 * w0 + x)
            m_eq.append("z = der(2 * w0 + x) + 1;")
            m_eq.append("w0 = 3 * time;")
        elif d == 6:
            m_eq.append("z = der((w0 - 1) * 2 + (x + w0)) + 1;")
            m_eq.append("w0 = 3 * time;")
        if d not in (2, 5, 6):
            m_eq.append("z = 3;")
    else:
        ref = "w"
        if d == 1:
            c_eq.append("der(w) = q;")
        elif d == 2:
            c_eq.append("q + 2 * der(w) = 1;")
        elif d == 3:
            m_ieq.append("der(c.w) = 0;")
        elif d == 4:
            m_eq.append("der(c.w) = z;")
        m_eq.append("z = 3;")
    subj = decl.replace("SUBJ", ref)
    other = "Real q;" if p == 1 else "Real z;"
    two = [subj, other] if o == 0 else [other, subj]
    if p == 0:
        c_decl = ["Real q;"]
        m_decl = two + ["C c;"] + (["Real w0;"] if d in (5, 6) else [])
    else:
        c_decl = two
        m_decl = ["Real z;", "C c;"]
    txt = "model C\n  " + "\n  ".join(c_decl) + "\nequation\n  " + "\n  ".join(c_eq) + "\nend C;\n"
    txt += "model M\n  " + "\n  ".join(m_decl) + "\n"
    if m_ieq:
        txt += "initial equation\n  " + "\n  ".join(m_ieq) + "\n"
    txt += "equation\n  " + "\n  ".join(m_eq) + "\nend M;\n"
    return txt


def expected(t, p, d, o, f, v, c):
    """The classification the property states. -> dict"""
    name = "x" if p == 0 else "c.w"
    other = "z" if p == 0 else "c.q"
    top = p == 0
    if v == 3:
        cat = "string_constants" if t == 3 else "constants"
    elif v == 2:
        cat = "string_parameters" if t == 3 else "parameters"
    elif top and c == 1:
        cat = "inputs"
    elif d > 0:
        cat = "states"
    else:
        cat = "alg_states"
    return name, other, cat, (top and c == 2 and cat in ("states", "alg_states"))


def admissible(t, d, f, v, c):
    if t != 0 and (d > 0 or f):
        return False  # der()/flow only on Real
    if t == 3 and v not in (2, 3):
        return False  # String variables other than constants/parameters are outside the backend's subset
    if d > 0 and v in (1, 2, 3):
        return False  # der() of a constant / parameter / discrete variable is not in the family
    return True


_TPL = {}


def _tpl(t, p, d, o):
    k = (t, p, d, o)
    if k not in _TPL:
        _TPL[k] = pickle.dumps(parser.parse(model_text(t, p, d, o), bypass_cache=True))
    return _TPL[k]


# parse the shard's template at import time (outside tracing)
if all(k in PIN for k in ("t", "p", "d", "o")):
    _tpl(PIN["t"], PIN["p"], PIN["d"], PIN["o"])


def names(vs):
    out = []
    for v in vs:
        out.append(v.symbol.name() if hasattr(v, "symbol") else v.name)
    return out


def observe(m):
    cats = {}
    for cat in ("states", "alg_states", "inputs", "parameters", "constants", "string_parameters", "string_constants"):
        cats[cat] = names(getattr(m, cat))
    return cats, names(m.der_states), list(m.outputs)


def run(t, p, d, o, f, v, c):
    """Returns 1 when the real classification matches the property, 0 otherwise."""
    tr = pickle.loads(_tpl(t, p, d, o))
    sym = tr.classes["M"].symbols["x"] if p == 0 else tr.classes["C"].symbols["w"]
    lst = []
    if f:
        lst.append("flow")
    if v == 1:
        lst.append("discrete")
    elif v == 2:
        lst.append("parameter")
    elif v == 3:
        lst.append("constant")
    if c == 1:
        lst.append("input")
    elif c == 2:
        lst.append("output")
    sym.prefixes = lst
    m = generator.generate(tr, "M", {})
    name, other, cat, is_out = expected(t, p, d, o, f, v, c)
    cats, ders, outs = observe(m)
    # exactly one category, the right one
    hits = 0
    for k in cats:
        n = 0
        for x in cats[k]:
            if x == name:
                n += 1
        if n > 0 and k != cat:
            return 0
        hits += n
    if hits != 1:
        return 0
    # one derivative variable per state, none otherwise
    want_der = ["der(" + s + ")" for s in cats["states"]]
    if ders != want_der:
        return 0
    if (name in cats["states"]) != (cat == "states"):
        return 0
    # neighbours stay algebraic and appear once
    for nb in (other, "z" if p == 1 else "c.q"):
        if cats["alg_states"].count(nb) != 1:
            return 0
    # outputs: exactly the output-prefixed states / algebraic variables
    if outs != ([name] if is_out else []):
        return 0
    # declaration order inside one class instance and one category
    if cat == "alg_states":
        lst2 = cats["alg_states"]
        if (lst2.index(name) < lst2.index(other)) != (o == 0):
            return 0
    return 1


def classify(t: int, p: int, d: int, o: int, f: bool, v: int, c: int) -> int:
    """
    pre: pin(t=t, p=p, d=d, o=o) and 0 <= v <= 3 and 0 <= c <= 2
    pre: admissible(t, d, f, v, c)
    post: _ == 1
    """
    if "t" in PIN:
        t, p, d, o = PIN["t"], PIN["p"], PIN["d"], PIN["o"]
    return run(t, p, d, o, f, v, c)


def reach_classify(t: int, p: int, d: int, o: int, f: bool, v: int, c: int) -> int:
    """
    pre: pin(t=t, p=p, d=d, o=o) and 0 <= v <= 3 and 0 <= c <= 2
    pre: admissible(t, d, f, v, c)
    post: _ == 0
    """
    if "t" in PIN:
        t, p, d, o = PIN["t"], PIN["p"], PIN["d"], PIN["o"]
    return run(t, p, d, o, f, v, c)
