"""CrossHair harness for C26: the real tools.compiler.main (real argparse, list_modelica_files, parse_file,
parse_all, per-model loops, casadi directory inference) runs against a file system, parser and backends
whose outcomes are symbolic 0/1 flags."""
import io
import pathlib
import sys

import pymoca.ast
import pymoca.parser
import pymoca.tree
import pymoca.backends.sympy.generator as sympy_gen
import pymoca.backends.casadi.api as casadi_api
import tools.compiler as C
from vk import chstubs
from vk.chstubs import pin

chstubs.install_format_cut()
chstubs.silence(C)


class _Clock:
    @staticmethod
    def perf_counter():
        return 0.0


C.time = _Clock

import argparse
argparse.ArgumentParser._print_message = lambda self, message, file=None: None  # usage text on stderr is not the subject


class FS:
    cur = None  # dict: str(path) -> ("file"|"dir"|None, payload)


_o = {k: getattr(pathlib.Path, k) for k in ("exists", "is_dir", "is_file", "glob", "open")}


def _kind(p):
    ent = FS.cur.get(str(p))
    if ent is None:
        return None
    return ent[0] if ent[1] else None


def _exists(self, **kw):
    if FS.cur is None:
        return _o["exists"](self, **kw)
    return _kind(self) is not None


def _is_dir(self):
    if FS.cur is None:
        return _o["is_dir"](self)
    return _kind(self) == "dir"


def _is_file(self):
    if FS.cur is None:
        return _o["is_file"](self)
    return _kind(self) == "file"


def _glob(self, pat):
    if FS.cur is None:
        return _o["glob"](self, pat)
    return [pathlib.Path(k) for k in FS.cur if k.startswith(str(self) + "/") and k.endswith(".mo") and _kind(k) == "file"]


class _Sink(io.StringIO):
    pass


def _open(self, *a, **kw):
    if FS.cur is None:
        return _o["open"](self, *a, **kw)
    mode = a[0] if a else kw.get("mode", "r")
    if "w" in mode:
        if FS.cur.get("__write_fails__"):
            raise OSError("cannot write")
        return _Sink()
    if FS.cur.get("__read_fails__:" + str(self)):
        raise OSError("cannot read")
    return io.StringIO("TEXT:" + str(self))


pathlib.Path.exists, pathlib.Path.is_dir, pathlib.Path.is_file, pathlib.Path.glob, pathlib.Path.open = _exists, _is_dir, _is_file, _glob, _open

ENV = {}


def _parse(text, *a, **kw):
    kind = ENV["parse"][text[5:]]
    if kind == 0:
        return pymoca.ast.Tree(name="t")
    if kind == 1:
        return None
    raise KeyError("listener problem")


def _flatten(lib, ref):
    if ENV["model_ok"][str(ref)]:
        return pymoca.ast.Tree(name="flat")
    raise Exception("flatten failed")


def _sympy_generate(lib, model, options):
    k = ENV["gen"][model]
    if k == 0:
        return "code"
    if k == 1:
        raise KeyError("translate problem")
    raise Exception("class not found")


def _transfer(model_dir, model, options=None):
    if ENV["gen"][model] == 0:
        return object()
    raise RuntimeError("casadi problem")


pymoca.parser.parse = _parse
pymoca.tree.flatten = _flatten
sympy_gen.generate = _sympy_generate
casadi_api.transfer_model = _transfer

A_MO, B_MO, DIR, DIR_A, TXT, OUT = "lib/A.mo", "B.mo", "d", "d/A.mo", "notes.txt", "out"
DIR2, DIR2_A = "e", "e/sub/A.mo"


def invoke(argv, fs, parse, model_ok, gen):
    FS.cur = fs
    ENV.update(parse=parse, model_ok=model_ok, gen=gen)
    try:
        try:
            return C.main(argv)
        except SystemExit as e:
            return 1000 + (e.code if isinstance(e.code, int) else 99)
        except Exception:
            return -1  # an uncaught exception is never "the number of errors"
    finally:
        FS.cur = None


def cli(target: int, two: int, e1: int, e2: int, e3: int, inc2: int, inc3: int, inc4: int, out_ok: int, pa: int, pb: int, pd: int, ga: int, gb: int, opt: int, wfail: int, inc5: int = 0) -> int:
    """
    pre: pin(target=target, two=two, inc3=inc3, inc5=inc5) and 0 <= target <= 2 and 0 <= inc5 <= 1
    pre: all(0 <= x <= 1 for x in (two, e1, e2, e3, inc2, inc3, inc4, out_ok, wfail)) and all(0 <= x <= 2 for x in (pa, pb, pd, ga, gb, opt))
    post: _ == 0
    """
    fs = {A_MO: ("file", e1), B_MO: ("file", e2), DIR: ("dir", e3), DIR_A: ("file", e3), TXT: ("file", 1), OUT: ("dir", out_ok),
          DIR2: ("dir", 1), DIR2_A: ("file", 1), "__write_fails__": wfail}
    argv = ["-o", OUT]
    if target == 1:
        argv += ["-t", "sympy"]
    elif target == 2:
        argv += ["-t", "casadi"]
    argv += ["-m", "A"]
    if two:
        argv += ["-m", "B"]
    if opt == 1:
        argv += ["-O", "expand_mx=True"]
    elif opt == 2:
        argv += ["-O", "expand_mx"]
    paths = [A_MO]
    if inc2:
        paths.append(B_MO)
    if inc3:
        paths.append(DIR)
    if inc4:
        paths.append(TXT)
    if inc5:
        paths.append(DIR2)
    argv += paths
    parse = {A_MO: pa, B_MO: pb, DIR_A: pd, DIR2_A: 0}
    got = invoke(argv, fs, parse, {"A": ga == 0, "B": gb == 0}, {"A": ga, "B": gb})
    # ---- expected, staged as the tool documents: usage errors; else parse errors; else failing models
    usage = (1 - out_ok) + (1 - e1) + (inc2 * (1 - e2)) + (inc3 * (1 - e3))
    if opt == 2:
        usage += 1
    if usage > 0:
        return got - usage
    # files found (all listed paths exist here)
    nfiles = 1 + inc2 + inc3 + inc5
    if target != 2:
        perr = (1 if pa != 0 else 0) + (inc2 if pb != 0 else 0) + (inc3 if pd != 0 else 0)
        if perr > 0:
            return got - perr
        fail_a = 1 if ga != 0 else 0
        fail_b = 1 if gb != 0 else 0
        if target == 1 and wfail:
            fail_a, fail_b = 1, 1
        return got - (fail_a + (fail_b if two else 0))
    # casadi: one file per model stem, else the model fails
    n_a = 1 + inc3 + inc5
    n_b = inc2
    fail_a = 1 if (n_a != 1 or ga != 0) else 0
    fail_b = 1 if (n_b != 1 or gb != 0) else 0
    return got - (fail_a + (fail_b if two else 0))


def reach_cli(target: int, two: int, e1: int, e2: int, e3: int, inc2: int, inc3: int, inc4: int, out_ok: int, pa: int, pb: int, pd: int, ga: int, gb: int, opt: int, wfail: int) -> int:
    """
    pre: pin(target=target, two=two, inc3=inc3) and 0 <= target <= 2
    pre: all(0 <= x <= 1 for x in (two, e1, e2, e3, inc2, inc3, inc4, out_ok, wfail)) and all(0 <= x <= 2 for x in (pa, pb, pd, ga, gb, opt))
    post: _ != 0
    """
    return cli(target, two, e1, e2, e3, inc2, inc3, inc4, out_ok, pa, pb, pd, ga, gb, opt, wfail)


def usage_shapes(shape: int, e1: int, out_ok: int) -> int:
    """
    pre: 0 <= shape <= 4 and 0 <= e1 <= 1 and 0 <= out_ok <= 1
    post: _ == 1002
    """
    fs = {A_MO: ("file", e1), OUT: ("dir", out_ok)}
    argv = [["-t", "sympy", A_MO], ["-t", "fortran", "-m", "A", A_MO], ["-m", "A"], ["-m"], ["--bogus", A_MO]][shape]
    return invoke(argv, fs, {A_MO: 0}, {"A": True}, {"A": 0})


def only_txt(out_ok: int, target: int) -> int:
    """
    pre: 0 <= out_ok <= 1 and 0 <= target <= 2
    post: _ == 1
    """
    fs = {TXT: ("file", 1), OUT: ("dir", out_ok)}
    argv = ["-o", OUT, "-m", "A"] + ([["-t", "sympy"], ["-t", "casadi"]][target - 1] if target else []) + [TXT]
    got = invoke(argv, fs, {}, {"A": True}, {"A": 0})
    return got if out_ok else (1 if got == 1 else got)


def twice(target: int, pa1: int, pa2: int, ga1: int, ga2: int, inc2a: int, inc2b: int, pb: int) -> int:
    """
    pre: 0 <= target <= 2 and all(0 <= x <= 2 for x in (pa1, pa2, ga1, ga2, pb)) and 0 <= inc2a <= 1 and 0 <= inc2b <= 1 and pin(target=target)
    post: _ == 0
    """
    # two invocations in one process; between them the file's content (parse outcome), the model's outcome and the
    # set of PATH arguments change: the second status must be what it would be in a fresh process
    fs = {A_MO: ("file", 1), B_MO: ("file", 1), OUT: ("dir", 1), "__write_fails__": 0}
    tgt = [[], ["-t", "sympy"], ["-t", "casadi"]][target] if target in (0, 1, 2) else []
    def run(pa, ga, inc2):
        argv = ["-o", OUT] + tgt + ["-m", "A", A_MO] + ([B_MO] if inc2 else [])
        got = invoke(argv, fs, {A_MO: pa, B_MO: pb}, {"A": ga == 0, "B": True}, {"A": ga, "B": 0})
        if target != 2:
            perr = (1 if pa != 0 else 0) + (inc2 if pb != 0 else 0)
            if perr > 0:
                return got - perr
        return got - (1 if ga != 0 else 0)
    first = run(pa1, ga1, inc2a)
    if first != 0:
        return first
    return run(pa2, ga2, inc2b)
