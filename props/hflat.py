"""Shared pieces of the flatten-family CrossHair harnesses (C05, C06, C27): library templates parsed
outside tracing, placeholder substitution, canonical form of a flat model, safe flatten."""
import copy
import pickle

from pymoca import ast, parser, tree
from vk import chstubs

chstubs.install_format_cut()
chstubs.silence(tree, parser)

# Literal placeholders 7001.. are replaced by the harness's symbolic integers.
LIBS = {
    "comp": ("""
model A
  parameter Real p = 7001;
  Real x;
equation
  x = p + 7002;
end A;
model B
  extends A(p = 7003);
  Real y;
equation
  y = 2 * x;
end B;
model C
  A a(p = 7004);
  B b;
  Real z;
equation
  z = a.x + b.y;
end C;
""", ["A", "B", "C"]),
    "alias": ("""
type Voltage = Real(unit = "V", min = 7001);
package P
  model In
    Voltage v(start = 7002);
  end In;
  model Out
    In i;
    Real w;
  equation
    w = i.v;
  end Out;
end P;
model D
  P.Out o;
  P.In j(v(start = 7003));
equation
  j.v = o.w + 7004;
end D;
""", ["P.In", "P.Out", "D"]),
    "conn": ("""
connector Pin
  Real v;
  flow Real i;
end Pin;
model R
  Pin p, n;
  parameter Real r = 7001;
equation
  p.v - n.v = r * p.i;
  p.i + n.i = 0;
end R;
model Ckt
  R r1(r = 7002), r2;
equation
  connect(r1.n, r2.p);
  r1.p.v = 7003;
  r2.n.v = 7004;
end Ckt;
""", ["R", "Ckt", "Pin"]),
    "redecl": ("""
model M1
  Real x = 7001;
end M1;
model Sub
  parameter Real p = 1;
  Real w = p * 2;
end Sub;
model M2
  Real x = 7002;
  Real y = 7003;
  Sub s(p = 7004);
end M2;
model H
  replaceable model T = M1;
  T t;
end H;
model G
  H h(redeclare model T = M2);
  Real k = 7004;
end G;
model U
  M2 m;
  Real u = m.s.w;
end U;
""", ["G", "M2", "U", "H"]),
    "assembled": ([
        "package P\n  constant Real g = 7001;\n  model A\n    Real a = g * 7002;\n  end A;\nend P;\n",
        "within P;\nmodel B\n  extends A;\n  Real b = a + 7003;\nend B;\n",
        "within P;\nmodel C\n  B pb;\n  A pa;\n  Real c = pb.b + pa.a + 7004;\nend C;\n",
    ], ["P.A", "P.B", "P.C"]),
    "imports": ("""
package A
  model X
    Real a = 7001;
  end X;
end A;
package B
  model Y
    Real b = 7002;
  end Y;
end B;
package P
  import A.*;
  import B.*;
  import BB = B;
  model M1
    X x;
    Real m = x.a + 7003;
  end M1;
  model M2
    X x2;
    BB.Y y2;
    Real n = x2.a * y2.b + 7004;
  end M2;
end P;
""", ["P.M1", "P.M2", "A.X"]),
    # package constants (scalar, array, a record-like constant with an input member) pulled in through dotted
    # references from classes that are instantiated as scalar and as array components
    "pkgconst": ("""
package P
  model Rec
    input Real a = 7001;
    Real q;
  equation
    q = a;
  end Rec;
  constant Rec r;
  constant Real g[2] = {7002, 2};
  constant Real h = 7003;
end P;
model Sub
  Real y;
equation
  y = P.r.a + P.g[1] + P.h;
end Sub;
model M
  Sub s;
  Sub t[2];
  Real z = P.h + 7004;
end M;
""", ["M", "P.Rec", "Sub"]),
    "func": ("""
function g
  input Real a;
  output Real b;
algorithm
  b := a + 1;
end g;
function f
  input Real a;
  output Real b;
algorithm
  b := g(a) * 7001;
end f;
model F
  Real x;
equation
  x = f(7002);
end F;
model F2
  F g;
  Real y;
equation
  y = g.x + f(7003) + 7004;
end F2;
""", ["F", "F2"]),
}

_TPL = {}


def tpl(lib):
    if lib not in _TPL:
        src = LIBS[lib][0]
        if isinstance(src, list):
            # a library assembled from several files with Tree.extend, as the CLI and the CasADi API do
            t = ast.Tree(name="ModelicaTree")
            for txt in src:
                part = parser.parse(txt, bypass_cache=True)
                if part is None:
                    raise ValueError("library file does not parse: " + lib)
                t.extend(part)
        else:
            t = parser.parse(src, bypass_cache=True)
        if t is None:
            raise ValueError("library template does not parse: " + lib)
        _TPL[lib] = pickle.dumps(t)
    return _TPL[lib]


class _Subst(tree.TreeListener):
    def __init__(self, m):
        super().__init__()
        self.m = m

    def exitPrimary(self, t):
        if type(t.value) is int and t.value in self.m:
            t.value = self.m[t.value]


def subst(t, vals):
    m = {7001 + i: v for i, v in enumerate(vals)}
    tree.TreeWalker().walk(_Subst(m), t)
    return t


def inst(lib, vals):
    """A fresh, independent tree of library `lib` with the literal values substituted."""
    return subst(pickle.loads(tpl(lib)), vals)


def J(node):
    return ast.Node.to_json(node)


def flat(t, name):
    """('ok', canonical flat model) or ('raise', exception type name)."""
    try:
        ft = tree.flatten(t, ast.ComponentRef.from_string(name))
    except Exception as e:
        return ("raise", type(e).__name__)
    return ("ok", J(ft))


def same(a, b):
    if a[0] != b[0]:
        return False
    if a[0] == "raise":
        return True  # both rejected
    return a[1] == b[1]
