"""CrossHair harness for C15: the Boolean simplification options are symbolic and flow through the real
Model.simplify / _simplify_once; afterwards the balance and the constructibility of both residual
Functions are asserted."""
import pickle

from pymoca import parser, tree
from pymoca.backends.casadi import generator, model as cmodel
from vk import chstubs, simpfam
from vk.chstubs import pin, PIN

chstubs.install_format_cut()
chstubs.install_casadi_realizers()
chstubs.silence(generator, tree, cmodel)

MODELS = [m for m in simpfam.models("thorough")]
IDS = [mid for mid, _ in MODELS]
_TPL = {}


def tpl(mi):
    if mi not in _TPL:
        _TPL[mi] = pickle.dumps(parser.parse(MODELS[mi][1], bypass_cache=True))
    return _TPL[mi]


if "mi" in PIN:
    tpl(PIN["mi"])

OPTS = ["eliminate_constant_assignments", "replace_constant_values", "replace_parameter_expressions", "detect_aliases",
        "eliminable_variable_expression", "factor_and_simplify_equations", "replace_parameter_values", "expand_mx", "allow_derivative_aliases"]


def balance(m):
    n = 0
    for v in list(m.states) + list(m.alg_states):
        n += v.symbol.size1() * v.symbol.size2()
    f = m.dae_residual_function
    rows = 0
    for k in range(f.n_out()):
        rows += f.numel_out(k)
    return n - rows


def run(mi, flags):
    """1 = the simplified system kept its balance and both residual Functions could be built."""
    mid = IDS[mi]
    t = pickle.loads(tpl(mi))
    m = generator.generate(t, "S", {})
    before = balance(m)
    opts = {}
    for name, b in zip(OPTS, flags):
        if name == "eliminable_variable_expression":
            if b:
                opts[name] = simpfam.ELIM_RE.get(mid.split(":")[0], "^a[0-9]$")
                opts["expand_mx"] = True
        elif name == "expand_mx":
            if b:
                opts[name] = True
        else:
            opts[name] = b
    try:
        m.simplify(opts)
    except Exception:
        return 0
    try:
        after = balance(m)
        m.initial_residual_function
    except Exception:  # CasADi refuses free variables: a dangling reference to an eliminated variable
        return 2
    return 1 if after == before else 3


def square(mi: int, o0: bool, o1: bool, o2: bool, o3: bool, o4: bool, o5: bool) -> int:
    """
    pre: pin(mi=mi, o3=o3, o4=o4)
    post: _ == 1
    """
    if "mi" in PIN:
        mi = PIN["mi"]
    return run(mi, [o0, o1, o2, o3, o4, o5, False, False, True])


def square9(mi: int, o0: bool, o1: bool, o2: bool, o3: bool, o4: bool, o5: bool, o6: bool, o7: bool, o8: bool) -> int:
    """
    pre: pin(mi=mi, o3=o3, o4=o4, o0=o0, o6=o6)
    post: _ == 1
    """
    if "mi" in PIN:
        mi = PIN["mi"]
    return run(mi, [o0, o1, o2, o3, o4, o5, o6, o7, o8])


def reach_square(mi: int, o0: bool, o1: bool, o2: bool, o3: bool, o4: bool, o5: bool) -> int:
    """
    pre: pin(mi=mi, o3=o3, o4=o4)
    post: _ == 0
    """
    if "mi" in PIN:
        mi = PIN["mi"]
    return run(mi, [o0, o1, o2, o3, o4, o5, False, False, True])
